"""C15 -- Lock, RLock and BoundedSemaphore exclude across threads (and processes).

Implementation side: 2-4 contender threads (own Cache objects on one directory / one shared Cache /
one shared FanoutCache), database timeout 0, driven by harness/sched.Scheduler along explicit
schedules (systematically enumerated and random), then round-robin.
MONITOR (independent of the Coq model): a witness counter maintained by the contenders themselves
inside their critical sections (max simultaneous holders), a second counter inside barrier-wrapped
functions, refusal of RLock.release by a non-holder / BoundedSemaphore.release at full value (and: a refused
release leaves the stored entry unchanged and admits no extra holder afterwards, `refusal_sequences`),
"an attempt made while the resource is certainly free succeeds", and termination of every contender.
Separately started interpreters (`fresh_process_holders`): process A (own PYTHONHASHSEED) opens the directory, builds its recipe objects
from the keys and holds; process B (another interpreter, another PYTHONHASHSEED, nothing inherited or pickled) must find each of them
taken (Lock.locked() true, an attempt that ends at the recipe's first sleep gets exactly the permits A left) and free after A's release.
CORRESPONDENCE: the atomic-step schedule is read off the scheduler log (the COMMIT/ROLLBACK that ends
each transaction on the key's shard, lock-free SELECTs, work sleeps) and the same programs + schedule
are run through model/Recipes.v (check_lock / check_rlock / check_sem): per-step outcomes, final
stored value and per-client depth must agree.
"""
import itertools
import os
import shutil
import tempfile
import threading

import fw
import instr
import sched
from instr import diskcache

ID = 'C15'
COQ_PROP = 'C15'
LEVEL = 'proof'
TRANSLATE = ['recipes', 'format', 'sql', 'fanout', 'disk']     # format: Cache/FanoutCache __getstate__ / __setstate__ / __init__ parameters (recipe objects and handles that travel by pickle)
TRUSTED = [
    'atomic layer: one Cache operation / one `with cache.transact(retry=True)` block on the recipe key is one atomic step of model/Recipes.v (this is what C05/C06 state; assumed here, exercised by the schedule-driven correspondence)',
    'translator templates of tools/emit_recipes.py for Lock/RLock/BoundedSemaphore/barrier (AST equality outside the holes)',
    'the mapping from scheduler-log events to atomic steps (COMMIT/ROLLBACK of the key shard, lock-free SELECT, work sleep) in harness/props/c15.py',
    'separately started interpreters: the child script FRESH_CHILD of harness/props/c15.py (run by /venv/bin/python -c with PYTHONPATH = the tree under test; it '
    'asserts that diskcache was imported from there), its replacement of diskcache.recipes.time by an object whose sleep() raises (so that an attempt which '
    'found the resource taken ends instead of waiting), the line protocol over the pipes (A leaves only after B has reported), and the operating system '
    'honouring PYTHONHASHSEED',
]
ASSUMPTIONS = [
    'the lock key is touched by nobody else, has no ttl (the recipes and barrier are used with their DEFAULT expire, which the hold sequences check '
    'to mean "never": a holder stays inside while the virtual clock advances by up to 400 days) and is not evicted (eviction_policy none)',
    'each cache operation and each transact block is atomic and isolated (properties C05/C06)',
    'Lock and BoundedSemaphore: contenders release only what they hold (Lock.release deletes the key whoever holds it; the property text requires refusal only for RLock) -- RLock theorems need no such discipline.  A release by a contender holding nothing is still generated: with every permit free it must be refused (BoundedSemaphore) or be a no-op (Lock) and must leave the stored entry as it was, and the exclusion bound is then checked on what follows; only runs in which such a release was ACCEPTED (another contender held a permit) are left to the correspondence',
    'owner identity pid-tid is distinct for distinct contenders',
    'no liveness under contention is claimed (needs a fair scheduler): only "a free resource is taken by the next attempt" and "a release frees it"',
    'processes: forked holders (object built before the fork) and forked contenders that unpickle the recipe object (Cache and FanoutCache with 1-13 shards, '
    'both directions) on every run, monitor only; a free-running soak in the thorough tier; the deterministic scheduler drives threads',
    'separately started interpreters (neither forked from one another nor sharing pickled objects; each opens the directory and builds its recipe from the key): '
    'two processes per configuration with explicit PYTHONHASHSEED values (different, and equal as a control; the everyday case "unset = random per process" is an '
    'instance of "different"), Cache and FanoutCache with 2, 3, 8 and one of 4/5/13 shards, text keys of several shapes plus a few int/float/bytes/tuple keys, '
    'Lock, RLock (depth 1-2), BoundedSemaphore(1-3) fully and partly taken, barrier with each factory; sequential (B probes while A stays inside, no interleaving '
    'of the two), monitor only; a child that does not answer within 120 s is counted as inconclusive, never as a violation',
    'hold sequences are sequential (one operation at a time, an acquire that would wait is cut at its first sleep): they add the dimensions time and '
    'origin of the handle (same object / unpickled recipe object / recipe built on an unpickled cache handle), not interleavings',
]

WORK = 0.25          # duration of the sleep that stands for work inside a critical section
KEY = 'K'
IMPORTS = ['DCPrelude', 'RecipesBase', 'Gen_Recipes', 'Recipes']


# ---------------------------------------------------------------------------
# running a case on the implementation


class Witness:
    """Independent bookkeeping done by the contenders themselves (no cache access)."""

    def __init__(self, n):
        self.h = [0] * n            # acquisitions held, by contender
        self.inside = [0] * n       # inside a barrier-wrapped function
        self.max_holders = 0
        self.max_permits = 0
        self.max_inside = 0
        self.work_unheld = 0        # a W step executed while the contender's own count was 0 (program bug, not used)
        self.may = [0] * n          # over-approximation: acquires begun minus releases completed
        self.timeline = []          # (log position, contender, new may[contender])

    def note(self):
        self.max_holders = max(self.max_holders, sum(1 for x in self.h if x > 0))
        self.max_permits = max(self.max_permits, sum(self.h))
        self.max_inside = max(self.max_inside, sum(self.inside))


def make_caches(variant, n, d, shards):
    kw = dict(timeout=0, eviction_policy='none')
    if variant == 'own':
        return [diskcache.Cache(d, **kw) for _ in range(n)]
    if variant == 'shared':
        c = diskcache.Cache(d, **kw)
        return [c] * n
    if variant == 'fanout':
        c = diskcache.FanoutCache(d, shards=shards, **kw)
        return [c] * n
    if variant == 'fanout-own':
        return [diskcache.FanoutCache(d, shards=shards, **kw) for _ in range(n)]
    raise ValueError(variant)


def warm(c):
    if isinstance(c, diskcache.FanoutCache):
        return lambda: [sh._con for sh in c._shards]
    return lambda: c._con


def shard_info(c, key):
    if isinstance(c, diskcache.FanoutCache):
        return c._count, c._hash(key) % c._count
    return 1, 0


def make_recipe(kind, cache, value, key=KEY):
    if kind == 'lock':
        return diskcache.Lock(cache, key)
    if kind == 'rlock':
        return diskcache.RLock(cache, key)
    if value == 1:
        return diskcache.BoundedSemaphore(cache, key)      # every argument at its default
    return diskcache.BoundedSemaphore(cache, key, value=value)


def factory(kind, value):
    if kind == 'lock':
        return diskcache.Lock
    if kind == 'rlock':
        return diskcache.RLock
    return lambda cache, key, expire=None, tag=None: diskcache.BoundedSemaphore(cache, key, value=value, expire=expire, tag=tag)


def execute(case, d, max_steps=6000):
    """Run one case.  Returns dict with results, log, witness, records."""
    kind, value, progs = case['kind'], case.get('value', 1), case['progs']
    n = len(progs)
    clock = instr.Clock(1000.0)
    out = {}
    with instr.Installed(clock):
        caches = make_caches(case['variant'], n, d, case.get('shards', 1))
        wit = Witness(n)
        s = sched.Scheduler(clock, max_steps=max_steps)
        ids = [None] * n

        def mark(i, delta):
            wit.may[i] += delta
            wit.timeline.append((len(s.log), i, wit.may[i]))

        def prog(i):
            def p():
                ids[i] = '{}-{}'.format(os.getpid(), threading.get_ident())
                lk = make_recipe(kind, caches[i], value)

                @diskcache.barrier(caches[i], factory(kind, value), name=KEY)
                def wrapped():
                    wit.h[i] += 1
                    wit.inside[i] += 1
                    wit.note()
                    clock.sleep(WORK)
                    wit.inside[i] -= 1
                    wit.h[i] -= 1
                    return 'ran'
                rec = []
                for op in progs[i]:
                    e0 = s.nevents[i]
                    try:
                        if op == 'A':
                            mark(i, +1)
                            lk.acquire()
                            wit.h[i] += 1
                            wit.note()
                            res = 'ok'
                        elif op == 'R':
                            dec = wit.h[i] > 0
                            if dec:
                                wit.h[i] -= 1
                            try:
                                lk.release()
                                res = 'ok'
                                mark(i, -1)
                            except AssertionError:
                                res = 'refused'
                                if dec:
                                    wit.h[i] += 1
                        elif op == 'W':
                            clock.sleep(WORK)
                            res = 'ok'
                        elif op == 'P':
                            res = bool(lk.locked())
                        elif op == 'B':
                            mark(i, +1)
                            try:
                                res = wrapped()
                            except AssertionError:
                                res = 'refused'     # the release in the lock's __exit__ was refused
                            mark(i, -1)
                        else:
                            raise ValueError(op)
                    except AssertionError:
                        raise
                    rec.append([op, e0, s.nevents[i], res])
                return rec
            return p
        r = s.run([prog(i) for i in range(n)], case['schedule'], warmups=[warm(c) for c in caches])
        out['overflow'] = r['overflow']
        out['errors'] = [None if e is None else repr(e) for e in r['errors']]
        out['records'] = r['results']
        out['log'] = r['log']
        out['ids'] = ids
        out['kind'] = kind
        out['wit'] = wit
        out['nshards'], out['kshard'] = shard_info(caches[0], KEY)
        # final stored value, read by the harness itself
        c0 = caches[0]
        if kind == 'lock':
            out['final'] = 'held' if KEY in c0 else None
        else:
            out['final'] = c0.get(KEY, default=None)
        for c in {id(c): c for c in caches}.values():
            c.close()
    return out


# ---------------------------------------------------------------------------
# log -> atomic steps


class Shape(Exception):
    pass


def client_events(log, n):
    per = [[] for _ in range(n)]
    for gi, (cid, what, detail) in enumerate(log):
        per[cid].append((gi, what, detail))
    return per


def commit_runs(evs):
    """Maximal runs of consecutive COMMIT/ROLLBACK events -> list of [(gi, what), ...]."""
    runs, cur = [], []
    for gi, what, detail in evs:
        if what in ('sql:COMMIT', 'sql:ROLLBACK'):
            cur.append((gi, what))
        else:
            if cur:
                runs.append(cur)
                cur = []
    if cur:
        runs.append(cur)
    return runs


def lin_point(run, nshards, k):
    if len(run) == 1:
        return run[0]
    if len(run) == nshards:
        return run[nshards - 1 - k]      # FanoutCache.transact commits shards n-1 .. 0
    raise Shape('transaction group of %d COMMIT/ROLLBACK events with %d shards' % (len(run), nshards))


def atomic_steps(out, n):
    """-> sorted list of (global index, cid, event string, span_start) for the model, and attempts list."""
    per = client_events(out['log'], n)
    ns, k = out['nshards'], out['kshard']
    steps = []
    attempts = []      # (cid, first gi of the attempt, gi of its end, ok)
    for cid in range(n):
        rec = out['records'][cid]
        if rec is None:
            raise Shape('client %d produced no record (%s)' % (cid, out['errors'][cid]))
        for op, e0, e1, res in rec:
            evs = per[cid][e0:e1]
            works = [gi for gi, what, detail in evs if what == 'sleep:sleep' and detail == WORK]
            if op == 'W':
                if len(works) != 1 or len(evs) != 1:
                    raise Shape('work step with events %r' % [e[1] for e in evs])
                steps.append((works[0], cid, 'EWork'))
                continue
            if op == 'P':
                if len(evs) != 1 or evs[0][1] != 'sql:SELECT':
                    raise Shape('locked() with events %r' % [e[1] for e in evs])
                steps.append((evs[0][0], cid, 'EProbe %s' % fw.cbool(res)))
                continue
            if op == 'B':
                if len(works) != 1:
                    raise Shape('barrier call with %d work sleeps' % len(works))
                before = [e for e in evs if e[0] < works[0]]
                after = [e for e in evs if e[0] > works[0]]
            elif op == 'A':
                before, after = evs, []
            else:
                before, after = [], evs
            if op in ('A', 'B'):
                runs = commit_runs(before)
                if not runs:
                    raise Shape('acquire without a transaction')
                start = before[0][0]
                for j, run in enumerate(runs):
                    gi, what = lin_point(run, ns, k)
                    ok = j == len(runs) - 1
                    if what != 'sql:COMMIT':
                        raise Shape('acquire attempt ended by %s' % what)
                    steps.append((gi, cid, 'EAcqOk' if ok else 'EAcqFail'))
                    attempts.append((cid, start, run[-1][0], ok))
                    start = run[-1][0] + 1
            if op == 'B':
                steps.append((works[0], cid, 'EWork'))
            if op in ('R', 'B'):
                runs = commit_runs(after)
                if len(runs) != 1:
                    raise Shape('release with %d transactions' % len(runs))
                gi, what = lin_point(runs[0], ns, k)
                refused = (res == 'refused')
                # (Lock.release of an absent key: Cache.delete rolls back on its internal KeyError and returns False)
                if refused != (what == 'sql:ROLLBACK') and not (out.get('kind') == 'lock' and not refused):
                    raise Shape('release result %r but transaction ended by %s' % (res, what))
                steps.append((gi, cid, 'ERelRefused' if refused else 'ERelOk'))
    steps.sort()
    return steps, attempts


# ---------------------------------------------------------------------------
# monitor


def bound_of(case):
    return case.get('value', 1) if case['kind'] == 'sem' else 1


def monitor(case, out):
    """Returns list of (sig, description).  Uses only what the implementation did."""
    bad = []
    kind = case['kind']
    n = len(case['progs'])
    wit = out['wit']
    bound = bound_of(case)
    if out['overflow']:
        bad.append(('no-progress', 'contenders did not finish within the step budget although the scheduler is fair after the explicit schedule (a waiting acquirer never succeeded)'))
        return bad
    for i, e in enumerate(out['errors']):
        if e is not None:
            bad.append(('client-error', 'contender %d raised %s' % (i, e)))
    if bad:
        return bad
    if not case.get('disciplined', True):
        return bad          # misuse programs: correspondence only
    # a release by a contender that holds nothing: RLock must refuse it.  Lock and BoundedSemaphore cannot tell whose permit it
    # is, so an ACCEPTED one hands out what another contender holds (misuse, outside the property: correspondence only);
    # a REFUSED one must change nothing, so the bound below still applies to the run
    if kind != 'rlock':
        for i in range(n):
            depth = 0
            for op, e0, e1, res in out['records'][i]:
                if op == 'A':
                    depth += 1
                elif op == 'R' and res == 'ok':
                    if depth == 0:
                        return bad
                    depth -= 1
    if kind == 'sem':
        if wit.max_permits > bound:
            bad.append(('exclusion', 'witness counted %d simultaneous holders of a BoundedSemaphore with value %d' % (wit.max_permits, bound)))
    elif wit.max_holders > 1:
        bad.append(('exclusion', 'witness counted %d contenders inside the critical section of a %s' % (wit.max_holders, kind)))
    if wit.max_inside > bound:
        bad.append(('barrier-exclusion', '%d barrier-wrapped calls ran at once (bound %d)' % (wit.max_inside, bound)))
    # refusals
    for i in range(n):
        depth = 0
        for op, e0, e1, res in out['records'][i]:
            if op == 'A':
                depth += 1
            elif op == 'R':
                if kind == 'rlock':
                    if depth == 0 and res != 'refused':
                        bad.append(('release-not-refused', 'RLock.release by contender %d holding nothing was accepted' % i))
                    if depth > 0 and res == 'refused':
                        bad.append(('release-refused', 'RLock.release by the holder (depth %d) was refused' % depth))
                elif depth > 0 and res == 'refused':
                    bad.append(('release-refused', '%s.release by contender %d, who holds it (%d), was refused' % (kind, i, depth)))
                if res == 'ok':
                    depth = max(0, depth - 1)
    if kind == 'sem' and case.get('expect_all_refused'):
        for i in range(n):
            for op, e0, e1, res in out['records'][i]:
                if op == 'R' and res != 'refused':
                    bad.append(('release-not-refused', 'BoundedSemaphore.release with every permit free was accepted'))
    # an attempt made while nobody else can possibly hold the resource must succeed
    try:
        steps, attempts = atomic_steps(out, n)
    except Shape:
        attempts = []
    if attempts:
        tl = wit.timeline
        for cid, a, b, ok in attempts:
            if ok:
                continue
            # others' possible holds, maximised over the attempt's span
            cur = [0] * n
            worst = 0
            pos = 0
            for (L, i, v) in tl:
                if L <= a:
                    cur[i] = v
            worst = sum(cur[j] for j in range(n) if j != cid)
            for (L, i, v) in tl:
                if a < L <= b + 1:
                    cur[i] = v
                    worst = max(worst, sum(cur[j] for j in range(n) if j != cid))
            own = 0
            if kind == 'sem':
                own = max(0, cur[cid] - 1)      # permits the attempter itself already holds
            if worst + own < bound:
                bad.append(('free-attempt-failed', 'an acquire attempt of contender %d failed although at most %d of %d permits could be held' % (cid, worst + own, bound)))
                break
    return bad


# ---------------------------------------------------------------------------
# Coq terms

OPS = {'A': '[OAcq]', 'R': '[ORel]', 'W': '[OWork]', 'P': '[OProbe]', 'B': 'barrier_call'}


def coq_prog(p):
    return '(concat [%s])' % '; '.join(OPS[o] for o in p) if p else '[]'


def natlist(xs):
    return '[' + '; '.join('%d%%nat' % x for x in xs) + ']'


def model_held(out, n):
    """acquires minus accepted releases per contender, from the operation results."""
    h = []
    for i in range(n):
        x = 0
        for op, e0, e1, res in out['records'][i]:
            if op == 'A':
                x += 1
            elif op == 'R' and res == 'ok':
                x -= 1
            elif op == 'B' and res == 'refused':
                x += 1          # acquired, ran, and the release in __exit__ was refused
        h.append(x)
    return h


def coq_check(case, out, steps):
    kind = case['kind']
    n = len(case['progs'])
    progs = fw.clist([coq_prog(p) for p in case['progs']])
    schedule = natlist([cid for gi, cid, ev in steps])
    trace = fw.clist(['(%d%%nat, %s)' % (cid, ev) for gi, cid, ev in steps])
    held = fw.czlist(model_held(out, n))
    fin = out['final']
    if kind == 'lock':
        final = 'None' if fin is None else '(Some tt)'
        return 'check_lock %s %s %s %s %s' % (progs, schedule, trace, final, held)
    if kind == 'rlock':
        if fin is None:
            final = 'None'
        else:
            owner, count = fin
            o = 'None' if owner is None else '(Some %s)' % fw.cz(out['ids'].index(owner))
            final = '(Some (%s, %s))' % (o, fw.cz(count))
        return 'check_rlock %s %s %s %s %s' % (progs, schedule, trace, final, held)
    final = 'None' if fin is None else '(Some %s)' % fw.cz(fin)
    return 'check_sem %s %s %s %s %s %s' % (fw.cz(case['value']), progs, schedule, trace, final, held)


# ---------------------------------------------------------------------------
# generators


def gen_prog(rng, kind, value, cid, misuse=False):
    p = []
    for _ in range(rng.choice([1, 1, 2])):
        r = rng.random()
        if r < 0.25:
            p.append('B')
            continue
        depth = 1
        if kind == 'rlock':
            depth = rng.choice([1, 1, 2, 3])
        elif kind == 'sem' and cid == 0 and value >= 2:
            depth = rng.choice([1, 2])
        if kind == 'lock' and rng.random() < 0.3:
            p.append('P')
        p += ['A'] * depth
        p.append('W')
        if depth > 1 and rng.random() < 0.5:
            p += ['R', 'W'] + ['R'] * (depth - 1)
        else:
            p += ['R'] * depth
        if kind == 'lock' and rng.random() < 0.2:
            p.append('P')
    if kind == 'rlock' and rng.random() < 0.3:
        # releasing what is not held: must be refused
        p.insert(rng.choice([0, len(p)]), 'R')
    if kind == 'sem' and rng.random() < 0.3:
        # releasing with nothing held: refused when every permit is free (then it must change nothing); accepted when
        # another contender holds one (the monitor then leaves the run to the correspondence)
        p.insert(rng.choice([0, len(p)]), 'R')
    if misuse:
        p.insert(0, 'R')
    return p


def gen_case(rng, kind=None, variant=None, n=None, misuse=False):
    kind = kind or rng.choice(['lock', 'rlock', 'sem'])
    value = rng.choice([1, 2, 3]) if kind == 'sem' else 1
    n = n or rng.choice([2, 2, 3, 3, 4])
    variant = variant or rng.choice(['own', 'own', 'shared', 'fanout', 'fanout-own'])
    shards = rng.choice([1, 3]) if variant.startswith('fanout') else 1
    progs = [gen_prog(rng, kind, value, i, misuse and i == n - 1) for i in range(n)]
    L = rng.choice([0, 10, 30, 60, 120])
    # bursts make long stretches of one client likely (a whole transaction) as well as fine interleavings
    schedule = []
    while len(schedule) < L:
        c = rng.randrange(n)
        schedule += [c] * rng.choice([1, 1, 2, 4, 8])
    return {'kind': kind, 'value': value, 'variant': variant, 'shards': shards, 'progs': progs,
            'schedule': schedule[:L], 'disciplined': not misuse}


def enum_cases(kind, value, L, variant='own'):
    """All schedules of length L over two contenders running one acquire/work/release round."""
    progs = [['A', 'W', 'R'], ['A', 'W', 'R']]
    if kind == 'rlock':
        progs = [['A', 'A', 'W', 'R', 'R'], ['A', 'W', 'R']]
    for bits in itertools.product([0, 1], repeat=L):
        yield {'kind': kind, 'value': value, 'variant': variant, 'shards': 1, 'progs': progs,
               'schedule': list(bits), 'disciplined': True, 'enumerated': True}


# ---------------------------------------------------------------------------


def add_dis(res, v, cap=3):
    """Record a disagreement, at most `cap` per signature."""
    if sum(1 for x in res.disagreements if x.sig == v.sig) < cap:
        res.disagreements.append(v)


def public(case):
    return {k: case[k] for k in ('kind', 'value', 'variant', 'shards', 'progs', 'schedule', 'disciplined') if k in case}


def run_cases(ctx, res, cases, hist, correspond=True):
    checks, info = [], []
    overflows = 0
    for case in cases:
        if overflows >= 2:
            # stuck contenders keep spinning in the background after an overflow: stop here, the
            # violation is already recorded
            res.extra['stopped_after_overflows'] = overflows
            break
        d = ctx.scratch('c15')
        try:
            out = execute(case, d)
        finally:
            shutil.rmtree(d, ignore_errors=True)
        overflows += 1 if out['overflow'] else 0
        n = len(case['progs'])
        bad = monitor(case, out)
        for sig, desc in bad:
            res.violations.append(fw.Violation(sig, desc, dict(public(case), check='contenders')))
        hist['contenders'][n] = hist['contenders'].get(n, 0) + 1
        hist['variant'][case['variant']] = hist['variant'].get(case['variant'], 0) + 1
        hist['kind'][case['kind']] = hist['kind'].get(case['kind'], 0) + 1
        if out['overflow'] or any(out['errors']):
            res.count(public(case))
            continue
        try:
            steps, attempts = atomic_steps(out, n)
        except Shape as e:
            res.count(public(case))
            add_dis(res, fw.Violation('event-shape', 'scheduler log does not have the modelled shape: %s' % e,
                                                  dict(public(case), check='contenders'), 'correspondence'))
            continue
        contended = any(not ok for (_, _, _, ok) in attempts)
        hist['contention'] += 1 if contended else 0
        b = min(len(steps) // 5 * 5, 60)
        hist['atomic_steps'][b] = hist['atomic_steps'].get(b, 0) + 1
        res.count(public(case), nontrivial=len(steps) >= 4)
        hist['max_holders'] = max(hist['max_holders'], out['wit'].max_permits if case['kind'] == 'sem' else out['wit'].max_holders)
        if correspond:
            checks.append(coq_check(case, out, steps))
            info.append((case, [(c, e) for _, c, e in steps], out['final'], model_held(out, n), contended))
    if correspond and checks:
        bad, errors = fw.coq_mismatches('c15', IMPORTS, '', checks, chunk=250)
        res.traces_validated += len(checks) - len(bad)
        for e in errors:
            res.disagreements.append(fw.Violation('model-eval', 'model evaluation failed: ' + e[-400:], {}, 'correspondence'))
        for i in bad[:5]:
            case, steps, final, held, _ = info[i]
            res.disagreements.append(fw.Violation(
                'recipes-model', 'model/Recipes.v and the implementation disagree on outcomes/final state of a %s run' % case['kind'],
                dict(public(case), check='contenders', impl_steps=steps, impl_final=repr(final), impl_held=held), 'correspondence'))
        for case, steps, final, held, contended in info:
            if contended and len(res.samples) < 3:
                res.sample({'case': public(case), 'atomic_steps_of_implementation': ['%d:%s' % s for s in steps],
                            'final_stored': repr(final), 'held': held})


def process_soak(ctx, res, seconds=6.0):
    """Free-running processes (thorough tier, monitor only): Lock-protected read-modify-write of a file."""
    import multiprocessing as mp
    d = ctx.scratch('c15p')
    path = os.path.join(d, 'witness.txt')
    with open(path, 'w') as f:
        f.write('0')

    def worker(kind, rounds, q):
        import diskcache as dc
        c = dc.Cache(d, eviction_policy='none')
        lk = dc.Lock(c, 'PL') if kind == 'lock' else dc.RLock(c, 'PL')
        badc = 0
        for _ in range(rounds):
            with lk:
                with open(path) as f:
                    v = int(f.read() or '0')
                if v != 0:
                    badc += 1
                with open(path, 'w') as f:
                    f.write('1')
                with open(path, 'w') as f:
                    f.write('0')
        c.close()
        q.put(badc)
    total = 0
    for kind in ('lock', 'rlock'):
        q = mp.Queue()
        ps = [mp.Process(target=worker, args=(kind, 150, q)) for _ in range(3)]
        for p in ps:
            p.start()
        for p in ps:
            p.join(120)
        got = [q.get(timeout=5) for _ in ps]
        total += 450
        if any(got):
            res.violations.append(fw.Violation('exclusion', 'process soak: a process found another inside the %s critical section' % kind,
                                               {'check': 'process-soak', 'kind': kind}))
    res.extra['process_soak_critical_sections'] = total


def forked_holders(ctx, res):
    """Separate processes forked AFTER the lock object was built (the usual way a worker pool shares a
    recipe object): child A acquires and holds; child B then tries to acquire.  B reporting success while A
    still holds is a violation under every timing (B is expected to block; it is killed after a grace period,
    so a slow machine can only hide a violation, never produce one)."""
    import multiprocessing as mp
    import time as _t
    checked = 0
    for kind in ('lock', 'rlock', 'sem'):
        d = ctx.scratch('c15f')
        cache = diskcache.Cache(d, eviction_policy='none')
        obj = {'lock': lambda: diskcache.Lock(cache, 'FL'), 'rlock': lambda: diskcache.RLock(cache, 'FL'),
               'sem': lambda: diskcache.BoundedSemaphore(cache, 'FL', value=1)}[kind]()
        ctxm = mp.get_context('fork')
        a_has, a_release, b_got = ctxm.Event(), ctxm.Event(), ctxm.Event()

        def child_a():
            obj.acquire()
            a_has.set()
            a_release.wait(20)
            obj.release()
            os._exit(0)

        def child_b():
            obj.acquire()
            b_got.set()
            obj.release()
            os._exit(0)
        pa = ctxm.Process(target=child_a)
        pa.start()
        if not a_has.wait(20):
            pa.kill()
            cache.close()
            continue
        pb = ctxm.Process(target=child_b)
        pb.start()
        overlapped = b_got.wait(0.6)
        checked += 1
        if overlapped:
            res.violations.append(fw.Violation('exclusion', 'forked process B acquired the %s while forked process A was holding it (object built before the fork)' % kind,
                                               {'check': 'forked-holders', 'kind': kind}))
        a_release.set()
        pa.join(10)
        pb.join(10)
        for p_ in (pa, pb):
            if p_.is_alive():
                p_.kill()
        res.count(['forked', kind], nontrivial=True)
        cache.close()
    res.extra['forked_holder_checks'] = checked


# ---------------------------------------------------------------------------
# error paths: releases that must be refused, interleaved with ordinary acquire/release (sequential, exact reference)


class WouldBlock(Exception):
    """raised from the recipe's sleep between two acquire attempts: the attempt found the resource taken"""


class RefState:
    """What the property text says about one resource and m holders, nothing else.
    Lock: one holder or none.  RLock: owner and depth.  BoundedSemaphore(value): permits held per holder."""

    def __init__(self, kind, value, m):
        self.kind, self.bound, self.h = kind, (value if kind == 'sem' else 1), [0] * m

    def total(self):
        return sum(self.h)

    def can_acquire(self, j):
        if self.kind == 'rlock':
            return all(x == 0 for i, x in enumerate(self.h) if i != j)
        return self.total() < self.bound

    def release_kind(self, j):
        """'accept' (j holds), 'refuse' (must be refused / must change nothing), None (outside the property: a
        non-holder releasing what another contender holds, which Lock and BoundedSemaphore cannot tell apart)."""
        if self.h[j] > 0:
            return 'accept'
        if self.kind == 'rlock' or self.total() == 0:
            return 'refuse'
        return None


def gen_refusal_case(rng, n):
    kind = ['sem', 'rlock', 'lock'][n % 3]
    value = [1, 2, 3][(n // 3) % 3] if kind == 'sem' else 1
    variant = ['cache', 'fanout'][(n // 9) % 2]
    m = rng.choice([2, 3]) if kind != 'sem' else value + 1
    ref = RefState(kind, value, m)
    ops = []
    for _ in range(rng.randrange(3, 12)):
        j = rng.randrange(m)
        r = rng.random()
        refusable = [i for i in range(m) if ref.release_kind(i) == 'refuse']
        holders = [i for i in range(m) if ref.h[i] > 0]
        if r < 0.35 and refusable:
            ops.append([rng.choice(refusable), 'R'])
        elif r < 0.6 and holders:
            j = rng.choice(holders)
            ops.append([j, 'R'])
            ref.h[j] -= 1
        else:
            ops.append([j, 'A'])
            if ref.can_acquire(j):
                ref.h[j] += 1
    # count simultaneous holders: everybody tries to get in, nobody leaves
    for j in range(m):
        ops.append([j, 'A'])
    return {'check': 'refusals', 'kind': kind, 'value': value, 'variant': variant, 'shards': rng.choice([1, 2, 3]) if variant == 'fanout' else 1,
            'holders': m, 'ops': ops}


def run_refusal_case(case, d):
    """-> (problems [(sig, text, op index)], info).  Holders are threads (one each, so that RLock sees distinct owners) that
    run ONE operation at a time; an acquire that would wait is cut at its first sleep.  Decided from the outcome of each
    call and from the stored entry read before and after every refused release."""
    from concurrent.futures import ThreadPoolExecutor
    kind, value, m = case['kind'], case.get('value', 1), case['holders']
    clock = instr.Clock(1000.0)

    def on_sleep(dur):
        raise WouldBlock()
    clock.on_sleep = on_sleep
    problems, info = [], {'refused': 0, 'blocked': 0, 'acquired': 0}
    ref = RefState(kind, value, m)
    missing = object()
    with instr.Installed(clock):
        if case['variant'] == 'fanout':
            cache = diskcache.FanoutCache(d, shards=case.get('shards', 1), eviction_policy='none')
        else:
            cache = diskcache.Cache(d, eviction_policy='none')
        pools = [ThreadPoolExecutor(max_workers=1) for _ in range(m)]
        try:
            locks = [pools[j].submit(make_recipe, kind, cache, value).result() for j in range(m)]

            def stored():
                v = cache.get(KEY, default=missing)
                return 'absent' if v is missing else repr(v)
            for i, (j, op) in enumerate(case['ops']):
                if op == 'A':
                    expect = ref.can_acquire(j)
                    try:
                        pools[j].submit(locks[j].acquire).result()
                        got = True
                    except WouldBlock:
                        got = False
                    if got and not expect:
                        holders = ref.total() + 1 if kind == 'sem' else 2
                        problems.append(('refusal-sequence:exclusion', 'acquire by holder %d succeeded: %d simultaneous holders of a %s with bound %d' % (
                            j, holders, kind, ref.bound), i))
                        break
                    if expect and not got:
                        problems.append(('refusal-sequence:free-acquire-blocked', 'acquire by holder %d found the %s taken although %d of %d are held' % (
                            j, kind, ref.total(), ref.bound), i))
                        break
                    if got:
                        ref.h[j] += 1
                        info['acquired'] += 1
                    else:
                        info['blocked'] += 1
                else:
                    rk = ref.release_kind(j)
                    if rk is None:
                        continue
                    before = stored()
                    try:
                        pools[j].submit(locks[j].release).result()
                        refused = False
                    except AssertionError:
                        refused = True
                    after = stored()
                    if rk == 'accept':
                        if refused:
                            problems.append(('refusal-sequence:release-refused', 'release by holder %d of the %s it holds was refused' % (j, kind), i))
                            break
                        ref.h[j] -= 1
                    else:
                        info['refused'] += 1
                        if not refused and kind != 'lock':
                            problems.append(('refusal-sequence:release-not-refused', 'release of a %s by holder %d, who holds nothing, was accepted' % (kind, j), i))
                            break
                        if after != before and not any(p_[0] == 'refusal-sequence:state-changed' for p_ in problems):
                            # (recorded once; the run goes on so that the holders admitted afterwards are counted too)
                            problems.append(('refusal-sequence:state-changed', 'a refused release of a %s (holder %d holds nothing) changed the stored entry from %s to %s' % (
                                kind, j, before, after), i))
        finally:
            for p_ in pools:
                p_.shutdown(wait=True)
            cache.close()
    return problems, info


def refusal_sequences(ctx, res, ncases):
    tot = {'refused': 0, 'blocked': 0, 'acquired': 0}
    for n in range(ncases):
        case = gen_refusal_case(ctx.rng, n)
        d = ctx.scratch('c15s')
        try:
            problems, info = run_refusal_case(case, d)
        finally:
            shutil.rmtree(d, ignore_errors=True)
        for k in tot:
            tot[k] += info[k]
        res.count(case, nontrivial=info['refused'] > 0)
        for sig, text, i in problems:
            res.violations.append(fw.Violation(sig, text + ' (operation %d of %r on %s)' % (i, case['ops'][:i + 1], case['variant']), dict(case, failing_op=i)))
    res.extra['refusal_sequences'] = ncases
    res.extra['refusal_sequence_totals'] = tot


# ---------------------------------------------------------------------------
# hold sequences: time passes while the resource is held; holders whose recipe object or cache handle arrived by pickle
# (sequential, exact reference, virtual clock)


HOLD_TIMES = [0.5, 59.0, 61.0, 600.0, 3600.0, 86400.0, 30 * 86400.0, 400 * 86400.0]
HOLD_KEYS = ['K', 'lock-0', 'lock-1', 'lock-2', 'L', 'sem/a', 'rlock:b', 7, ('k', 1)]
HOLD_SHARDS = [1, 2, 3, 4, 5, 8, 13]
VIAS = ['same', 'same', 'pickled-recipe', 'pickled-cache']


def gen_hold_case(rng, n):
    """Holders 0..m-1 (one thread each).  Operations: [j, 'A'] acquire / [j, 'R'] release through the recipe object built
    with its default arguments, [j, 'BI'] enter a barrier-wrapped function (barrier with its default arguments) and stay
    inside, [j, 'BO'] leave it, ['T', seconds] the clock advances.  via[j]: how holder j got its recipe object / cache."""
    kind = ['sem', 'rlock', 'lock'][n % 3]
    value = [1, 2, 3][(n // 3) % 3] if kind == 'sem' else 1
    variant = ['cache', 'fanout', 'fanout'][(n // 9) % 3]
    shards = rng.choice(HOLD_SHARDS) if variant == 'fanout' else 1
    named = rng.random() < 0.7          # False: barrier derives the key from the function name; only barrier calls then
    m = rng.choice([2, 3]) if kind != 'sem' else value + 1
    vias = ['same'] + [rng.choice(VIAS) for _ in range(m - 1)]
    rng.shuffle(vias)
    ref = RefState(kind, value, m)
    parked = set()
    direct = [0] * m        # acquisitions made by 'A' (released by 'R'), per holder
    ops = []

    def attempt(j):
        op = 'A' if (named and rng.random() < 0.5) else 'BI'
        ops.append([j, op])
        if ref.can_acquire(j):
            ref.h[j] += 1
            if op == 'BI':
                parked.add(j)
            else:
                direct[j] += 1
    for _ in range(rng.randrange(3, 9)):
        r = rng.random()
        free = [j for j in range(m) if j not in parked]
        if r < 0.35 and ref.total() > 0:
            ops.append(['T', rng.choice(HOLD_TIMES)])
        elif r < 0.5 and parked:
            j = rng.choice(sorted(parked))
            ops.append([j, 'BO'])
            parked.discard(j)
            ref.h[j] -= 1
        elif r < 0.6 and any(direct[j] for j in free):
            j = rng.choice([j for j in free if direct[j]])
            ops.append([j, 'R'])
            direct[j] -= 1
            ref.h[j] -= 1
        elif free:
            attempt(rng.choice(free))
    # a long time passes while the holders stay; then everybody who is not parked inside tries to get in
    if ref.total() == 0:
        attempt(rng.randrange(m))
    ops.append(['T', rng.choice(HOLD_TIMES[2:])])
    for j in range(m):
        if j not in parked:
            attempt(j)
    # everybody leaves; then the resource must be free for the next attempt
    for j in sorted(parked):
        ops.append([j, 'BO'])
        ref.h[j] -= 1
    parked.clear()
    for j in range(m):
        while direct[j]:
            ops.append([j, 'R'])
            direct[j] -= 1
            ref.h[j] -= 1
    ops.append([rng.randrange(m), 'A' if named else 'BI'])
    return {'check': 'hold', 'kind': kind, 'value': value, 'variant': variant, 'shards': shards, 'holders': m, 'named': named,
            'key': rng.choice(HOLD_KEYS), 'via': vias, 'ops': ops}


def case_key(case):
    k = case.get('key', KEY)
    return tuple(k) if isinstance(k, list) else k      # (JSON turns the tuple key into a list)


def default_factory(kind, value):
    if kind == 'sem' and value == 1:
        return diskcache.BoundedSemaphore
    return factory(kind, value)


def run_hold_case(case, d):
    """-> (problems [(sig, text, op index)], info).  Decided from the outcome of each call against RefState: an acquire /
    barrier entry succeeds exactly when the property leaves room, whatever time has passed since the holders got in and
    however the contender's object reached it; a holder's release (leaving the barrier) is accepted."""
    import pickle
    import time as real_time
    from concurrent.futures import ThreadPoolExecutor
    kind, value, m = case['kind'], case.get('value', 1), case['holders']
    key = case_key(case)
    clock = instr.Clock(1000.0)
    fam = 'raise-sequence' if case.get('check') == 'raise' else 'hold-sequence'

    def on_sleep(dur):
        raise WouldBlock()
    clock.on_sleep = on_sleep
    problems, info = [], {'acquired': 0, 'blocked': 0, 'longest_hold': 0.0, 'pickled': 0, 'raised': 0}
    ref = RefState(kind, value, m)
    since = [None] * m          # clock value when holder j got in
    handles = []
    with instr.Installed(clock):
        if case['variant'] == 'fanout':
            cache = diskcache.FanoutCache(d, shards=case.get('shards', 1), eviction_policy='none')
        else:
            cache = diskcache.Cache(d, eviction_policy='none')
        handles.append(cache)
        pools = [ThreadPoolExecutor(max_workers=1) for _ in range(m)]
        events = [{'entered': threading.Event(), 'leave': threading.Event()} for _ in range(m)]
        parked = {}

        def travelled():
            c = pickle.loads(pickle.dumps(cache))
            handles.append(c)
            return c

        def build(j):
            via = case['via'][j]
            cj = cache if via == 'same' else travelled()
            if via == 'pickled-recipe':
                lk = pickle.loads(pickle.dumps(make_recipe(kind, cache, value, key)))
            else:
                lk = make_recipe(kind, cj, value, key)
            ev = events[j]

            def body():
                ev['entered'].set()
                if not ev['leave'].wait(60):
                    raise RuntimeError('left inside the barrier-wrapped function')
                if ev.get('raise') is not None:
                    raise ev['raise']      # ('BX': the wrapped function ends by raising)
                return 'ran'
            kw = {'name': key} if case['named'] else {}
            return lk, diskcache.barrier(cj, default_factory(kind, value), **kw)(body)
        try:
            built = [pools[j].submit(build, j).result() for j in range(m)]
            info['pickled'] = sum(1 for v in case['via'] if v != 'same')

            def how(j):
                return 'holder %d (%s)' % (j, case['via'][j])
            for i, step in enumerate(case['ops']):
                if step[0] == 'T':
                    clock.advance(step[1])
                    continue
                j, op = step[0], step[1]
                lk, wrapped = built[j]
                held_for = max([clock.now - t for t in since if t is not None] or [0.0])
                if op in ('A', 'BI'):
                    expect = ref.can_acquire(j)
                    try:
                        if op == 'A':
                            pools[j].submit(lk.acquire).result()
                            got = True
                        else:
                            events[j]['entered'].clear()
                            events[j]['leave'].clear()
                            events[j]['raise'] = None
                            fut = pools[j].submit(wrapped)
                            while not events[j]['entered'].is_set() and not fut.done():
                                real_time.sleep(0.0002)
                            got = events[j]['entered'].is_set()
                            if got:
                                parked[j] = fut
                            else:
                                fut.result()
                                raise RuntimeError('barrier-wrapped function returned without running')
                    except WouldBlock:
                        got = False
                    what = 'acquire' if op == 'A' else 'call of the barrier-wrapped function'
                    if got and not expect:
                        info['longest_hold'] = max(info['longest_hold'], held_for)
                        holders = ref.total() + 1 if kind == 'sem' else 2
                        problems.append((fam + ':exclusion', '%s by %s got in: %d simultaneous holders of a %s with bound %d; the others have been inside for %g s '
                                         '(holders by origin %r)' % (what, how(j), holders, kind, ref.bound, held_for, case['via']), i))
                        break
                    if expect and not got:
                        problems.append((fam + ':free-acquire-blocked', '%s by %s found the %s taken although %d of %d are held' % (
                            what, how(j), kind, ref.total(), ref.bound), i))
                        break
                    if got:
                        ref.h[j] += 1
                        since[j] = clock.now if since[j] is None else since[j]
                        info['acquired'] += 1
                    else:
                        info['blocked'] += 1
                        info['longest_hold'] = max(info['longest_hold'], held_for)
                else:
                    try:
                        if op == 'R':
                            pools[j].submit(lk.release).result()
                        elif op == 'BX':
                            # the wrapped function ends by raising: its caller gets that very exception, and the call is over
                            # (what it took is given back: decided by what the NEXT contenders are allowed below)
                            exc = make_exception(step[2] if len(step) > 2 else 'RuntimeError')
                            events[j]['raise'] = exc
                            events[j]['leave'].set()
                            fut = parked.pop(j)
                            try:
                                got_back = fut.result(60)
                            except AssertionError:
                                raise
                            except BaseException as e2:      # noqa: BLE001
                                if e2 is not exc:
                                    problems.append((fam + ':other-exception', 'the barrier-wrapped function called by %s raised %r; its caller got %r instead' % (
                                        how(j), exc, e2), i))
                                    break
                            else:
                                problems.append((fam + ':exception-swallowed', 'the barrier-wrapped function called by %s raised %r; its caller got the result %r '
                                                 'instead of the exception' % (how(j), exc, got_back), i))
                                break
                            info['raised'] += 1
                        else:
                            events[j]['leave'].set()
                            parked.pop(j).result(60)
                    except AssertionError as e:
                        problems.append((fam + ':release-refused', '%s of the %s by %s, who has held it for %g s, was refused: %s' % (
                            'release' if op == 'R' else 'the release on leaving the barrier-wrapped function', kind, how(j), clock.now - (since[j] or clock.now), e), i))
                        break
                    ref.h[j] -= 1
                    if ref.h[j] == 0:
                        since[j] = None
        except WouldBlock:
            raise
        except Exception as e:      # noqa: BLE001 -- any other failure of a contender is reported, not swallowed
            problems.append((fam + ':error', 'a contender raised %r' % (e,), len(case['ops'])))
        finally:
            for ev in events:
                ev['leave'].set()
            for f in parked.values():
                try:
                    f.result(60)
                except BaseException:      # noqa: BLE001
                    pass
            for p_ in pools:
                p_.shutdown(wait=True)
            for c in handles:
                c.close()
    return problems, info


def hold_sequences(ctx, res, ncases):
    tot = {'acquired': 0, 'blocked': 0, 'pickled': 0}
    longest = 0.0
    seen = {}
    for n in range(ncases):
        case = gen_hold_case(ctx.rng, n)
        d = ctx.scratch('c15h')
        try:
            problems, info = run_hold_case(case, d)
        finally:
            shutil.rmtree(d, ignore_errors=True)
        for k in tot:
            tot[k] += info[k]
        longest = max(longest, info['longest_hold'])
        res.count(case, nontrivial=info['blocked'] > 0)
        for sig, text, i in problems:
            seen[sig] = seen.get(sig, 0) + 1
            if seen[sig] <= 4:
                res.violations.append(fw.Violation(sig, text + ' (operation %d of %r on %s%s, %s)' % (
                    i, case['ops'][:i + 1], case['variant'], '[%d shards]' % case['shards'] if case['variant'] == 'fanout' else '',
                    'key %r' % (case_key(case),) if case['named'] else 'barrier key derived from the function'), dict(case, failing_op=i)))
    res.extra['hold_sequences'] = ncases
    res.extra['hold_sequence_totals'] = dict(tot, longest_hold_seconds_with_a_blocked_contender=longest)


# ---------------------------------------------------------------------------
# raise sequences: barrier-wrapped functions that END BY RAISING.  The call is over, so what it took is free again
# (same sequential reference and runner as the hold sequences; operation [j, 'BX', name]: the function holder j is parked in raises)


class WrappedAbort(BaseException):
    """an exception of the wrapped function that is not an Exception (like KeyboardInterrupt / SystemExit)"""


class WrappedError(Exception):
    def __init__(self, *a):
        Exception.__init__(self, *a)
        self.payload = {'attempt': 1}


RAISED = {'RuntimeError': lambda: RuntimeError('job failed'), 'KeyError': lambda: KeyError('missing'), 'ValueError': lambda: ValueError(3),
          'OSError': lambda: OSError(5, 'i/o'), 'StopIteration': lambda: StopIteration(), 'Timeout': lambda: diskcache.Timeout('busy'),
          'WrappedError': lambda: WrappedError('own exception class', 7), 'WrappedAbort': lambda: WrappedAbort('not an Exception'),
          'ZeroDivisionError': lambda: ZeroDivisionError('division by zero')}


def make_exception(name):
    return RAISED[name]()


def gen_raise_case(rng, n):
    """Like gen_hold_case, with wrapped functions that end by raising ('BX') among those that return ('BO'); the closing phase
    fills the resource through barrier calls, EVERY one of them raises, and then every contender tries to get in."""
    kind = ['sem', 'rlock', 'lock'][n % 3]
    value = [1, 2, 3][(n // 3) % 3] if kind == 'sem' else 1
    variant = ['cache', 'fanout'][(n // 9) % 2]
    shards = rng.choice(HOLD_SHARDS) if variant == 'fanout' else 1
    named = rng.random() < 0.7
    m = rng.choice([2, 3]) if kind != 'sem' else value + 1
    vias = ['same'] + [rng.choice(['same', 'same', 'same', 'pickled-recipe', 'pickled-cache']) for _ in range(m - 1)]
    rng.shuffle(vias)
    names = sorted(RAISED)
    ref = RefState(kind, value, m)
    parked = set()
    direct = [0] * m
    ops = []

    def attempt(j, through_barrier=False):
        op = 'A' if (named and not through_barrier and rng.random() < 0.4) else 'BI'
        ops.append([j, op])
        if ref.can_acquire(j):
            ref.h[j] += 1
            if op == 'BI':
                parked.add(j)
            else:
                direct[j] += 1

    def leave(j, raising):
        ops.append([j, 'BX', rng.choice(names)] if raising else [j, 'BO'])
        parked.discard(j)
        ref.h[j] -= 1
    for _ in range(rng.randrange(0, 7)):
        r = rng.random()
        free = [j for j in range(m) if j not in parked]
        if r < 0.1 and ref.total() > 0:
            ops.append(['T', rng.choice(HOLD_TIMES[:4])])
        elif r < 0.5 and parked:
            leave(rng.choice(sorted(parked)), rng.random() < 0.7)
        elif r < 0.6 and any(direct[j] for j in free):
            j = rng.choice([j for j in free if direct[j]])
            ops.append([j, 'R'])
            direct[j] -= 1
            ref.h[j] -= 1
        elif free:
            attempt(rng.choice(free))
    # closing phase: everybody leaves; the resource is filled through the barrier; every wrapped call raises
    for j in sorted(parked):
        leave(j, rng.random() < 0.7)
    for j in range(m):
        while direct[j]:
            ops.append([j, 'R'])
            direct[j] -= 1
            ref.h[j] -= 1
    order = list(range(m))
    rng.shuffle(order)
    for j in order:
        if j not in parked:
            attempt(j, through_barrier=True)
    for j in sorted(parked, key=lambda _: rng.random()):
        leave(j, True)
    # ... and now nobody is inside: the next callers get in at once, up to the bound
    rng.shuffle(order)
    for j in order:
        if j not in parked:
            attempt(j)
    return {'check': 'raise', 'kind': kind, 'value': value, 'variant': variant, 'shards': shards, 'holders': m, 'named': named,
            'key': rng.choice(HOLD_KEYS), 'via': vias, 'ops': ops}


def raise_sequences(ctx, res, ncases):
    tot = {'acquired': 0, 'blocked': 0, 'raised': 0}
    seen = {}
    for n in range(ncases):
        case = gen_raise_case(ctx.rng, n)
        d = ctx.scratch('c15x')
        try:
            problems, info = run_hold_case(case, d)
        finally:
            shutil.rmtree(d, ignore_errors=True)
        for k in tot:
            tot[k] += info[k]
        res.count(case, nontrivial=info['raised'] > 0)
        for sig, text, i in problems:
            seen[sig] = seen.get(sig, 0) + 1
            if seen[sig] <= 4:
                res.violations.append(fw.Violation(sig, text + ' (operation %d of %r on %s%s, %s; BX = the barrier-wrapped function the holder is in ends by raising)' % (
                    i, case['ops'][:i + 1], case['variant'], '[%d shards]' % case['shards'] if case['variant'] == 'fanout' else '',
                    'key %r' % (case_key(case),) if case['named'] else 'barrier key derived from the function'), dict(case, failing_op=i)))
    res.extra['raise_sequences'] = ncases
    res.extra['raise_sequence_totals'] = tot


# ---------------------------------------------------------------------------
# a recipe object that reaches ANOTHER PROCESS by pickling excludes the original holder (and the other way round)


class _RaisingSleep:
    """time module stand-in for a contender that must not wait: the first sleep between two attempts raises."""

    def sleep(self, d):
        raise WouldBlock()

    def __getattr__(self, name):
        import time as real_time
        return getattr(real_time, name)


def _pickled_child(blob, hold, to_parent, from_parent):
    """Runs in a forked process.  exit code 0: found the resource taken, 1: acquired, 2: error."""
    import pickle
    code = 2
    try:
        instr.recipes.time = _RaisingSleep()
        obj = pickle.loads(blob)
        try:
            obj.acquire()
            code = 1
        except WouldBlock:
            code = 0
        if hold:
            os.write(to_parent, b'1' if code == 1 else b'0')
            os.read(from_parent, 1)
        if code == 1:
            obj.release()
    except BaseException:      # noqa: BLE001
        code = 2
    os._exit(code)


def try_acquire_now(obj):
    clock = instr.Clock(1000.0)

    def on_sleep(dur):
        raise WouldBlock()
    clock.on_sleep = on_sleep
    saved = instr.recipes.time
    instr.recipes.time = clock
    try:
        obj.acquire()
        return True
    except WouldBlock:
        return False
    finally:
        instr.recipes.time = saved


def run_pickled_process_case(case, d):
    """-> problems [(sig, text)].  direction 'parent-holds': this process holds through the original object, a forked child
    unpickles the object and tries; 'child-holds': the child holds through the unpickled object, this process tries through
    the original.  In both, the second contender must find the resource taken, and must get it once it is released."""
    import multiprocessing as mp
    import pickle
    kind, value, key = case['kind'], case.get('value', 1), case_key(case)
    mpc = mp.get_context('fork')
    problems = []
    if case['variant'] == 'fanout':
        cache = diskcache.FanoutCache(d, shards=case['shards'], eviction_policy='none')
    else:
        cache = diskcache.Cache(d, eviction_policy='none')
    try:
        objs = [make_recipe(kind, cache, value, key) for _ in range(value)]      # a semaphore: all but one permit are taken here
        blob = pickle.dumps(objs[0])

        def child(hold):
            r1, w1 = os.pipe()
            r2, w2 = os.pipe()
            p = mpc.Process(target=_pickled_child, args=(blob, hold, w1, r2))
            p.start()
            return p, r1, w2, [r1, w1, r2, w2]

        def finish(p, fds):
            p.join(30)
            if p.is_alive():
                p.kill()
                p.join(5)
            for fd in fds:
                try:
                    os.close(fd)
                except OSError:
                    pass
            return p.exitcode
        what = '%s(%s, %r%s)' % ({'lock': 'Lock', 'rlock': 'RLock', 'sem': 'BoundedSemaphore'}[kind],
                                 'FanoutCache[%d shards]' % case['shards'] if case['variant'] == 'fanout' else 'Cache', key,
                                 ', value=%d' % value if kind == 'sem' else '')
        for o in objs[1:]:
            o.acquire()
        if case['direction'] == 'parent-holds':
            objs[0].acquire()
            p, r, w, fds = child(False)
            code = finish(p, fds)
            if code == 1:
                problems.append(('pickled-process:exclusion', 'a process that received %s by pickle acquired it while the sending process was holding it' % what))
            elif code != 0:
                problems.append(('pickled-process:error', 'a process that received %s by pickle failed (exit code %r)' % (what, code)))
            objs[0].release()
            p, r, w, fds = child(False)
            code = finish(p, fds)
            if code == 0:
                problems.append(('pickled-process:free-acquire-blocked', 'a process that received %s by pickle found it taken after the holder released it' % what))
            elif code != 1:
                problems.append(('pickled-process:error', 'a process that received %s by pickle failed (exit code %r)' % (what, code)))
        else:
            p, r, w, fds = child(True)
            got = os.read(r, 1)
            if got != b'1':
                problems.append(('pickled-process:free-acquire-blocked' if got == b'0' else 'pickled-process:error',
                                 'a process that received %s by pickle could not acquire it although it was free' % what))
            else:
                if try_acquire_now(objs[0]):
                    problems.append(('pickled-process:exclusion', 'the sending process acquired %s while the process that received it by pickle was holding it' % what))
                    objs[0].release()
            os.write(w, b'x')
            code = finish(p, fds)
            if got == b'1' and code != 1:
                problems.append(('pickled-process:error', 'the process holding %s failed while releasing (exit code %r)' % (what, code)))
            if not problems:
                if not try_acquire_now(objs[0]):
                    problems.append(('pickled-process:free-acquire-blocked', 'the sending process found %s taken after the receiving process released it' % what))
                else:
                    objs[0].release()
    finally:
        cache.close()
    return problems


def pickled_process_holders(ctx, res, ncases):
    checked = 0
    seen = {}
    for n in range(ncases):
        kind = ['lock', 'rlock', 'sem'][n % 3]
        shards = HOLD_SHARDS[(n // 3) % len(HOLD_SHARDS)]
        case = {'check': 'pickled-process', 'kind': kind, 'value': ctx.rng.choice([1, 2]) if kind == 'sem' else 1,
                'variant': 'cache' if shards == 1 and n % 2 else 'fanout', 'shards': shards, 'key': ctx.rng.choice(HOLD_KEYS),
                'direction': ['parent-holds', 'child-holds'][(n // 3 + n) % 2]}
        d = ctx.scratch('c15pp')
        try:
            problems = run_pickled_process_case(case, d)
        finally:
            shutil.rmtree(d, ignore_errors=True)
        checked += 1
        res.count(case, nontrivial=True)
        for sig, text in problems:
            seen[sig] = seen.get(sig, 0) + 1
            if seen[sig] <= 4:
                res.violations.append(fw.Violation(sig, text + ' (%s)' % case['direction'], case))
    res.extra['pickled_process_checks'] = checked


# ---------------------------------------------------------------------------
# contenders that are SEPARATELY STARTED interpreters (nothing inherited by fork, nothing sent by pickle: each process opens
# the directory and builds its own recipe object from the key, with its own PYTHONHASHSEED)


FRESH_CHILD = r"""
import ast, json, os, sys, threading
import time as _real_time
sys.path.insert(0, sys.argv[1])
import diskcache
import diskcache.recipes as _rec
from diskcache import core as _core
assert os.path.realpath(os.path.dirname(os.path.dirname(_core.__file__))) == os.path.realpath(sys.argv[1]), _core.__file__
job = json.loads(sys.argv[2])
WAIT = job['wait']


class WouldBlock(Exception):
    pass


class _Time:
    # the recipes sleep between two attempts: an attempt that found the resource taken ends here instead of waiting
    def sleep(self, d):
        raise WouldBlock()

    def __getattr__(self, name):
        return getattr(_real_time, name)


_rec.time = _Time()


def say(obj):
    sys.stdout.write(json.dumps(obj) + '\n')
    sys.stdout.flush()


if job['variant'] == 'fanout':
    cache = diskcache.FanoutCache(job['directory'], shards=job['shards'], eviction_policy='none')
else:
    cache = diskcache.Cache(job['directory'], eviction_policy='none')


def key_of(item):
    return ast.literal_eval(item['key'])


def factory(item):
    kind, value = item['kind'], item.get('value', 1)
    if kind == 'lock':
        return diskcache.Lock
    if kind == 'rlock':
        return diskcache.RLock
    if value == 1:
        return diskcache.BoundedSemaphore
    return lambda c, k, expire=None, tag=None: diskcache.BoundedSemaphore(c, k, value=value, expire=expire, tag=tag)


def build(item, body):
    # -> (recipe object, None) or (None, barrier-wrapped function)
    if item.get('barrier'):
        if item.get('named', True):
            return None, diskcache.barrier(cache, factory(item), name=key_of(item))(body)
        body.__name__ = body.__qualname__ = item['func']
        return None, diskcache.barrier(cache, factory(item))(body)
    if item['kind'] == 'sem' and item.get('value', 1) != 1:
        return diskcache.BoundedSemaphore(cache, key_of(item), value=item['value']), None
    return factory(item)(cache, key_of(item)), None


def hold():
    leave = threading.Event()
    holders = []      # (item index, thread, state)

    def holder(lk, wrapped, n, st):
        got = 0
        try:
            try:
                if wrapped is not None:
                    wrapped(st)
                else:
                    for _ in range(n):
                        lk.acquire()
                        got += 1
                    st['status'] = 'held'
                    st['ready'].set()
                    leave.wait()          # until the parent says so (or goes away: end of file on stdin)
            except WouldBlock:
                st['status'] = 'blocked'
                return
            finally:
                if lk is not None:
                    for _ in range(got):
                        lk.release()
            st['after'] = 'released'
        except AssertionError as e:
            st['after' if st['status'] == 'held' else 'status'] = 'refused: %s' % (e,)
        except BaseException as e:
            st['after' if st['status'] == 'held' else 'status'] = 'error: %r' % (e,)
        finally:
            st['ready'].set()

    for idx, item in enumerate(job['items']):
        if idx in job.get('skip', []):
            continue

        def body(st):
            st['status'] = 'held'
            st['ready'].set()
            leave.wait()
            return 'ran'
        lk, wrapped = build(item, body)
        groups = [1] * item['hold'] if wrapped is not None else [item['hold']]
        for n in groups:
            st = {'status': 'waiting', 'after': None, 'ready': threading.Event()}
            t = threading.Thread(target=holder, args=(lk, wrapped, n, st), daemon=True)
            t.start()
            st['ready'].wait(WAIT)          # one at a time: the holders of one process do not contend with each other
            holders.append((idx, t, st))
    say({'held': [[idx, st['status']] for idx, t, st in holders]})
    sys.stdin.readline()
    leave.set()
    for idx, t, st in holders:
        t.join(WAIT)
    say({'released': [[idx, st['after']] for idx, t, st in holders if st['status'] == 'held']})


def probe_item(item, tries, out):
    def body():
        return 'ran'
    lk, wrapped = build(item, body)
    if lk is not None and item['kind'] == 'lock':
        out['locked'] = bool(lk.locked())
    got = 0
    try:
        try:
            for _ in range(tries):
                if wrapped is not None:
                    wrapped()
                else:
                    lk.acquire()
                got += 1
                out['got'] = got
            out['end'] = 'all'
        except WouldBlock:
            out['end'] = 'blocked'
        finally:
            if lk is not None:
                for _ in range(got):
                    lk.release()
    except AssertionError as e:
        out['end'] = 'refused: %s' % (e,)
    except BaseException as e:
        out['end'] = 'error: %r' % (e,)


def probe():
    for phase in (0, 1):
        skip = json.loads(sys.stdin.readline() or '{}').get('skip', [])
        report = []
        for idx, item in enumerate(job['items']):
            if idx in skip:
                continue
            out = {'got': 0, 'end': 'waiting'}
            t = threading.Thread(target=probe_item, args=(item, item['tries'][phase], out), daemon=True)
            t.start()
            t.join(WAIT)
            report.append([idx, dict(out)])
        say({'phase': phase, 'report': report})


try:
    hold() if job['role'] == 'hold' else probe()
    sys.stdout.flush()
    try:
        cache.close()
    except BaseException:
        pass
finally:
    os._exit(0)
"""

FRESH_WAIT = 120.0      # wall-clock bound on anything a child or the parent waits for; reaching it is INCONCLUSIVE, never a violation
FRESH_SHARDS = [2, 3, 8]
FRESH_WORDS = ['resource', 'report', 'jobs', 'lock', 'sem/a', 'rlock:b', 'K', 'L', 'schlüssel', 'queue worker', 'user:42:session', 'x' * 70]
FRESH_OTHER_KEYS = [7, -3, 2.5, b'bin-key', ('k', 1), ('job', 'lock', 3)]


class _ChildLines:
    """Lines of a child's stdout with a wall-clock deadline.  line() -> text, '' at end of file, None when the deadline passed."""

    def __init__(self, f):
        self.fd = f.fileno()
        self.buf = b''

    def line(self, timeout):
        import select
        import time as real_time
        end = real_time.monotonic() + timeout
        while b'\n' not in self.buf:
            left = end - real_time.monotonic()
            if left <= 0:
                return None
            r, _, _ = select.select([self.fd], [], [], left)
            if not r:
                return None
            chunk = os.read(self.fd, 65536)
            if not chunk:
                return ''
            self.buf += chunk
        line, self.buf = self.buf.split(b'\n', 1)
        return line.decode('utf-8')


def fresh_bound(item):
    return item.get('value', 1) if item['kind'] == 'sem' else 1


def fresh_free(item):
    """what the holder leaves to others (an RLock held at any depth leaves nothing)"""
    if item['kind'] == 'rlock':
        return 0 if item['hold'] else 1
    return fresh_bound(item) - item['hold']


def fresh_tries(item):
    """[attempts of the second process while the first holds, attempts after the release]."""
    free = fresh_free(item)
    if item.get('barrier'):
        return [1, 1]
    if item['kind'] == 'sem':
        return [free + 1, item['value']]
    return [1, 2 if item['kind'] == 'rlock' else 1]


def fresh_what(case, item):
    name = {'lock': 'Lock', 'rlock': 'RLock', 'sem': 'BoundedSemaphore'}[item['kind']]
    where = 'FanoutCache[%d shards]' % case['shards'] if case['variant'] == 'fanout' else 'Cache'
    extra = ', value=%d' % item['value'] if item['kind'] == 'sem' else ''
    if item.get('barrier'):
        return 'barrier(%s, %s%s%s)' % (where, name, extra, ', name=%s' % item['key'] if item.get('named', True) else ' on function %s' % item['func'])
    return '%s(%s, %s%s)' % (name, where, item['key'], extra)


def start_fresh(role, seed, case, cdir, errpath, skip=()):
    import json
    import subprocess
    env = dict(os.environ)
    env['PYTHONHASHSEED'] = str(seed)
    env['PYTHONPATH'] = fw.REPO
    env['PYTHONDONTWRITEBYTECODE'] = '1'
    job = {'role': role, 'variant': case['variant'], 'shards': case.get('shards', 1), 'directory': cdir, 'wait': FRESH_WAIT, 'skip': sorted(skip),
           'items': [dict(it, tries=fresh_tries(it)) for it in case['items']]}
    err = open(errpath, 'wb')
    try:
        return subprocess.Popen([fw.PY, '-c', FRESH_CHILD, fw.REPO, json.dumps(job)], stdin=subprocess.PIPE, stdout=subprocess.PIPE,
                                stderr=err, env=env, bufsize=0)
    finally:
        err.close()


class FreshInconclusive(Exception):
    """a child did not answer within FRESH_WAIT seconds (nothing is concluded from that)"""


def run_fresh_process_case(case, d):
    """-> (problems [(sig, text, item index)], info).  Process A (fresh interpreter, PYTHONHASHSEED seeds[0]) opens the directory, takes
    item['hold'] permits of every item (parks that many threads inside the barrier-wrapped function) and keeps them until told.
    Process B (fresh interpreter, seeds[1]) opens the same directory and, per item, asks Lock.locked() and makes attempts that end at
    the recipe's first sleep instead of waiting: it must get exactly the permits A left (none for Lock / RLock / a fully taken
    semaphore).  A stays inside until B's report has arrived, so whatever B got it got while A was holding: no timing is involved.
    Then A releases and B must find everything free.  All expectations follow from bound - held, nothing else."""
    import json
    problems, info = [], {'inconclusive': 0, 'blocked': 0, 'acquired': 0, 'items': 0}
    cdir = os.path.join(d, 'cache')
    items = case['items']
    seeds = case['seeds']
    procs = []

    def tail(name):
        try:
            with open(os.path.join(d, name), 'rb') as f:
                return f.read()[-600:].decode('utf-8', 'replace')
        except OSError:
            return ''

    def answer(p, lines, name):
        line = lines.line(FRESH_WAIT + 30)
        if line is None:
            raise FreshInconclusive(name)
        if line == '':
            p.wait()
            raise RuntimeError('the interpreter of process %s ended (exit code %r): %s' % (name, p.returncode, tail(name + '.err')))
        return json.loads(line)

    def who(j):
        return 'process %s (fresh interpreter, PYTHONHASHSEED=%s)' % ('AB'[j], seeds[j])
    try:
        try:
            pa = start_fresh('hold', seeds[0], case, cdir, os.path.join(d, 'A.err'))
            procs.append(pa)
            la = _ChildLines(pa.stdout)
            held = answer(pa, la, 'A')['held']
            bad_items = set()
            for idx, status in held:
                if status == 'held':
                    continue
                bad_items.add(idx)
                what = fresh_what(case, items[idx])
                if status == 'blocked':
                    problems.append(('fresh-process:free-acquire-blocked', '%s found %s taken in a new directory (taking %d of %d permits)' % (
                        who(0), what, items[idx]['hold'], fresh_bound(items[idx])), idx))
                elif status == 'waiting':
                    info['inconclusive'] += 1
                else:
                    problems.append(('fresh-process:error', '%s failed on %s: %s' % (who(0), what, status), idx))
            pb = start_fresh('probe', seeds[1], case, cdir, os.path.join(d, 'B.err'))
            procs.append(pb)
            lb = _ChildLines(pb.stdout)
            pb.stdin.write((json.dumps({'skip': sorted(bad_items)}) + '\n').encode())
            rep0 = answer(pb, lb, 'B')['report']
            # A is still inside: it leaves only now
            for idx, out in rep0:
                it = items[idx]
                what = fresh_what(case, it)
                free = fresh_free(it)
                expect = min(free, 1) if it.get('barrier') else free
                info['items'] += 1
                info['acquired'] += out['got']
                if out['end'] == 'waiting':
                    info['inconclusive'] += 1
                    bad_items.add(idx)      # its thread is still spinning: nothing more is concluded about this item
                    if out['got'] <= expect:
                        continue
                if out['got'] > expect:
                    problems.append(('fresh-process:exclusion', '%s %s %s while %s was holding it (%s): %d simultaneous holders, bound %d' % (
                        who(1), 'entered the function under' if it.get('barrier') else 'acquired', what, who(0),
                        'depth %d' % it['hold'] if it['kind'] == 'rlock' else '%d of %d permit(s)' % (it['hold'], fresh_bound(it)),
                        (1 if it['kind'] == 'rlock' else it['hold']) + out['got'], fresh_bound(it)), idx))
                elif out['end'] == 'blocked':
                    info['blocked'] += 1
                    if out['got'] < expect:
                        problems.append(('fresh-process:free-acquire-blocked', '%s got %d permit(s) of %s although %s holds only %d of %d' % (
                            who(1), out['got'], what, who(0), it['hold'], fresh_bound(it)), idx))
                elif out['end'] != 'all':
                    problems.append(('fresh-process:release-refused' if out['end'].startswith('refused') else 'fresh-process:error',
                                     '%s failed on %s while %s was holding it: %s' % (who(1), what, who(0), out['end']), idx))
                if 'locked' in out and out['locked'] is not True and it['hold'] >= 1:
                    problems.append(('fresh-process:locked-false-while-held', '%s: locked() of %s is %r while %s is holding it' % (who(1), what, out['locked'], who(0)), idx))
            pa.stdin.write(b'go\n')
            for idx, after in answer(pa, la, 'A')['released']:
                if after == 'released':
                    continue
                what = fresh_what(case, items[idx])
                if after is None:
                    info['inconclusive'] += 1
                    bad_items.add(idx)
                elif after.startswith('refused'):
                    bad_items.add(idx)
                    problems.append(('fresh-process:release-refused', 'the release of %s by its holder %s was refused (%s) after %s had probed it' % (
                        what, who(0), after, who(1)), idx))
                else:
                    bad_items.add(idx)
                    problems.append(('fresh-process:error', '%s failed releasing %s: %s' % (who(0), what, after), idx))
            pb.stdin.write((json.dumps({'skip': sorted(bad_items)}) + '\n').encode())
            for idx, out in answer(pb, lb, 'B')['report']:
                it = items[idx]
                what = fresh_what(case, it)
                tries = fresh_tries(it)[1]
                if out['end'] == 'waiting':
                    info['inconclusive'] += 1
                elif out['end'] == 'blocked' or (out['end'] == 'all' and out['got'] < tries):
                    problems.append(('fresh-process:no-progress', '%s got only %d of %d acquisitions of %s after %s had released everything' % (
                        who(1), out['got'], tries, what, who(0)), idx))
                elif out['end'] != 'all':
                    problems.append(('fresh-process:release-refused' if out['end'].startswith('refused') else 'fresh-process:error',
                                     '%s failed on %s after %s had released it: %s' % (who(1), what, who(0), out['end']), idx))
                if out.get('locked') is True:
                    problems.append(('fresh-process:locked-true-after-release', '%s: locked() of %s is True after %s released it' % (who(1), what, who(0)), idx))
            for p in procs:
                try:
                    p.wait(30)
                except Exception:      # noqa: BLE001
                    pass
        except FreshInconclusive:
            info['inconclusive'] += 1
        except (RuntimeError, ValueError, OSError) as e:
            problems.append(('fresh-process:error', 'separately started interpreters on %s[%d]: %r %s %s' % (
                case['variant'], case.get('shards', 1), e, tail('A.err'), tail('B.err')), None))
    finally:
        for p in procs:
            if p.poll() is None:
                p.kill()
            for f in (p.stdin, p.stdout):
                try:
                    f.close()
                except OSError:
                    pass
            try:
                p.wait(10)
            except Exception:      # noqa: BLE001
                pass
    return problems, info


def gen_fresh_items(rng):
    """One batch for a pair of processes: every recipe, semaphores fully and partly taken, barrier with each factory (key given or
    derived from the function), on distinct keys (mostly text, the usual case and what barrier derives)."""
    shapes = [{'kind': 'lock', 'hold': 1} for _ in range(3)]
    shapes += [{'kind': 'rlock', 'hold': 1}, {'kind': 'rlock', 'hold': 2}]
    shapes += [{'kind': 'sem', 'value': v, 'hold': v} for v in (1, 2, 3)]
    shapes += [{'kind': 'sem', 'value': 2, 'hold': 1}, {'kind': 'sem', 'value': 3, 'hold': rng.choice([1, 2])}]
    shapes += [{'kind': 'lock', 'hold': 1, 'barrier': True, 'named': True}, {'kind': 'lock', 'hold': 1, 'barrier': True, 'named': False},
               {'kind': 'rlock', 'hold': 1, 'barrier': True, 'named': rng.random() < 0.5}]
    v = rng.choice([1, 2, 3])
    shapes += [{'kind': 'sem', 'value': v, 'hold': v, 'barrier': True, 'named': rng.random() < 0.5},
               {'kind': 'sem', 'value': 2, 'hold': 1, 'barrier': True, 'named': True}]
    rng.shuffle(shapes)
    used = set()
    others = rng.sample(range(len(shapes)), 2)
    for i, it in enumerate(shapes):
        it.setdefault('value', 1)
        while True:
            if i in others and not (it.get('barrier') and not it.get('named', True)):
                k = rng.choice(FRESH_OTHER_KEYS)
            else:
                w = rng.choice(FRESH_WORDS)
                k = w if rng.random() < 0.2 else '%s-%d' % (w, rng.randrange(1000))
            if repr(k) not in used:
                break
        used.add(repr(k))
        it['key'] = repr(k)
        if it.get('barrier') and not it.get('named', True):
            it['func'] = 'work_%d' % i
            it['key'] = repr('__main__.' + it['func'])      # (for the report only: barrier derives it from the function)
    return shapes


def fresh_process_holders(ctx, res):
    rng = ctx.rng

    def seedpair(equal=False):
        a = rng.choice([0, rng.randrange(1, 2 ** 32)])
        b = a
        while not equal and b == a:
            b = rng.randrange(1, 2 ** 32)
        return [a, b]
    configs = [('fanout', n, seedpair()) for n in FRESH_SHARDS]
    configs.append(('fanout', rng.choice([4, 5, 13]), seedpair()))
    configs.append(('cache', 1, seedpair()))
    # controls: the same hash seed on both sides, one directory / several
    configs.append(('cache', 1, seedpair(equal=True)))
    configs.append(('fanout', rng.choice(FRESH_SHARDS), seedpair(equal=True)))
    seen = {}
    tot = {'inconclusive': 0, 'blocked': 0, 'acquired': 0, 'items': 0}
    import time as real_time
    t0 = real_time.monotonic()
    for variant, shards, seeds in configs:
        case = {'check': 'fresh-process', 'variant': variant, 'shards': shards, 'seeds': seeds, 'items': gen_fresh_items(rng)}
        d = ctx.scratch('c15x')
        try:
            problems, info = run_fresh_process_case(case, d)
        finally:
            shutil.rmtree(d, ignore_errors=True)
        for k in tot:
            tot[k] += info[k]
        for it in case['items']:
            res.count(['fresh-process', variant, shards, seeds, it], nontrivial=True)
        for sig, text, idx in problems:
            seen[sig] = seen.get(sig, 0) + 1
            if seen[sig] <= 4:
                one = dict(case, items=[case['items'][idx]]) if idx is not None else case
                res.violations.append(fw.Violation(sig, text, one))
    res.extra['fresh_process_configurations'] = [[v, n, s] for v, n, s in configs]
    res.extra['fresh_process_totals'] = tot
    res.extra['fresh_process_seconds'] = round(real_time.monotonic() - t0, 1)


def base_hist():
    return {'contenders': {}, 'variant': {}, 'kind': {}, 'atomic_steps': {}, 'contention': 0, 'max_holders': 0}


def special_cases():
    cs = []
    for v in (1, 2, 3):
        cs.append({'kind': 'sem', 'value': v, 'variant': 'own', 'shards': 1, 'progs': [['R'], ['R', 'A', 'W', 'R', 'R']],
                   'schedule': [0, 0, 0, 1], 'disciplined': False})
        cs.append({'kind': 'sem', 'value': v, 'variant': 'own', 'shards': 1, 'progs': [['R'], ['R']],
                   'schedule': [], 'disciplined': True, 'expect_all_refused': True})
    # Lock.release by a non-holder (model and implementation must agree that it is NOT refused)
    cs.append({'kind': 'lock', 'value': 1, 'variant': 'own', 'shards': 1, 'progs': [['A', 'W', 'R'], ['R', 'A', 'W', 'R']],
               'schedule': [0] * 6 + [1] * 12, 'disciplined': False})
    cs.append({'kind': 'rlock', 'value': 1, 'variant': 'shared', 'shards': 1, 'progs': [['A', 'A', 'W', 'R', 'W', 'R', 'R'], ['R', 'A', 'W', 'R']],
               'schedule': [0] * 12 + [1] * 8, 'disciplined': True})
    return cs


def run(ctx):
    res = fw.Result()
    res.rule = ('contender programs over acquire/release/work/locked()/barrier-call for Lock, RLock (nesting 1-3, unheld releases) and '
                'BoundedSemaphore (values 1-3), 2-4 threads with own Cache objects / one shared Cache / FanoutCache (1 or 3 shards), '
                'timeout 0, under the deterministic scheduler: ALL event-level schedules of a fixed length over two contenders '
                '(enumerated) plus random bursty schedules of length 0-120 followed by round-robin.  Error paths: BoundedSemaphore programs '
                'with releases by contenders holding nothing (refused ones must change nothing, so the bound still applies), and sequential '
                'refusal sequences on Cache and FanoutCache (1-3 shards): 2-4 holder threads running one acquire/release at a time against '
                'an exact reference (Lock free/held, RLock owner+depth, semaphore permits), with releases that must be refused (RLock by a '
                'non-owner or beyond its depth, BoundedSemaphore with every permit free) or be a no-op (Lock nobody holds) interleaved with '
                'ordinary acquire/release, the stored entry read before and after each of them, and every holder trying to get in at the end.  '
                'Hold sequences (same reference): Lock/RLock/BoundedSemaphore(1-3) with default arguments used directly and through barrier() with its '
                'default arguments (key given or derived from the function), holders staying inside (parked in the wrapped function) while the virtual '
                'clock advances by 0.5 s ... 400 days before the next contender arrives, on Cache and FanoutCache with 1,2,3,4,5,8,13 shards, lock keys '
                'of several types, each contender using the original object, an unpickled copy of the recipe object, or a recipe built on an unpickled '
                'cache handle.  Raise sequences (same reference and dimensions): barrier-wrapped functions that END BY RAISING (nine exception classes, one of them '
                'not an Exception) among ones that return: the caller gets that very exception, and the Lock / RLock depth / semaphore permit taken for the call is '
                'free for the next contender at once (the resource filled through barrier calls, every one of them raising -- once, twice, three times for '
                'BoundedSemaphore(1-3) -- and then every contender trying to get in).  Processes: holders forked after the object was built; a recipe object pickled here and unpickled in a forked process, '
                'holder and contender on either side.  Separately started interpreters (fresh /venv/bin/python processes with explicit, different '
                'PYTHONHASHSEED values; equal seeds and a plain Cache as controls) on Cache and FanoutCache with 2, 3, 8 and one of 4/5/13 shards: process A builds '
                'Lock / RLock (depth 1-2) / BoundedSemaphore(1-3, fully or partly taken) / barrier-wrapped functions (each factory, key given or derived) on 15 distinct '
                'keys per configuration (random text keys, some int/float/bytes/tuple) and stays inside; process B must see Lock.locked() true and get exactly '
                'bound - held permits with attempts that end at the first sleep; after A leaves B must get all of them.  '
                'non-trivial = at least 4 atomic steps / at least one refused release; distinct = distinct (recipe, value, variant, programs, schedule).')
    hist = base_hist()
    rng = ctx.rng
    L = 8 if ctx.quick else 11
    nrand = 300 if ctx.quick else 2500
    cases = special_cases()
    for kind, value in (('lock', 1), ('rlock', 1), ('sem', 1), ('sem', 2)):
        cases += list(enum_cases(kind, value, L))
    cases += [gen_case(rng) for _ in range(nrand)]
    cases += [gen_case(rng, misuse=True, kind=k) for k in ('lock', 'sem', 'rlock') for _ in range(3 if ctx.quick else 15)]
    run_cases(ctx, res, cases, hist)
    res.extra['exhaustive'] = False
    res.extra['enumerated_schedule_length'] = L
    res.extra['histogram_contenders'] = hist['contenders']
    res.extra['histogram_variant'] = hist['variant']
    res.extra['histogram_recipe'] = hist['kind']
    res.extra['histogram_atomic_steps_bucketed_by_5'] = {str(k): v for k, v in sorted(hist['atomic_steps'].items())}
    res.extra['runs_with_contention'] = hist['contention']
    res.extra['max_simultaneous_holders_seen'] = hist['max_holders']
    refusal_sequences(ctx, res, 90 if ctx.quick else 900)
    hold_sequences(ctx, res, 180 if ctx.quick else 1800)
    raise_sequences(ctx, res, 72 if ctx.quick else 720)
    forked_holders(ctx, res)
    pickled_process_holders(ctx, res, 42 if ctx.quick else 210)
    fresh_process_holders(ctx, res)
    if not ctx.quick:
        process_soak(ctx, res)
    return res


def search(ctx, broken):
    res = fw.Result()
    hist = base_hist()
    cases = special_cases()
    for kind, value in (('lock', 1), ('rlock', 1), ('sem', 1), ('sem', 2), ('sem', 3)):
        cases += list(enum_cases(kind, value, 8))
    cases += [gen_case(ctx.rng) for _ in range(300)]
    run_cases(ctx, res, cases, hist, correspond=False)
    refusal_sequences(ctx, res, 300)
    hold_sequences(ctx, res, 400)
    raise_sequences(ctx, res, 180)
    forked_holders(ctx, res)
    pickled_process_holders(ctx, res, 84)
    fresh_process_holders(ctx, res)
    return res


def replay(payload):
    case = payload.get('case', {})
    if case.get('check') == 'refusals':
        d = tempfile.mkdtemp(prefix='c15r-')
        try:
            problems, info = run_refusal_case(case, d)
            print('refusal sequence:', problems, info)
            return not problems
        finally:
            shutil.rmtree(d, ignore_errors=True)
    if case.get('check') in ('hold', 'raise'):
        d = tempfile.mkdtemp(prefix='c15r-')
        try:
            problems, info = run_hold_case(case, d)
            print('%s sequence:' % case['check'], problems, info)
            return not problems
        finally:
            shutil.rmtree(d, ignore_errors=True)
    if case.get('check') == 'pickled-process':
        d = tempfile.mkdtemp(prefix='c15r-')
        try:
            problems = run_pickled_process_case(case, d)
            print('pickled recipe object in another process:', problems)
            return not problems
        finally:
            shutil.rmtree(d, ignore_errors=True)
    if case.get('check') == 'fresh-process':
        d = tempfile.mkdtemp(prefix='c15r-')
        try:
            problems, info = run_fresh_process_case(case, d)
            print('separately started interpreters:', problems, info)
            return not problems
        finally:
            shutil.rmtree(d, ignore_errors=True)
    if case.get('check') != 'contenders':
        print('replay payload:', payload)
        return True
    d = tempfile.mkdtemp(prefix='c15r-')
    try:
        out = execute(case, d)
        bad = monitor(case, out)
        print('results:', out['records'], 'errors:', out['errors'], 'final:', out['final'])
        print('witness: max holders %d, max permits %d, max inside barrier %d' % (
            out['wit'].max_holders, out['wit'].max_permits, out['wit'].max_inside))
        for sig, desc in bad:
            print('MONITOR %s: %s' % (sig, desc))
        return not bad
    finally:
        shutil.rmtree(d, ignore_errors=True)
