"""C04 -- items are visible until their expiry time passes and never afterwards."""
import pickle

import callguard
import fw
import gen_hist
import instr
import seqdrv
from instr import core, diskcache
from props.c02 import expected_same

ID = 'C04'
COQ_PROP = 'C04'
LEVEL = 'proof'
TRANSLATE = ['sql', 'disk', 'fanout', 'django']
TRUSTED = [
    'coq/base/SqlBase.v + Val.v: relational reading of the SQL subset (three-valued WHERE, stable ORDER BY, LIMIT), compiled from the SQL text of core.py by tools/sqlsubset.py; validated by the row-level correspondence of this run',
    'times are Z ticks of 2^-10 s; the harness keeps clock and ttl on that grid (now + expire exact in binary64)',
]
ASSUMPTIONS = ['one client at a time (the other-handle scenarios use several handles, one after the other); the clock is frozen during a call', 'expire()/lazy-cull clauses: absolute expiry times >= 0 (finding C04-F1 otherwise)',
               'other-handle scenarios are decided by the monitor only (rows before / after through the harness\'s own connection); the row model has one handle',
               'twin-key histories (a pickled key and the bytes key equal to its pickle): monitor only, not rendered for the row model',
               'queue visibility behind runs of expired items (queue_visible scenarios): decided by the monitor only, from the ledger of what was pushed and when it expires']

W = {'set': 16, 'add': 8, 'get': 14, 'contains': 8, 'touch': 8, 'incr': 8, 'pop': 5, 'delete': 5, 'delitem': 2,
     'push': 8, 'pull': 5, 'peek': 4, 'peekitem': 3, 'expire': 4, 'cull': 1, 'len': 1, 'iter': 1, 'evict': 0, 'clear': 0,
     'reversed': 0, 'iterkeys': 1, 'stats': 0}


CALL_SECONDS = 30          # wall time after which a single API call is taken not to return
_HANGS = [0]


class Runner(seqdrv.Runner):
    """the sequential driver with a bound on every call: a call that does not return (the library's peek / pull / peekitem retry for ever on a
    row whose value file is gone) is recorded with the result ('raise', 'DidNotReturn') instead of hanging the check"""

    def call(self, item):
        try:
            with callguard.bounded(CALL_SECONDS if _HANGS[0] < 2 else 2, item['op']):       # (after two such calls the limit drops: every one costs its limit)
                return seqdrv.Runner.call(self, item)
        except callguard.CallDidNotReturn:
            _HANGS[0] += 1
            return ('raise', 'DidNotReturn'), 'RRaise EStore'


def find_row(disk, rows, key):
    for r in rows:
        k = disk.get(r[1] if not isinstance(r[1], memoryview) else bytes(r[1]), r[2])
        if expected_same(k, key):
            return r
    return None


def live(row, now):
    return row[4] is None or now < row[4]


def check_trace(res, runner, tr, cfg, stats):
    """The monitor: decides C04 from the implementation's behaviour (previous observed table + result)."""
    disk = diskcache.Disk(runner.dir, min_file_size=cfg.min_file_size, pickle_protocol=cfg.protocol)
    prev_rows = []
    viol = []
    for i, rec in enumerate(tr.calls):
        item, r = rec['item'], rec['res']
        op, a, now = item['op'], item['args'], item['now']
        rows = rec['obs'][0]
        key = runner.objs[a['k']] if 'k' in a else None
        if r == ('raise', 'DidNotReturn'):
            viol.append(('call_did_not_return:%s' % op, '%s %r did not return within %d s of wall time' % (op, a, CALL_SECONDS), i))
            break
        row = find_row(disk, prev_rows, key) if key is not None or op in ('get',) and 'k' in a else None
        if 'k' in a:
            row = find_row(disk, prev_rows, key)
            vis = row is not None and live(row, now)
            at_instant = row is not None and row[4] is not None and row[4] == now
            stats['lookups'] += 1
            stats['at_expiry_instant'] += int(at_instant)
            stats['on_expired_row'] += int(row is not None and not vis)
            bad = None
            if op == 'get':
                got = r != 'default'
                if got != vis:
                    bad = 'get returned %s but the item is %s' % ('a value' if got else 'default', 'live' if vis else 'absent/expired')
            elif op == 'contains':
                if r != vis:
                    bad = 'membership reported %s but the item is %s' % (r, 'live' if vis else 'absent/expired')
            elif op == 'touch':
                if r != vis:
                    bad = 'touch returned %s but the item is %s' % (r, 'live' if vis else 'absent/expired')
            elif op in ('delete',):
                if r != vis:
                    bad = 'delete returned %s but the item is %s' % (r, 'live' if vis else 'absent/expired')
            elif op == 'delitem':
                if (r is True) != vis:
                    bad = 'del returned %s but the item is %s' % (r, 'live' if vis else 'absent/expired')
            elif op == 'pop':
                if (r != 'default') != vis:
                    bad = 'pop returned %s but the item is %s' % (r, 'live' if vis else 'absent/expired')
            elif op == 'add':
                if (r is False) != vis:
                    bad = 'add returned %s but the item is %s' % (r, 'live' if vis else 'absent/expired')
            elif op == 'incr':
                if vis and isinstance(row[11], int) and not isinstance(r, tuple):
                    if r != row[11] + a['delta']:
                        bad = 'incr on a live item returned %r, expected %r' % (r, row[11] + a['delta'])
                elif not vis:
                    if a['default'] is None:
                        if r != ('raise', 'KeyError'):
                            bad = 'incr on an absent/expired item with default None returned %r' % (r,)
                    elif not isinstance(r, tuple) and r != a['default'] + a['delta']:
                        bad = 'incr on an absent/expired item returned %r, expected default+delta' % (r,)
            if bad:
                sig = ('visible_mismatch_at_expiry_instant:%s' % op) if at_instant else ('visible_mismatch:%s' % op)
                viol.append((sig, bad, i))
        elif op in ('pull', 'peek', 'peekitem') and r != 'default' and not (isinstance(r, tuple) and r[0] == 'raise'):
            (k, v), e, t = r
            stats['deliveries'] += 1
            if e is not None and not (now < e):
                viol.append(('delivered_expired:%s' % op, '%s delivered an item whose expire_time %r is not after now %r' % (op, e, now), i))
        elif op == 'expire':
            passed = [x for x in prev_rows if x[4] is not None and x[4] < now]
            gone = [x for x in prev_rows if x[0] not in set(y[0] for y in rows)]
            stats['expire_calls'] += 1
            stats['expire_max_batch'] = max(stats['expire_max_batch'], len(passed))
            not_passed_gone = [x for x in gone if not (x[4] is not None and x[4] < now)]
            left = [x for x in passed if x[0] in set(y[0] for y in rows)]
            if not_passed_gone:
                viol.append(('expire_removed_live', 'expire() removed %d items whose expiry time has not passed' % len(not_passed_gone), i))
            if left:
                neg = all(x[4] < 0 for x in left)
                viol.append(('expire_negative_time' if neg else 'expire_left_passed',
                             'expire() left %d of %d passed items (expire_times %s)' % (len(left), len(passed), sorted(set(x[4] for x in left))[:3]), i))
            if r != len(gone):
                viol.append(('expire_count', 'expire() returned %r but removed %d' % (r, len(gone)), i))
        # an item's expiry time is what the last write to THAT item made it: no call changes the expiry time of an item stored under another
        # key, and only set / add / incr / touch change the one of their own key
        own = find_row(disk, prev_rows, key) if 'k' in a else None
        before = dict(((x[0], bytes(x[1]) if isinstance(x[1], memoryview) else x[1], x[2]), x) for x in prev_rows)
        for y in rows:
            x = before.get((y[0], bytes(y[1]) if isinstance(y[1], memoryview) else y[1], y[2]))
            if x is None or x[4] == y[4]:
                continue
            if own is not None and x[0] == own[0]:
                if op in ('set', 'add', 'incr', 'touch'):
                    continue
                viol.append(('expiry_changed_by_lookup:%s' % op, '%s(%r) changed the expire_time of the item from %r to %r' % (op, key, x[4], y[4]), i))
            else:
                other = disk.get(x[1] if not isinstance(x[1], memoryview) else bytes(x[1]), x[2])
                viol.append(('foreign_expiry_changed:%s' % op, '%s%s changed the expire_time of the item stored under ANOTHER key, %r, from %r to %r (now %r): that item %s'
                             % (op, '(%r)' % (key,) if 'k' in a else '()', other, x[4], y[4], now,
                                'now outlives its own time-to-live' if x[4] is not None and (y[4] is None or y[4] > x[4]) else 'now dies before its own time-to-live has passed'), i))
            break
        if op == 'touch' and 'k' in a:
            rown = find_row(disk, rows, key)
            if r is True and own is not None and live(own, now):
                wexp = None if a.get('expire') is None else now + a['expire']
                if rown is None or rown[4] != wexp:
                    viol.append(('wrong_expiry_written:touch', 'touch(%r, %r) at %r returned True and left expire_time %r, expected %r'
                                 % (key, a.get('expire'), now, None if rown is None else rown[4], wexp), i))
            elif r is False and own is not None and rown is not None and rown[4] != own[4]:
                viol.append(('wrong_expiry_written:touch', 'touch(%r) returned False and changed expire_time from %r to %r' % (key, own[4], rown[4]), i))
        if op in ('set', 'add', 'incr') and 'k' in a:
            # what a successful write stored stays until ITS expiry time passes (no ttl: forever)
            wrote, wexp = False, None
            if op == 'set' and r is True:
                wrote, wexp = True, (None if a.get('expire') is None else now + a['expire'])
            elif op == 'add' and r is True:
                wrote, wexp = True, (None if a.get('expire') is None else now + a['expire'])
            elif op == 'incr' and not isinstance(r, tuple):
                rowp = find_row(disk, prev_rows, key)
                if rowp is not None and live(rowp, now):
                    wrote, wexp = True, rowp[4]
                else:
                    wrote, wexp = True, None        # restarted from the default: no expiry
            if wrote:
                rown = find_row(disk, rows, key)
                if rown is None:
                    if wexp is None or wexp >= now:
                        viol.append(('written_item_vanished:%s' % op, '%s succeeded but the item is gone although its expiry time (%r) has not passed' % (op, wexp), i))
                elif rown[4] != wexp:
                    viol.append(('wrong_expiry_written:%s' % op, '%s left expire_time %r, expected %r' % (op, rown[4], wexp), i))
        if op in ('set', 'add', 'incr', 'push'):
            # lazy removal by a write: only passed items, at most cull_limit (size limit is out of reach here)
            target = None
            if 'k' in a:
                tr_ = find_row(disk, prev_rows, key)
                target = tr_[0] if tr_ else None
            now_ids = set(y[0] for y in rows)
            gone = [x for x in prev_rows if x[0] not in now_ids and x[0] != target]
            bad_gone = [x for x in gone if not (x[4] is not None and x[4] < now)]
            stats['lazy_removed'] += len(gone)
            if bad_gone:
                viol.append(('lazy_cull_removed_live', 'a write removed %d items that had not expired' % len(bad_gone), i))
            if len(gone) > max(cfg.cull_limit, 0):
                viol.append(('lazy_cull_over_limit', 'a write removed %d items, cull_limit is %d' % (len(gone), cfg.cull_limit), i))
        prev_rows = rows
    return viol


def run_histories(ctx, res, nhist, length, stats, big=False):
    terms, recs = [], []
    pols = ['least-recently-stored', 'least-recently-used', 'none', 'least-frequently-used']
    for h in range(nhist):
        cfg = seqdrv.Config(policy=pols[h % 4], statistics=(h % 5 == 0), min_file_size=16, cull_limit=[10, 0, 1, 2][(h // 2) % 4])
        ttls = [None, None, 0, 2 ** -10, 1, 1, 2, -1, 2 ** 30, -2 ** 41] if h % 3 else [1, 1, 1, None, 2]
        keys = gen_hist.KEYS if not big or h % 2 else ['k%d' % i for i in range(350)]
        w = dict(W)
        if big and not (h % 2):
            w.update({'set': 60, 'add': 10, 'expire': 2, 'get': 8})
        g = gen_hist.Gen(ctx.rng, cfg, weights=w, keys=keys, ttls=ttls, prefixes=[None, 'q'])
        hist = g.history(length if not (big and not h % 2) else max(length, 420))
        r = Runner(ctx, cfg, observe_every=1)
        r.objs = g.objs
        tr = r.run(hist)
        viol = check_trace(res, r, tr, cfg, stats)
        for sig, what, idx in viol[:3]:
            res.violations.append(fw.Violation(sig, what, dict(gen_hist.history_json(g.objs, hist[:idx + 1], cfg), check='history', failing_call=idx)))
        for rec in tr.calls:
            res.count([rec['item']['op'], repr(sorted(rec['item']['args'].items())), rec['item']['now'], h], nontrivial=rec['res'] != 'default')
            stats['ops'][rec['item']['op']] = stats['ops'].get(rec['item']['op'], 0) + 1
        if h < 2:
            res.sample({'config': cfg.to_json(), 'first_calls': [[c['item']['op'], c['item']['now'], str(c['res'])[:60]] for c in tr.calls[:8]]})
        terms.append(seqdrv.history_check_term(r, tr, cfg))
        recs.append((g, hist, cfg))
    return terms, recs


def twin_keys(protocol):
    """pairs of DISTINCT keys that share the database key column: a key stored in pickled form (raw = 0) and the bytes key equal to that
    pickle (raw = 1)"""
    import pickletools
    out = []
    for k in ((1, 2), None, 2 ** 64, ('session', 7), True, (None,)):
        out.append((k, pickletools.optimize(pickle.dumps(k, protocol=protocol))))
    return out


def twin_histories(ctx, res, stats, thorough):
    """Histories over twin pairs (twin_keys) and one ordinary key: set / add / touch / incr / lookups / expire / removals with ttls and clock
    steps that land around the expiry times, first a directed prefix (both twins stored with different ttls, each touched, one removed, the
    absent one touched), then random calls.  Same monitor as every history (visibility, written expiry, nobody else's expiry changed)."""
    n = 0
    pols = ['none', 'least-recently-stored', 'least-recently-used', 'least-frequently-used']
    pairs = twin_keys(pickle.HIGHEST_PROTOCOL)
    nh = len(pairs) * (4 if thorough else 1)
    w = dict(W)
    w.update({'set': 10, 'add': 8, 'touch': 22, 'get': 12, 'contains': 8, 'incr': 3, 'pop': 3, 'delete': 4, 'delitem': 1, 'expire': 4, 'push': 0, 'pull': 0,
              'peek': 0, 'peekitem': 2, 'cull': 1, 'iterkeys': 1})
    for h in range(nh):
        a_key, b_key = pairs[h % len(pairs)]
        cfg = seqdrv.Config(policy=pols[(h + ctx.seed) % 4], statistics=(h % 3 == 0), min_file_size=16, cull_limit=[0, 10, 1][h % 3])
        ttls = [None, 1, 1, 2, 10, 50, 0, 2 ** -10, 3600] if h % 2 else [1, 2, None, 5]
        g = gen_hist.Gen(ctx.rng, cfg, weights=w, keys=[a_key, b_key, 'plain'], ttls=ttls, prefixes=[None])
        g.counter_keys = [a_key, b_key]
        A, B, V = g.ref(a_key), g.ref(b_key), g.ref(7)
        if h % 2:
            A, B = B, A
        t = 1000.0
        pre = [{'op': 'set', 'args': {'k': A, 'v': V, 'expire': 10, 'tag': None}, 'now': t},
               {'op': 'set', 'args': {'k': B, 'v': V, 'expire': [100, None, 2][h % 3], 'tag': 't1'}, 'now': t},
               {'op': 'touch', 'args': {'k': A, 'expire': [1000, None, 1][(h // 2) % 3]}, 'now': t + 1},
               {'op': 'get', 'args': {'k': B, 'read': False}, 'now': t + 1},
               {'op': 'touch', 'args': {'k': B, 'expire': 5}, 'now': t + 1.5},
               {'op': 'contains', 'args': {'k': A}, 'now': t + 1.5},
               {'op': 'delete', 'args': {'k': A}, 'now': t + 2},
               {'op': 'touch', 'args': {'k': A, 'expire': 3}, 'now': t + 2},          # absent, its twin is live
               {'op': 'add', 'args': {'k': A, 'v': V, 'expire': 1, 'tag': None}, 'now': t + 2},
               {'op': 'get', 'args': {'k': B, 'read': False}, 'now': t + 4},
               {'op': 'touch', 'args': {'k': A, 'expire': 60}, 'now': t + 4},         # expired but still stored, its twin is live
               {'op': 'get', 'args': {'k': B, 'read': False}, 'now': t + 6}]
        g.now = t + 6
        g.expiries += [t + 10, t + 6.5, t + 3]
        hist = pre + g.history(70 if thorough else 50)
        r = Runner(ctx, cfg, observe_every=1)
        r.objs = g.objs
        tr = r.run(hist)
        viol = check_trace(res, r, tr, cfg, stats)
        for sig, what, idx in viol[:2]:
            res.violations.append(fw.Violation(sig, 'keys %r and %r share the key column: %s' % (a_key, b_key, what),
                                               dict(gen_hist.history_json(g.objs, hist[:idx + 1], cfg), check='history', failing_call=idx)))
        for rec in tr.calls:
            res.count([rec['item']['op'], repr(sorted(rec['item']['args'].items())), rec['item']['now'], 'twins', h], nontrivial=rec['res'] != 'default')
            stats['ops'][rec['item']['op']] = stats['ops'].get(rec['item']['op'], 0) + 1
        n += len(tr.calls)
    stats['twin_calls'] = n


def correspondence(ctx, res, terms, recs):
    out, errors = seqdrv.model_first_mismatch('c04', terms, chunk=2)
    for e in errors:
        res.disagreements.append(fw.Violation('model-eval', 'model evaluation failed: ' + e[-400:], {}, 'correspondence'))
    for m, (g, hist, cfg) in zip(out, recs):
        if m is None:
            continue
        if m < 0:
            res.traces_validated += 1
        else:
            res.disagreements.append(fw.Violation('row_model', 'model and implementation differ at call %d (%s)' % (m, hist[m]['op']),
                                                  dict(gen_hist.history_json(g.objs, hist[:m + 1], cfg), check='history', failing_call=m), 'correspondence'))


def many_share_one_time(ctx, res, stats, n):
    """more than one 100-row page of items sharing one expiry time"""
    d = ctx.scratch('c04m')
    clock = instr.Clock(1000.0)
    with instr.Installed(clock):
        c = diskcache.Cache(d, cull_limit=0)
        for i in range(n):
            c.set(i, i, expire=1)
        c.set('keep', 1, expire=10)
        c.set('forever', 2)
        clock.set(1005.0)
        r = c.expire()
        left = len(c)
        res.count(['many', n], nontrivial=True)
        stats['expire_max_batch'] = max(stats['expire_max_batch'], n)
        if r != n or left != 2:
            res.violations.append(fw.Violation('expire_left_passed', 'expire() returned %d and left %d of %d items sharing one expiry time' % (r, left - 2, n),
                                               {'check': 'many_share', 'n': n}))
        c.close()


# ---------------------------------------------------------------------------------------------------------------
# Expiry is a property of the stored ITEMS, not of the handle that stored them: the removal entry points and the lookups are exercised
# through a handle OTHER than the writer's (the directory reopened, a second handle, an unpickled copy, another process), for Cache,
# FanoutCache and DjangoCache.

HANDLE_KINDS = ['writer', 'reopen', 'second', 'pickle', 'fork']
CONTAINERS = ['Cache', 'FanoutCache', 'DjangoCache']
ENTRIES = ['expire', 'cull', 'evict', 'clear', 'lookups']
_TTLS = [1, 2, 2, None, 5, 50, 1, None, 0.5, 3600, 2 ** -10, 2]
_TAGS = [None, 'red', 'blue']
_MISS = object()


def _django_cache():
    from django.conf import settings
    if not settings.configured:
        settings.configure()
    from diskcache.djangocache import DjangoCache
    return DjangoCache


def _open(container, d):
    kw = dict(cull_limit=0, disk_min_file_size=16, eviction_policy='least-recently-stored')
    if container == 'Cache':
        return diskcache.Cache(d, **kw)
    if container == 'FanoutCache':
        return diskcache.FanoutCache(d, shards=3, **kw)
    return _django_cache()(d, {'SHARDS': 3, 'OPTIONS': kw})


def _reopen(container, d):
    """a handle created by someone who knows the directory only (settings are persisted)"""
    if container == 'Cache':
        return diskcache.Cache(d)
    if container == 'FanoutCache':
        return diskcache.FanoutCache(d, shards=3)
    return _django_cache()(d, {'SHARDS': 3})


def _observe_all(d):
    """{(shard directory, rowid): row} over every cache.db below d, read through connections of the harness"""
    import os
    out = {}
    for dp, dn, fn in os.walk(d):
        if 'cache.db' in fn:
            rows = seqdrv.observe(dp)[0]
            for r in rows:
                out[(os.path.relpath(dp, d), r[0])] = r
    return out


def _populate(container, w, n):
    """n items written at the current time; -> [(key, ttl, tag)]"""
    items = []
    for i in range(n):
        ttl, tag = _TTLS[i % len(_TTLS)], _TAGS[i % len(_TAGS)]
        v = i if i % 4 else 'file-backed value %d ' % i * 3
        k = 'k%d' % i
        how = i % 5
        if container == 'DjangoCache':
            if how == 1:
                w.add(k, v, timeout=ttl, tag=tag)
            elif how == 2 and ttl is not None:
                w.set(k, v, timeout=None, tag=tag)
                w.touch(k, timeout=ttl)
            else:
                w.set(k, v, timeout=ttl, tag=tag)
        else:
            if how == 1:
                w.add(k, v, expire=ttl, tag=tag)
            elif how == 2 and ttl is not None:
                w.set(k, v, tag=tag)
                w.touch(k, expire=ttl)
            else:
                w.set(k, v, expire=ttl, tag=tag)
        items.append((k, ttl, tag))
    return items


def _do_entry(h, container, entry, keys):
    """the calls made through the handle under test; -> JSON-able dict"""
    out = {}
    if entry == 'expire':
        out['r'] = h.expire()
    elif entry == 'cull':
        out['r'] = h.cull()
    elif entry == 'evict':
        out['r'] = h.evict('red')
    elif entry == 'clear':
        out['r'] = h.clear()
    if container == 'DjangoCache':
        out['contains'] = [h.has_key(k) for k in keys]
        out['get'] = [h.get(k, 'MISS') != 'MISS' for k in keys]
    else:
        out['contains'] = [k in h for k in keys]
        out['get'] = [h.get(k, default='MISS') != 'MISS' for k in keys]
    return out


def _in_child(f):
    """run f() in a forked child (its own interpreter state from here on: it opens its own handle); -> result or ('<child failed>', text)"""
    import json
    import os
    rfd, wfd = os.pipe()
    pid = os.fork()
    if pid == 0:
        code = 0
        try:
            os.close(rfd)
            try:
                data = json.dumps({'ok': f()})
            except BaseException as e:  # noqa
                data = json.dumps({'error': repr(e)})
            with os.fdopen(wfd, 'w') as fh:
                fh.write(data)
        except BaseException:  # noqa
            code = 1
        finally:
            os._exit(code)
    os.close(wfd)
    with os.fdopen(rfd) as fh:
        data = fh.read()
    os.waitpid(pid, 0)
    try:
        j = json.loads(data)
    except ValueError:
        return ('<child failed>', data[:200])
    return j['ok'] if 'ok' in j else ('<child failed>', j.get('error'))


def other_handle_case(mkdir, p):
    """One scenario p = {container, handle, entry, n, dt}: the WRITER stores n items (ttl cycle %r, tags, set / add / set+touch) at t = 1000;
    a handle of kind p['handle'] is obtained; the clock moves to 1000 + dt; the entry point is called through that handle.
    -> (problems [(sig, text)], info)""" % (_TTLS,)
    container, kind, entry, n, dt = p['container'], p['handle'], p['entry'], p['n'], p['dt']
    d = mkdir()
    clock = instr.Clock(1000.0)
    problems = []
    import diskcache.fanout as fanout_mod        # FanoutCache.expire reads the clock in its own module
    with instr.Installed(clock, extra_modules=[fanout_mod]):
        w = _open(container, d)
        items = _populate(container, w, n)
        keys = [k for k, _, _ in items]
        before = _observe_all(d)
        now = 1000.0 + dt
        close = []
        if kind == 'writer':
            h = w
        elif kind == 'reopen':
            w.close()
            h = _reopen(container, d)
        elif kind == 'second':
            h = _reopen(container, d)
            close.append(w)
        elif kind == 'pickle':
            h = pickle.loads(pickle.dumps(w))
            close.append(w)
        else:
            h = None
            close.append(w)
        clock.set(now)
        try:
            if h is not None:
                out = _do_entry(h, container, entry, keys)
            else:
                def child():
                    hh = _reopen(container, d)
                    try:
                        return _do_entry(hh, container, entry, keys)
                    finally:
                        hh.close()
                out = _in_child(child)
        except Exception as e:  # noqa
            out = ('<raised>', repr(e))
        after = _observe_all(d)
        for o in close + ([h] if h is not None else []):
            try:
                o.close()
            except Exception:  # noqa
                pass
    if isinstance(out, tuple):
        return [('removal_raised_via_other_handle:%s' % entry, '%s through a %s handle: %r' % (entry, kind, out))], {'passed': 0}
    passed = set(i for i, r in before.items() if r[4] is not None and r[4] < now)
    gone = set(before) - set(after)
    what = '%s.%s() through a handle of kind %r (%d items written by another handle at t=1000, now %r)' % (container, entry, kind, n, now)
    if set(after) - set(before):
        problems.append(('rows_appeared_via_other_handle:%s' % entry, what + ': %d new rows' % len(set(after) - set(before))))
    if entry in ('expire', 'cull'):
        left = passed - gone
        if left:
            problems.append(('left_passed_via_other_handle:%s' % entry, what + ' left %d of %d items whose expiry time has passed (expire_times %s)'
                             % (len(left), len(passed), sorted(set(before[i][4] for i in left))[:4])))
        if gone - passed:
            problems.append(('removed_live_via_other_handle:%s' % entry, what + ' removed %d items whose expiry time has not passed' % len(gone - passed)))
        should = passed
    elif entry == 'evict':
        should = set(i for i, r in before.items() if r[7] == 'red')
        if should - gone:
            problems.append(('left_tagged_via_other_handle:evict', what + ' left %d of %d items tagged red' % (len(should - gone), len(should))))
        if gone - should:
            problems.append(('removed_untagged_via_other_handle:evict', what + ' removed %d items with another tag' % len(gone - should)))
    elif entry == 'clear':
        should = set(before)
        if after:
            problems.append(('left_items_via_other_handle:clear', what + ' left %d of %d items' % (len(after), len(before))))
    else:
        should = set()
        if gone:
            problems.append(('lookup_removed_rows_via_other_handle', what + ': %d rows disappeared during lookups' % len(gone)))
    if entry != 'lookups' and out.get('r') != len(gone):
        problems.append(('count_via_other_handle:%s' % entry, what + ' returned %r, %d rows disappeared' % (out.get('r'), len(gone))))
    # lookups through the same handle afterwards: visible iff not removed by this call (by specification) and now < written expiry time
    for j, (k, ttl, tag) in enumerate(items):
        removed = entry == 'clear' or (entry == 'evict' and tag == 'red')
        vis = not removed and (ttl is None or now < 1000.0 + ttl)
        for acc in ('contains', 'get'):
            if out[acc][j] != vis:
                at = ttl is not None and now == 1000.0 + ttl
                problems.append(('visible_mismatch%s_via_other_handle:%s' % ('_at_expiry_instant' if at else '', acc),
                                 what + ': afterwards %s(%r) reports %s, the item (ttl %r, tag %r) is %s'
                                 % (acc, k, out[acc][j], ttl, tag, 'live' if vis else 'removed / expired')))
                break
        else:
            continue
        break
    return problems, {'passed': len(passed), 'gone': len(gone)}


def other_handles(ctx, res, stats, thorough):
    st = stats.setdefault('other_handles', {'scenarios': 0, 'passed_items': 0, 'removed': 0})
    dts = [0.75, 2.0, 10.0, 4000.0]
    n = 0
    for container in CONTAINERS:
        for kind in HANDLE_KINDS:
            for ei, entry in enumerate(ENTRIES):
                for di, dt in enumerate(dts):
                    n += 1
                    if not thorough and (n + ctx.seed) % 2 and not (entry == 'expire' and dt == 10.0):
                        continue            # quick tier: every (container, handle, expire) at dt = 10 and half of the rest
                    size = 230 if (thorough or kind == 'reopen') and entry in ('expire', 'cull') and dt == 10.0 else 14
                    p = {'check': 'other_handle', 'container': container, 'handle': kind, 'entry': entry, 'n': size, 'dt': dt}
                    problems, info = other_handle_case(lambda: ctx.scratch('c04oh'), p)
                    st['scenarios'] += 1
                    st['passed_items'] += info.get('passed', 0)
                    st['removed'] += info.get('gone', 0)
                    res.count(['other-handle', container, kind, entry, size, dt], nontrivial=info.get('passed', 0) > 0)
                    for sig, text in problems[:2]:
                        res.violations.append(fw.Violation(sig, text, dict(p)))
    res.sample({'check': 'other_handles', 'containers': CONTAINERS, 'handles': HANDLE_KINDS, 'entries': ENTRIES, 'scenarios': st['scenarios']})


# ---------------------------------------------------------------------------------------------------------------
# "Visible until expiry" for queue items: a live item stays visible to peek / pull / peekitem however many expired-but-still-stored items
# stand between it and the end that is looked at.

QV_RUNS = [0, 1, 2, 9, 10, 11, 19, 20, 21, 25, 33]
QV_RUNS_THOROUGH = [3, 5, 29, 30, 31, 40, 50, 101, 120]
_QMISS = ('<no-key>', '<no-value>')


def queue_visible_case(mkdir, p):
    """One scenario p = {front, back, live, side, op, prefix, push_side, dt, cull_limit}: at t = 1000 a queue is filled (cull_limit 0 unless
    given, so nothing is removed lazily) with p['front'] items of ttl 1, then p['live'] items (the first with ttl 100, the others without
    ttl), then p['back'] items of ttl 2 (pushed to p['push_side']; inline and file-backed values); the clock moves to 1000 + dt; then
    p['op'] (peek / pull / peekitem; peek twice, pull until the queue reports empty) is called from p['side'].  The ledger of what was
    pushed and when it expires decides what must be returned: the first (last) item in queue order whose expiry time has not passed, with
    its key, value and expire_time; the default / KeyError only when no such item is left.
    -> (problems [(sig, text)], info)"""
    d = mkdir()
    clock = instr.Clock(1000.0)
    problems = []
    op, side, prefix = p['op'], p['side'], p.get('prefix')
    now = 1000.0 + p['dt']
    with instr.Installed(clock):
        c = diskcache.Cache(d, cull_limit=p.get('cull_limit', 0), disk_min_file_size=16, eviction_policy='none')
        try:
            plan = [1] * p['front'] + ([100] + [None] * (p['live'] - 1) if p['live'] else []) + [2] * p['back']
            ledger = []                 # in push order: (key, value, expire_time)
            for i, ttl in enumerate(plan):
                v = ('item', i) if i % 3 == 0 else ('v%d' % i if i % 3 == 1 else 'file-backed value %d ' % i * 2)
                k = c.push(v, prefix=prefix, side=p.get('push_side', 'back'), expire=ttl)
                ledger.append((k, v, None if ttl is None else 1000.0 + ttl))
            order = ledger if p.get('push_side', 'back') == 'back' else ledger[::-1]     # queue order, front first
            if op == 'peekitem':
                order = ledger                                                       # peekitem: insertion order of the whole cache
            clock.set(now)
            remaining = list(order)
            steps = 2 if op in ('peek', 'peekitem') else sum(1 for x in order if x[2] is None or now < x[2]) + 1
            for step in range(steps):
                alive = [x for x in remaining if x[2] is None or now < x[2]]
                want = None if not alive else (alive[0] if side == 'front' else alive[-1])
                try:
                    with callguard.bounded(CALL_SECONDS, op):
                        if op == 'peek':
                            got = c.peek(prefix=prefix, default=_QMISS, side=side, expire_time=True)
                        elif op == 'pull':
                            got = c.pull(prefix=prefix, default=_QMISS, side=side, expire_time=True)
                        else:
                            try:
                                got = c.peekitem(last=(side == 'back'), expire_time=True)
                            except KeyError:
                                got = (_QMISS, None)
                except callguard.CallDidNotReturn:
                    problems.append(('call_did_not_return:%s' % op, '%s did not return within %d s of wall time' % (op, CALL_SECONDS)))
                    break
                except Exception as e:  # noqa
                    problems.append(('queue_lookup_raised:%s' % op, '%s(side=%r) raised %r' % (op, side, e)))
                    break
                what = ('queue %r: %d items of ttl 1, %d live items, %d items of ttl 2 pushed at t=1000 (%d still stored); at t=%r call %d of %s from the %s'
                        % (prefix, p['front'], p['live'], p['back'], len(c), now, step + 1, op, side))
                (gk, gv), ge = got
                if want is None:
                    if (gk, gv) != _QMISS:
                        problems.append(('delivered_expired:%s' % op, what + ' returned %r (expire_time %r): no item is live' % ((gk, gv), ge)))
                        break
                    continue
                if (gk, gv) == _QMISS:
                    problems.append(('live_queue_item_invisible:%s' % op, what + ' reported the queue empty; the live item %r (expire_time %r) stands behind %d other items of the ledger, none of them live'
                                     % (want[:2], want[2], (remaining.index(want) if side == 'front' else len(remaining) - 1 - remaining.index(want)))))
                    break
                if gk != want[0] or not expected_same(gv, want[1]) or ge != want[2]:
                    problems.append(('wrong_queue_item:%s' % op, what + ' returned %r (expire_time %r), expected the %s live item %r (expire_time %r)'
                                     % ((gk, gv), ge, 'first' if side == 'front' else 'last', want[:2], want[2])))
                    break
                if op == 'pull':
                    remaining.remove(want)
        finally:
            c.close()
    return problems, {'pushed': len(plan)}


def queue_visible_params(seed, thorough):
    out = []
    runs = QV_RUNS + (QV_RUNS_THOROUGH if thorough else [])
    n = 0
    for i, run in enumerate(runs):
        for side in ('front', 'back'):
            for op in ('peek', 'pull', 'peekitem'):
                n += 1
                other = runs[(i + n + seed) % len(runs)] if n % 2 else 0
                front, back = (run, other) if side == 'front' else (other, run)
                out.append({'check': 'queue_visible', 'front': front, 'back': back, 'live': 1 + (n + seed) % 3, 'side': side, 'op': op,
                            'prefix': None if op == 'peekitem' or n % 4 == 0 else 'jobs', 'push_side': 'back' if n % 3 else 'front', 'dt': 5.0})
    # controls: nothing live at all; the clock between the two ttls (the run of ttl 2 is still live); lazy removal switched on
    for n, run in enumerate([10, 25] + ([50] if thorough else [])):
        for side in ('front', 'back'):
            out.append({'check': 'queue_visible', 'front': run, 'back': run, 'live': 0, 'side': side, 'op': ('peek', 'pull')[n % 2], 'prefix': 'jobs',
                        'push_side': 'back', 'dt': 5.0})
            out.append({'check': 'queue_visible', 'front': run, 'back': 3, 'live': 2, 'side': side, 'op': ('pull', 'peek')[n % 2], 'prefix': None,
                        'push_side': 'back', 'dt': 1.5})
            out.append({'check': 'queue_visible', 'front': run, 'back': 12, 'live': 1, 'side': side, 'op': 'peek', 'prefix': 'jobs',
                        'push_side': 'back', 'dt': 2.0, 'cull_limit': 10})
    return out


def queue_visibility(ctx, res, stats, thorough):
    st = stats.setdefault('queue_visible', {'scenarios': 0, 'items_pushed': 0, 'run_lengths': sorted(set(QV_RUNS + (QV_RUNS_THOROUGH if thorough else [])))})
    seen = set()
    for p in queue_visible_params(ctx.seed, thorough):
        problems, info = queue_visible_case(lambda: ctx.scratch('c04qv'), p)
        st['scenarios'] += 1
        st['items_pushed'] += info['pushed']
        res.count(['queue-visible', sorted(p.items(), key=repr)], nontrivial=p['live'] > 0)
        for sig, text in problems[:1]:
            if sig not in seen:
                seen.add(sig)
                res.violations.append(fw.Violation(sig, text, dict(p)))
        if sum(1 for s in seen if s.startswith('call_did_not_return')) >= 2:
            break


def witnesses(res):
    import tempfile, shutil
    d = tempfile.mkdtemp(prefix='c04wit-')
    try:
        clock = instr.Clock(1000.0)
        with instr.Installed(clock):
            c = diskcache.Cache(d, cull_limit=0)
            c.set('neg', 1, expire=-2 ** 41)
            clock.set(2000.0)
            c.expire()
            res.witnessed['expire_negative_time'] = len(c) == 1
            c.close()
    finally:
        shutil.rmtree(d, ignore_errors=True)


def run(ctx, big=False):
    res = fw.Result()
    res.rule = ('generated histories of set/add/touch/incr/get/contains/pop/delete/push/pull/peek/peekitem/expire/cull with ttl in '
                '{None, 0, 2^-10, 1, 2, -1, 2^30, -2^41} and clock steps landing exactly on, one tick before and after expiry times; populations of '
                '350 keys sharing expiry times (more than one 100-row page); monitor from the previously observed table: a lookup sees an item '
                'iff now < expire_time, expire() removes exactly the passed items, writes remove only passed items and at most cull_limit; '
                'row-level model compared with the table after every call.  non-trivial = the call did not return the default.  '
                'Other handles: items (ttl cycle 2^-10 .. 3600 and None, tags, written by set / add / set+touch, inline and file-backed, 14 or 230 of them) '
                'are stored through one handle of a Cache / FanoutCache / DjangoCache; expire(), cull(), evict(tag), clear() and lookups are then made through '
                'ANOTHER handle (the writer closed and the directory reopened, a second handle beside the writer, an unpickled copy, a forked process; the '
                'writer itself as control) after the clock moved by {0.75, 2 (an expiry instant), 10, 4000}: the rows that disappear are exactly the passed '
                '/ tagged / all ones, the returned count is their number, and afterwards the handle sees an item iff it was not removed and now < its expiry time.  '
                'Every history: no call changes the expire_time of an item stored under another key; lookups and removals change none; touch writes now + ttl '
                'iff it returns True.  Twin keys: histories over a key stored in pickled form ((1, 2), None, 2^64, True, ...) and the bytes key equal to its '
                'pickle (same key column, other raw flag) plus one plain key, touch-heavy, with a directed prefix (both stored with different ttls, each touched, '
                'one deleted / expired and touched again while its twin is live).  Queue visibility: queues with a run of 0..33 (thorough: ..120) items of '
                'ttl 1 in front of 0..3 live items (ttl 100 / none) and a run of items of ttl 2 behind them (cull_limit 0, pushed to the back or the front, '
                'with and without prefix), the clock moved past both ttls (controls: between them; nothing live): peek (twice), pull (until empty) and '
                'peekitem from both sides return the first / last item of the ledger whose expiry time has not passed, with its key, value and '
                'expire_time, and the default only when none is left.')
    stats = {'lookups': 0, 'at_expiry_instant': 0, 'on_expired_row': 0, 'deliveries': 0, 'expire_calls': 0, 'expire_max_batch': 0,
             'lazy_removed': 0, 'ops': {}}
    thorough = not ctx.quick or big
    terms, recs = run_histories(ctx, res, 24 if not thorough else 160, 60 if not thorough else 120, stats)
    t2, r2 = run_histories(ctx, res, 2 if not thorough else 8, 60, stats, big=True)
    for n in ([150] if not thorough else [100, 101, 150, 250, 350]):
        many_share_one_time(ctx, res, stats, n)
    other_handles(ctx, res, stats, thorough)
    res.extra['other_handles'] = stats.get('other_handles')
    twin_histories(ctx, res, stats, thorough)
    res.extra['twin_key_calls'] = stats.get('twin_calls')
    queue_visibility(ctx, res, stats, thorough)
    res.extra['queue_visible'] = stats.get('queue_visible')
    if not ctx.search_mode:
        correspondence(ctx, res, terms + t2, recs + r2)
    res.extra.update({'lookups_checked': stats['lookups'], 'lookups_exactly_at_expiry_instant': stats['at_expiry_instant'],
                      'lookups_on_expired_rows': stats['on_expired_row'], 'queue_deliveries': stats['deliveries'],
                      'expire_calls': stats['expire_calls'], 'largest_passed_population_for_expire': stats['expire_max_batch'],
                      'rows_removed_lazily_by_writes': stats['lazy_removed'], 'op_histogram': stats['ops']})
    witnesses(res)
    return res


def search(ctx, broken):
    return run(ctx, big=True)


def replay(payload):
    case = payload.get('case', {})
    if case.get('check') == 'other_handle':
        import tempfile, shutil
        d = tempfile.mkdtemp(prefix='c04r-')
        try:
            problems, info = other_handle_case(lambda: tempfile.mkdtemp(prefix='oh-', dir=d), case)
            print(info)
            for sig, text in problems:
                print(sig, text)
            return not problems
        finally:
            shutil.rmtree(d, ignore_errors=True)
    if case.get('check') == 'queue_visible':
        import tempfile, shutil
        d = tempfile.mkdtemp(prefix='c04r-')
        try:
            problems, info = queue_visible_case(lambda: tempfile.mkdtemp(prefix='qv-', dir=d), case)
            print(info)
            for sig, text in problems:
                print(sig, text)
            return not problems
        finally:
            shutil.rmtree(d, ignore_errors=True)
    if case.get('check') != 'history':
        print(payload)
        return True
    objs, hist, cfg = gen_hist.history_from_json(case)
    ctx = fw.Ctx('C04', 'quick', 1)
    try:
        r = Runner(ctx, cfg, observe_every=1)
        r.objs = objs
        tr = r.run(hist)
        res = fw.Result()
        stats = {'lookups': 0, 'at_expiry_instant': 0, 'on_expired_row': 0, 'deliveries': 0, 'expire_calls': 0, 'expire_max_batch': 0, 'lazy_removed': 0, 'ops': {}}
        viol = check_trace(res, r, tr, cfg, stats)
        for c in tr.calls[-5:]:
            print(c['item']['op'], c['item']['args'], c['item']['now'], '->', str(c['res'])[:100])
        print('monitor:', viol)
        return not viol
    finally:
        ctx.cleanup()
