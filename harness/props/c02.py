"""C02 -- keys address entries by documented equality and never alias one another."""
import os
import pickle
import pickletools
import sqlite3
import json
import zlib

import fw
import instr
import val
from instr import core, diskcache

ID = 'C02'
COQ_PROP = 'C02'
LEVEL = 'proof'
TRANSLATE = ['disk', 'sql', 'fanout']     # sql: every lookup / removal statement filters on key = ? AND raw = ? (bystander monitor)
TRUSTED = [
    'coq/base/Val.v: SQLite storage-class order and exact int/real comparison, CPython binding; compared with the UNIQUE(key, raw) index of a real database on every enumerated pair',
    'codec hypothesis: pickletools.optimize(pickle.dumps(k, protocol)) is injective on keys (premise pkk_inj) and pickle.load inverts it; multi-element hash-ordered containers are outside it (C13 finding)',
]
ASSUMPTIONS = ['unencodable text and streams are outside the key domain',
               'JSONDisk: a key json.dumps rejects (TypeError) is outside the key domain of that disk; a disk that accepts such a key owes it an entry of its own',
               "float NaN keys: float('nan') (the canonical quiet NaN; the model has ONE NaN).  It is one key, distinct from every other key (since "
               'the repair of C02-F2 Disk.put pickles it).  A NaN with another sign bit or payload (e.g. inf - inf on x86) has another pickle under '
               'pickle protocols >= 1 and is then a different key: outside the alphabet and the model',
               'bystander monitor: virtual clock (instr.Clock), entries stored at t=1000, operations at t=1050; the raw table is read through a '
               'separate sqlite3 connection (columns store_time, expire_time, tag, size, mode, filename, value; access statistics excluded)',
               'second handles (pickle round trip, copy, reopen, the pickled parent of a handed-out container): decided by the second_handles monitor only; the '
               'model has one handle per directory.  A way of duplicating a handle that raises (copy.deepcopy of a FanoutCache) yields no handle and no claim']


def alphabet(protocol):
    base = ['', 'a', 'b', 'a\x00', '1', '\xe9', '\U0001F600',
            0, 1, -1, 2 ** 53, 2 ** 53 + 1, 2 ** 63 - 1, -2 ** 63, 2 ** 63, -2 ** 63 - 1, 2 ** 64,
            0.0, -0.0, 1.0, 0.5, 2.0 ** 53, 2.0 ** 63, -2.0 ** 63, 2.0 ** 64, float('inf'), float('-inf'), 5e-324, float('nan'),
            True, False, None, (), (1,), (1.0,), (True,), ('a',), ((1,),), (1, None), frozenset({1}), b'', b'a', b'1', b'\x00']
    out = list(base)
    # bytes keys equal to the serialised form of other keys
    for k in (None, True, (1,), 2 ** 63, 'a'):
        out.append(pickletools.optimize(pickle.dumps(k, protocol=protocol)))
    return out


def native_num(k):
    """numbers that compare numerically: int64-range ints and floats other than NaN (NaN equals no number; all NaNs are one key)"""
    return (type(k) is int and -2 ** 63 <= k <= 2 ** 63 - 1) or (type(k) is float and k == k)


def expected_same(a, b):
    """The documented rule, written from the property text (independent of the Coq model)."""
    if native_num(a) and native_num(b):
        return a == b
    if native_num(a) or native_num(b):
        return False
    if type(a) is str and type(b) is str:
        return a == b
    if type(a) is bytes and type(b) is bytes:
        return a == b
    if type(a) in (str, bytes) or type(b) in (str, bytes):
        return False
    return val.same(a, b) and struct_same(a, b)


def struct_same(a, b):
    if type(a) is not type(b):
        return False
    if isinstance(a, tuple):
        return len(a) == len(b) and all(struct_same(x, y) for x, y in zip(a, b))
    return val.same(a, b)


def short(v):
    r = repr(v)
    return r if len(r) < 60 else r[:40] + '...'


def rows_of(directory):
    con = sqlite3.connect(os.path.join(directory, 'cache.db'))
    try:
        return con.execute('SELECT key, raw FROM Cache ORDER BY rowid').fetchall()
    finally:
        con.close()


def sig_for(a, b, diskname):
    if diskname == 'JSONDisk' and isinstance(a, (int, float)) and isinstance(b, (int, float)) \
            and not isinstance(a, bool) and not isinstance(b, bool):
        return 'json_int_float'
    return 'key_alias:%s:%s' % (type(a).__name__, type(b).__name__)


def run_pairs(ctx, res, protocol, diskcls, pairs_budget, coqcases, stats):
    d = ctx.scratch('c02')
    diskname = diskcls.__name__
    cache = diskcache.Cache(d, disk=diskcls, disk_pickle_protocol=protocol, eviction_policy='none')
    keys = alphabet(protocol)
    if diskname == 'JSONDisk':
        keys = [k for k in keys if not isinstance(k, (bytes, tuple, frozenset))] + [[1], [1.0], ['a'], 1e16, 10 ** 16]
    pairs = [(a, b) for a in keys for b in keys]
    if pairs_budget and len(pairs) > pairs_budget:
        # keep all class-boundary pairs (numeric x numeric, bytes x anything pickled), sample the rest
        must = [(a, b) for (a, b) in pairs if (isinstance(a, (int, float)) and isinstance(b, (int, float)))]
        rest = [p for p in pairs if p not in must]
        pairs = must + ctx.rng.sample(rest, max(0, pairs_budget - len(must)))
    for (a, b) in pairs:
        cache.clear()
        case = {'check': 'pair', 'disk': diskname, 'protocol': protocol, 'a': short(a), 'b': short(b),
                'a_pickle_hex': pickle.dumps(a, protocol=4).hex(), 'b_pickle_hex': pickle.dumps(b, protocol=4).hex()}
        exp = expected_same(a, b)
        try:
            cache.set(a, 'A')
            cache.set(b, 'B')
            n = len(cache)
            ga, gb = cache.get(a), cache.get(b)
            it = list(cache)
            ik = list(cache.iterkeys())
        except Exception as e:  # an ordinary operation on in-domain keys must not raise
            stats['pairs'] += 1
            res.count(['pair', diskname, protocol, short(a), short(b)], nontrivial=True)
            res.violations.append(fw.Violation('op_raised:%s' % type(e).__name__,
                                               'storing/iterating keys %s and %s raised %r' % (short(a), short(b), e), case))
            continue
        stats['pairs'] += 1
        stats['same'] += int(exp)
        res.count(['pair', diskname, protocol, short(a), short(b)], nontrivial=(a is not b))
        ok = True
        if exp:
            ok = (n == 1 and ga == 'B' and gb == 'B' and len(it) == 1 and val.same(it[0], a) and len(ik) == 1
                  and (a in cache) and (b in cache))
        else:
            ok = (n == 2 and ga == 'A' and gb == 'B' and len(it) == 2 and val.same(it[0], a) and val.same(it[1], b)
                  and sorted(map(repr, ik)) == sorted([repr(a), repr(b)]))
        if diskname == 'JSONDisk':
            # JSON has no tuple/bytes; iteration returns what json.loads returns (lists stay lists)
            pass
        if not ok:
            res.violations.append(fw.Violation(
                sig_for(a, b, diskname),
                'keys %s and %s: expected %s, observed len=%d get(a)=%r get(b)=%r iter=%s' % (
                    short(a), short(b), 'one entry' if exp else 'two entries', n, ga, gb, short(it)), case))
        if diskname == 'Disk':
            coqcases.append((protocol, a, b, n == 1, rows_of(d)))
    cache.close()


def coq_check(case):
    protocol, a, b, one, rows = case
    pa = pickletools.optimize(pickle.dumps(a, protocol=protocol))
    pb = pickletools.optimize(pickle.dumps(b, protocol=protocol))
    head = ('let a := %s in let b := %s in let pa := %s in let pb := %s in '
            'let c := {| pkk := fun k => if pv_same k a then pa else pb; pkv := fun _ => []; '
            'unpk := fun x => if zlist_eqb x pa then Some a else if zlist_eqb x pb then Some b else None |} in '
            % (val.py_term(a), val.py_term(b), fw.cbytes(pa), fw.cbytes(pb)))
    # 1. same entry?  2. the first row is put a  3. iteration decodes it to a
    k0, r0 = rows[0]
    t = ('Bool.eqb (db_same (put c a) (put c b)) %s && '
         'match put c a with PutOk v raw => sql_same v %s && Bool.eqb raw %s && '
         'match get c v raw with Some k => pv_same k a | None => false end | PutRaise => false end'
         % (fw.cbool(one), val.sql_term(k0), fw.cbool(bool(r0))))
    if not one and len(rows) == 2:
        k1, r1 = rows[1]
        t += (' && match put c b with PutOk v raw => sql_same v %s && Bool.eqb raw %s | PutRaise => false end'
              % (val.sql_term(k1), fw.cbool(bool(r1))))
    return head + t


def correspondence(ctx, res, coqcases, limit):
    cases = coqcases if len(coqcases) <= limit else ctx.rng.sample(coqcases, limit)
    checks = [coq_check(c) for c in cases]
    bad, errors = fw.coq_mismatches('c02', ['DCPrelude', 'Val', 'DiskBase', 'Gen_Disk', 'Disk'], '', checks, chunk=150)
    res.traces_validated += len(checks) - len(bad)
    for e in errors:
        res.disagreements.append(fw.Violation('model-eval', 'model evaluation failed: ' + e[-400:], {}, 'correspondence'))
    for i in bad[:5]:
        protocol, a, b, one, rows = cases[i]
        res.disagreements.append(fw.Violation('put_identity', 'model put/db_same disagrees with the database on (%s, %s)' % (short(a), short(b)),
                                              {'protocol': protocol, 'a': short(a), 'b': short(b), 'one_entry': one, 'rows': short(rows)}, 'correspondence'))
    if cases:
        protocol, a, b, one, rows = cases[0]
        res.sample({'a': short(a), 'b': short(b), 'one_entry': one, 'rows(key,raw)': short(rows), 'model_check': checks[0][:300]})


# ---------------------------------------------------------------------------------------------------------------
# An operation addressed to key k never returns, changes or removes an entry stored under a DIFFERENT key -- also when
# the other entries carry an expiry in the future, an expiry in the past (still in the table) and tags.

T_STORE, T_OP = 1000.0, 1050.0          # bystanders and k are stored at T_STORE, the operation runs at T_OP
DEFAULT = 'DEFAULT-RESULT'
ROLES = [('future', 100.0, 'tagF'), ('past', 10.0, 'tagP'), ('plain', None, None)]
KSTATES = {'missing': None, 'live': (None, None), 'future': (500.0, 'tagK'), 'expired': (10.0, 'tagE')}
CACHE_OPS = ['get', 'get_meta', 'contains', 'getitem', 'delitem', 'delete', 'pop', 'pop_meta', 'touch', 'incr', 'add', 'set']
INDEX_OPS = ['ix_getitem', 'ix_contains', 'ix_get', 'ix_delitem', 'ix_pop', 'ix_pop_nodefault', 'ix_setdefault', 'ix_setitem']
BY_CONFIGS = [   # (container, shards, disk, cull_limit)
    ('Cache', 0, 'Disk', 0), ('Cache', 0, 'Disk', 10), ('FanoutCache', 1, 'Disk', 0), ('FanoutCache', 2, 'Disk', 10),
    ('Index', 0, 'Disk', 0), ('Cache', 0, 'JSONDisk', 0),
]


class ByEnv:
    """one container + raw read-only views of its table(s) + the virtual clock"""

    def __init__(self, directory, container, shards, diskname, cull_limit, protocol, clock):
        self.directory, self.container, self.clock = directory, container, clock
        kw = dict(disk=getattr(diskcache, diskname), disk_pickle_protocol=protocol, eviction_policy='none', cull_limit=cull_limit)
        if container == 'FanoutCache':
            self.obj = diskcache.FanoutCache(directory, shards=shards, **kw)
        elif container == 'Index':
            self.obj = diskcache.Index.fromcache(diskcache.Cache(directory, **kw))
        else:
            self.obj = diskcache.Cache(directory, **kw)
        self.cache = self.obj.cache if container == 'Index' else self.obj     # where set(expire=, tag=) lives
        self.cons = []
        for root, _dirs, files in os.walk(directory):
            if 'cache.db' in files:
                self.cons.append(sqlite3.connect(os.path.join(root, 'cache.db'), isolation_level=None))

    def rows(self):
        out = {}
        for i, con in enumerate(self.cons):
            for r in con.execute('SELECT key, raw, store_time, expire_time, tag, size, mode, filename, value FROM Cache'):
                k = bytes(r[0]) if isinstance(r[0], (bytes, memoryview)) else r[0]
                v = bytes(r[8]) if isinstance(r[8], (bytes, memoryview)) else r[8]
                out[(i, type(k).__name__, k, r[1])] = r[2:8] + (v,)
        return out

    def put(self, key, value, expire, tag):
        self.clock.set(T_STORE)
        self.cache.set(key, value, expire=expire, tag=tag, retry=True)

    def close(self):
        for con in self.cons:
            con.close()
        self.cache.close()


def by_values(op, n):
    """distinct values; ints where the operation is arithmetic"""
    if op == 'incr':
        return 1000, 2000, [7000 + 100 * i for i in range(n)]
    return 'value-of-k', 'second-value-of-k', ['value-of-bystander-%d' % i for i in range(n)]


def by_apply(env, op, k, v2):
    o = env.obj
    if op == 'get':
        return o.get(k, DEFAULT)
    if op == 'get_meta':
        return o.get(k, DEFAULT, expire_time=True, tag=True)
    if op in ('contains', 'ix_contains'):
        return k in o
    if op in ('getitem', 'ix_getitem'):
        return o[k]
    if op in ('delitem', 'ix_delitem'):
        del o[k]
        return None
    if op == 'delete':
        return o.delete(k)
    if op == 'pop':
        return o.pop(k, DEFAULT)
    if op == 'pop_meta':
        return o.pop(k, DEFAULT, expire_time=True, tag=True)
    if op == 'touch':
        return o.touch(k, expire=200.0)
    if op == 'incr':
        return o.incr(k, 5, default=100)
    if op == 'add':
        return o.add(k, v2)
    if op == 'set':
        return o.set(k, v2)
    if op == 'ix_get':
        return o.get(k, DEFAULT)
    if op == 'ix_pop':
        return o.pop(k, DEFAULT)
    if op == 'ix_pop_nodefault':
        return o.pop(k)
    if op == 'ix_setdefault':
        return o.setdefault(k, v2)
    if op == 'ix_setitem':
        o[k] = v2
        return None
    raise ValueError(op)


def by_expected(op, vk, v2, kmeta):
    """(outcome when k has a visible entry, outcome when it has none, get(k) afterwards for both)"""
    R, X = (lambda x: ('ret', x)), ('exc', 'KeyError')
    ket, ktag = kmeta
    table = {
        'get': (R(vk), R(DEFAULT), vk, DEFAULT), 'ix_get': (R(vk), R(DEFAULT), vk, DEFAULT),
        'get_meta': (R((vk, ket, ktag)), R((DEFAULT, None, None)), vk, DEFAULT),
        'contains': (R(True), R(False), vk, DEFAULT), 'ix_contains': (R(True), R(False), vk, DEFAULT),
        'getitem': (R(vk), X, vk, DEFAULT), 'ix_getitem': (R(vk), X, vk, DEFAULT),
        'delitem': (R(None), X, DEFAULT, DEFAULT), 'ix_delitem': (R(None), X, DEFAULT, DEFAULT),
        'delete': (R(True), R(False), DEFAULT, DEFAULT),
        'pop': (R(vk), R(DEFAULT), DEFAULT, DEFAULT), 'ix_pop': (R(vk), R(DEFAULT), DEFAULT, DEFAULT),
        'ix_pop_nodefault': (R(vk), X, DEFAULT, DEFAULT),
        'pop_meta': (R((vk, ket, ktag)), R((DEFAULT, None, None)), DEFAULT, DEFAULT),
        'touch': (R(True), R(False), vk, DEFAULT),
        'add': (R(False), R(True), vk, v2), 'set': (R(True), R(True), v2, v2),
        'ix_setdefault': (R(vk), R(v2), vk, v2), 'ix_setitem': (R(None), R(None), v2, v2),
    }
    if op == 'incr':
        return (R(vk + 5), R(105), vk + 5, 105)
    return table[op]


def mentions(x, foreign):
    if isinstance(x, (tuple, list)):
        return any(mentions(y, foreign) for y in x)
    return any(type(x) is type(f) and x == f for f in foreign)


def by_check(env, spec, before, outcome, k, bystanders, vk, v2, bvals):
    """Judge one operation.  before: raw rows of the bystanders (k's own row excluded)."""
    op, kstate = spec['op'], spec['kstate']
    problems = []
    exp, tag = KSTATES[kstate] or (None, None)
    kmeta = (None if exp is None else T_STORE + exp, tag)
    hit, miss, after_hit, after_miss = by_expected(op, vk, v2, kmeta)
    allowed = {'missing': [miss], 'live': [hit], 'future': [hit], 'expired': [miss, hit]}[kstate]
    foreign = list(bvals) + ([b + 5 for b in bvals] if op == 'incr' else [])
    what = '%s on key %s (%s entry) beside entries %s' % (op, short(k), kstate, ', '.join('%s:%s' % (short(b), r[0]) for b, r in zip(bystanders, ROLES)))
    if outcome not in allowed:
        if outcome[0] == 'ret' and mentions(outcome[1], foreign):
            problems.append(('foreign_entry_returned:%s' % op, '%s returned %s, the entry of another key' % (what, short(outcome[1]))))
        elif outcome[0] == 'exc':
            problems.append(('op_raised:%s:%s' % (op, outcome[1]), '%s raised %s; expected %s' % (what, outcome[1:], short(allowed))))
        else:
            problems.append(('wrong_result:%s' % op, '%s returned %s; expected %s' % (what, short(outcome[1]), short(allowed))))
    now = env.rows()
    cull = env.cache.cull_limit
    for rk, row in before.items():
        if rk not in now:
            past = row[1] is not None and row[1] <= T_OP
            if past and cull:
                continue        # lazy culling may drop an entry whose expiry has passed; nothing else may
            problems.append(('foreign_entry_removed:%s' % op, '%s removed the entry with database key %s (expire_time %r)' % (what, short(rk[2]), row[1])))
        elif now[rk] != row:
            problems.append(('foreign_entry_changed:%s' % op, '%s changed the entry with database key %s: %s -> %s' % (what, short(rk[2]), short(row), short(now[rk]))))
    if len([rk for rk in now if rk not in before]) > 1:
        problems.append(('unexpected_entry:%s' % op, '%s left more than one entry that is neither a bystander nor its own' % what))
    # through the interface: the visible bystanders still answer with their own value, expiry and tag; the expired one with nothing
    for b, bv, (role, bexp, btag) in zip(bystanders, bvals, ROLES):
        want = (DEFAULT, None, None) if role == 'past' else (bv, None if bexp is None else T_STORE + bexp, btag)
        try:
            got = env.cache.get(b, DEFAULT, expire_time=True, tag=True)
        except Exception as e:  # noqa
            got = ('<raised>', type(e).__name__)
        if got != want:
            problems.append(('foreign_entry_changed:%s' % op, 'after %s, get(%s) of the %s bystander gives %s, stored %s' % (what, short(b), role, short(got), short(want))))
    try:
        own = env.cache.get(k, DEFAULT)
    except Exception as e:  # noqa
        own = ('<raised>', type(e).__name__)
    own_ok = {'missing': [after_miss], 'live': [after_hit], 'future': [after_hit], 'expired': [after_miss, after_hit]}[kstate]
    if own not in own_ok:
        if mentions(own, foreign):
            problems.append(('foreign_entry_returned:%s' % op, 'after %s, get(k) gives %s, the entry of another key' % (what, short(own))))
        else:
            problems.append(('own_entry_after:%s' % op, 'after %s, get(k) gives %s; expected %s' % (what, short(own), short(own_ok))))
    return problems


def by_place_k(env, k, kstate, vk):
    """bring k's own entry into `kstate` (bystanders untouched: every store runs at T_STORE, before any expiry)"""
    if kstate == 'missing':
        env.clock.set(T_STORE)
        if env.cache.get(k, DEFAULT) != DEFAULT:
            env.cache.delete(k, retry=True)
        return
    exp, tag = KSTATES[kstate]
    env.put(k, vk, exp, tag)


def by_scenario(env, spec, k, bystanders, fresh):
    """Run one scenario; fresh=True rebuilds everything from an empty container."""
    op, kstate = spec['op'], spec['kstate']
    vk, v2, bvals = by_values(op, len(bystanders))
    if fresh:
        env.clock.set(T_STORE)
        env.cache.clear(retry=True)
    rows = env.rows() if not fresh else {}
    if fresh or env.by_vals != bvals or len(rows) < len(bystanders):
        if not fresh:
            env.clock.set(T_STORE)
            env.cache.clear(retry=True)
        for b, bv, (role, bexp, btag) in zip(bystanders, bvals, ROLES):
            env.put(b, bv, bexp, btag)
        env.by_vals = bvals
        env.by_rows = env.rows()
        if len(env.by_rows) != len(bystanders):
            return [('bystanders_merged', 'storing %d distinct keys %s gave %d entries' % (len(bystanders), short(bystanders), len(env.by_rows)))]
    by_place_k(env, k, kstate, vk)
    before = {rk: r for rk, r in env.rows().items() if rk in env.by_rows}
    if before != env.by_rows:
        return [('foreign_entry_changed:setup', 'storing key %s changed or removed entries of %s' % (short(k), short(bystanders)))]
    env.clock.set(T_OP)
    try:
        outcome = ('ret', by_apply(env, op, k, v2))
    except Exception as e:  # noqa
        outcome = ('exc', type(e).__name__) if isinstance(e, KeyError) else ('exc', type(e).__name__, str(e)[:80])
    if outcome[0] == 'ret' and isinstance(outcome[1], list):
        outcome = ('ret', tuple(outcome[1]))
    problems = by_check(env, spec, before, outcome, k, bystanders, vk, v2, bvals)
    # an expired bystander that lazy culling legitimately dropped is put back for the next scenario
    left = env.rows()
    if any(rk not in left for rk in env.by_rows):
        env.by_vals = None
    return problems


def by_keys(diskname, protocol, nan_reachable=True):
    keys = alphabet(protocol)
    if not nan_reachable:
        # the NaN regression input has already reported that an entry stored under float('nan') cannot be reached by key.  With such a
        # defect Index.setdefault(nan, v) never returns (`while True: try: return cache[key] / except KeyError: cache.add(key, v)` adds a
        # row per round: observed on the unrepaired code, 48 million rows), so NaN is not driven through the operation sweep
        keys = [k for k in keys if not (type(k) is float and k != k)]
    if diskname == 'JSONDisk':
        keys = [k for k in keys if not isinstance(k, (bytes, tuple, frozenset))] + [[1], [1.0], ['a'], 1e16, 10 ** 16]
    return keys


def pick_bystanders(keys, k, j):
    """three pairwise distinct keys, all distinct from k under the documented rule, rotating with j"""
    cands = [b for b in keys if not expected_same(k, b) and not (isinstance(b, list))]
    out = []
    i = j
    while len(out) < len(ROLES) and i < j + 2 * len(cands):
        b = cands[i % len(cands)]
        i += 1
        if not any(expected_same(b, c) or json_same(b, c) for c in out) and not json_same(b, k):
            out.append(b)
    return out


def json_same(a, b):
    """keys the JSONDisk finding C02-F1 is about (numerically equal int/float) are not used as bystanders of one another"""
    num = lambda x: isinstance(x, (int, float)) and not isinstance(x, bool)
    return num(a) and num(b) and a == b


def run_bystanders(ctx, res, thorough, stats, nan_reachable=True):
    st = stats.setdefault('bystander_scenarios', 0)
    clock = instr.Clock(T_STORE)
    with instr.Installed(clock):
        for ci, (container, shards, diskname, cull_limit) in enumerate(BY_CONFIGS):
            if diskname == 'JSONDisk' or (not thorough and container != 'Cache'):
                protos = [pickle.HIGHEST_PROTOCOL]
            else:
                protos = list(range(0, pickle.HIGHEST_PROTOCOL + 1)) if (thorough and ci == 0) else [0, pickle.HIGHEST_PROTOCOL]
            for protocol in protos:
                keys = by_keys(diskname, protocol, nan_reachable)
                env = ByEnv(ctx.scratch('c02by'), container, shards, diskname, cull_limit, protocol, clock)
                env.by_vals = None
                ops = INDEX_OPS if container == 'Index' else [o for o in CACHE_OPS if not (o == 'incr' and diskname == 'JSONDisk')]
                try:
                    for ki, k in enumerate(keys):
                        if isinstance(k, list):
                            continue
                        ncand = len(keys) - 1
                        j0 = (ki * 7 + ctx.seed * 13 + ci * 3 + protocol) % ncand
                        js = range(j0 % 3, ncand, 3) if thorough else [j0, (j0 + ncand // 2) % ncand]
                        for j in js:
                            bystanders = pick_bystanders(keys, k, j)
                            if len(bystanders) < len(ROLES):
                                continue
                            env.by_vals = None
                            for kstate in ('missing', 'live', 'future', 'expired'):
                                for op in ops:
                                    spec = {'check': 'bystanders', 'container': container, 'shards': shards, 'disk': diskname, 'cull_limit': cull_limit,
                                            'protocol': protocol, 'op': op, 'kstate': kstate, 'k': short(k), 'bystanders': [short(b) for b in bystanders],
                                            'k_pickle_hex': pickle.dumps(k, protocol=4).hex(),
                                            'bystanders_pickle_hex': [pickle.dumps(b, protocol=4).hex() for b in bystanders]}
                                    problems = by_scenario(env, spec, k, bystanders, fresh=False)
                                    if problems:
                                        again = by_scenario(env, spec, k, bystanders, fresh=True)
                                        problems = again or problems
                                        env.by_vals = None
                                    stats['bystander_scenarios'] += 1
                                    res.count(['by', container, shards, diskname, cull_limit, protocol, op, kstate, short(k), [short(b) for b in bystanders]], nontrivial=True)
                                    for sig, desc in problems:
                                        res.violations.append(fw.Violation(sig, desc, spec))
                finally:
                    env.close()


def concurrent_identity(ctx, res, stats):
    """Distinct keys never overwrite or shadow each other -- also when two clients work on them at the same time.  Client 0 removes
    key K1 while client 1 removes K1 and stores a DIFFERENT key K2 (which may get K1's old row slot); every placement of client 1
    inside client 0's call is tried and each run must be explainable by the calls executed one at a time (linearizability search
    of C05 with its reference dictionary): in particular K2's entry must survive client 0's removal of K1."""
    import shutil
    import concdrv
    from props import c05
    pairs = [('old', 'new'), ('k', 'K'), (1, 2), (2 ** 63 - 1, 2 ** 63), ('a', 'b' * 3), ('1', 1)]      # (keys the snapshot can carry through JSON)
    runs = 0
    seen = set()
    for k1, k2 in pairs:
        for remover in ('delete', 'delitem', 'pop'):
            for v2 in (5, 'F' + '-' * 40):
                setup = [{'op': 'set', 'key': 'anchor', 'value': 0}, {'op': 'set', 'key': k1, 'value': 'v1'}]
                programs = [[{'op': remover, 'key': k1, 'retry': True} if remover != 'delitem' else {'op': 'delitem', 'key': k1}, {'op': 'get', 'key': k2}],
                            [{'op': 'delete', 'key': k1, 'retry': True}, {'op': 'set', 'key': k2, 'value': v2, 'retry': True}, {'op': 'get', 'key': k2}]]
                seqs = concdrv.solo_events(ctx, programs, settings=c05.SETTINGS, setup=setup)
                for i in range(0, len(seqs[0]) + 1):
                    r = concdrv.run_program(ctx, programs, [0] * i + [1] * 300 + [0] * 300, mode='own', settings=c05.SETTINGS, setup=setup,
                                            max_steps=4000, sleep_advances=False)
                    viol = c05.check_run(r, programs, setup, 'cache', None)
                    shutil.rmtree(r['dir'], ignore_errors=True)
                    runs += 1
                    res.count(['conc-identity', repr(k1), repr(k2), remover, repr(v2)[:8], i], nontrivial=True)
                    for sig, desc in viol[:1]:
                        if sig in c05.EXPECTED_SIGS:
                            continue
                        sig = 'conc_' + sig
                        if sig not in seen:
                            seen.add(sig)
                            res.violations.append(fw.Violation(sig, 'two clients on distinct keys %r / %r: %s' % (k1, k2, desc),
                                                               {'check': 'conc_identity', 'programs': programs, 'setup': setup, 'schedule': r['schedule_used']}))
                if seen:
                    break
    stats['conc_identity_runs'] = runs


# ---------------------------------------------------------------------------
# the same key in another interpreter (hash seeds differ): an entry stored under a key is the entry every other process
# reaches with an equal key, whichever shard routing the container uses

XPROC_CHILD = r"""
import sys, json, pickle, os
sys.path.insert(0, sys.argv[1])
import diskcache
from diskcache import core
assert os.path.realpath(os.path.dirname(os.path.dirname(core.__file__))) == os.path.realpath(sys.argv[1]), core.__file__
mode, kind, directory, shards, expect = sys.argv[2], sys.argv[3], sys.argv[4], int(sys.argv[5]), sys.argv[6]
keys = pickle.loads(bytes.fromhex(sys.stdin.read()))
if kind == 'fanout':
    c = diskcache.FanoutCache(directory, shards=shards, eviction_policy='none')
elif kind == 'index':
    c = diskcache.FanoutCache(directory, shards=shards, eviction_policy='none').index('ix')
else:
    c = diskcache.Cache(directory, eviction_policy='none')
out = {'found': [], 'seed': os.environ.get('PYTHONHASHSEED')}
if mode == 'write':
    for i, k in enumerate(keys):
        c[k] = ('first', i)
else:
    for i, k in enumerate(keys):
        try:
            out['found'].append(list(c[k]) == [expect, i])
        except KeyError:
            out['found'].append(None)
    for i, k in enumerate(keys):          # storing again under the equal key replaces the entry, it does not add one
        c[k] = ('second', i)
    out['again'] = [list(c[k]) == ['second', i] for i, k in enumerate(keys)]
out['len'] = len(c)
out['listed'] = sum(1 for _ in c)
print(json.dumps(out))
"""
XPROC_SEEDS = ['0', '1', '4294967295']


def xproc_keys(protocol):
    """pairwise distinct keys under the documented rule, every type of the alphabet (text keys in number)"""
    out = []
    for k in alphabet(protocol) + ['key-%d' % i for i in range(12)] + ['ключ', 'k' * 70, ('t', 1), ('t', '1')]:
        if type(k) is float and k != k:
            continue                  # NaN: its own regression input
        if not any(expected_same(k, k2) for k2 in out):
            out.append(k)
    return out


def xproc_child(seed, mode, kind, directory, shards, keys, expect='first'):
    import subprocess
    env = dict(os.environ)
    env.update({'PYTHONHASHSEED': seed, 'PYTHONPATH': fw.REPO, 'PYTHONDONTWRITEBYTECODE': '1'})
    p = subprocess.run([fw.PY, '-c', XPROC_CHILD, fw.REPO, mode, kind, directory, str(shards), expect], input=pickle.dumps(keys, protocol=4).hex(),
                       stdout=subprocess.PIPE, stderr=subprocess.PIPE, text=True, env=env, timeout=300)
    if p.returncode != 0:
        raise RuntimeError('child interpreter failed: ' + p.stderr[-800:])
    return json.loads(p.stdout.strip().splitlines()[-1])


def xproc_case(ctx, kind, shards, keys, seeds):
    """-> [(sig, desc, case)]"""
    import shutil
    d = ctx.scratch('c02xp')
    problems = []
    try:
        w = xproc_child(seeds[0], 'write', kind, d, shards, keys)
        base = {'check': 'cross_process', 'kind': kind, 'shards': shards, 'seeds': list(seeds), 'keys_pickle_hex': pickle.dumps(keys, protocol=4).hex()}
        if w['len'] != len(keys) or w['listed'] != len(keys):
            problems.append(('key_alias_on_store', '%s (%d shards): %d pairwise distinct keys stored, len %d, %d listed' % (kind, shards, len(keys), w['len'], w['listed']), base))
        for n, s in enumerate(seeds[1:]):
            o = xproc_child(s, 'read', kind, d, shards, keys, 'first' if n == 0 else 'second')     # every reader stores ('second', i) again
            for i, k in enumerate(keys):
                if o['found'][i] is not True:
                    problems.append(('other_process_misses_key:%s' % type(k).__name__,
                                     '%s (%d shards): key %s stored by the interpreter with hash seed %s is %s in the one with seed %s' % (
                                         kind, shards, short(k), seeds[0], 'not found' if o['found'][i] is None else 'found with another value', s),
                                     dict(base, key=short(k), key_index=i, reader_seed=s)))
                    break
            if o['len'] != len(keys) or o['listed'] != len(keys) or not all(o['again']):
                problems.append(('other_process_duplicates_key', '%s (%d shards): after the interpreter with seed %s stored every key again there are %d entries '
                                 '(%d listed) for %d keys' % (kind, shards, s, o['len'], o['listed'], len(keys)), dict(base, reader_seed=s)))
    finally:
        shutil.rmtree(d, ignore_errors=True)
    return problems


def cross_process_identity(ctx, res, stats, thorough):
    configs = [('fanout', 4), ('index', 3)] + ([('fanout', 7), ('fanout', 2), ('cache', 1), ('index', 8)] if thorough else [])
    keys = xproc_keys(pickle.HIGHEST_PROTOCOL)
    seen = set()
    for kind, shards in configs:
        seeds = XPROC_SEEDS if thorough else [XPROC_SEEDS[ctx.seed % 2], XPROC_SEEDS[2]]
        res.count(['cross-process', kind, shards, tuple(seeds)], nontrivial=True)
        for sig, desc, case in xproc_case(ctx, kind, shards, keys, seeds):
            if sig not in seen:
                seen.add(sig)
                res.violations.append(fw.Violation(sig, desc, case))
    stats['cross_process_configs'] = len(configs)
    stats['cross_process_keys'] = len(keys)


# ---------------------------------------------------------------------------
# the same key through ANOTHER HANDLE on the same directory (pickle round trip, copy, reopen, the parent's pickle for handed-out
# containers): equality of keys decides which entry is addressed, whichever handle the key is given to

HANDLE_HOWS = ['pickle:0', 'pickle:2', 'pickle:highest', 'pickle-twice', 'copy', 'deepcopy', 'reopen', 'parent-pickle']
HANDLE_CONFIGS = [   # (container, shards, disk)
    ('FanoutCache', 3, 'Disk'), ('FanoutCache', 5, 'Disk'), ('FanoutCache', 1, 'Disk'), ('FanoutCache', 11, 'Disk'), ('FanoutCache', 8, 'Disk'),
    ('FanoutCache', 2, 'JSONDisk'), ('Cache', 1, 'Disk'), ('Cache', 1, 'JSONDisk'), ('Index', 1, 'Disk'),
    ('FanoutCache.index', 3, 'Disk'), ('FanoutCache.cache', 5, 'Disk'), ('FanoutCache.deque', 3, 'Disk'), ('Deque', 1, 'Disk'),
]


def handle_open(d, container, shards, diskname, protocol):
    """-> (handle, parent or None)"""
    disk = getattr(diskcache, diskname)
    kw = dict(disk=disk, eviction_policy='none')
    if diskname == 'Disk':
        kw['disk_pickle_protocol'] = protocol
    if container == 'Cache':
        return diskcache.Cache(d, **kw), None
    if container == 'FanoutCache':
        return diskcache.FanoutCache(d, shards=shards, **kw), None
    if container == 'Index':
        return diskcache.Index(d), None
    if container == 'Deque':
        return diskcache.Deque(directory=d), None
    parent = diskcache.FanoutCache(d, shards=shards, **kw)
    sub = container.split('.')[1]
    return {'index': parent.index, 'cache': parent.cache, 'deque': parent.deque}[sub]('sub'), parent


def handle_second(h, parent, d, container, shards, diskname, protocol, how):
    """another handle on what `h` is a handle on -> (handle, [objects to close])"""
    import copy
    if how.startswith('pickle:'):
        p = how.split(':')[1]
        return pickle.loads(pickle.dumps(h, protocol=pickle.HIGHEST_PROTOCOL if p == 'highest' else int(p))), []
    if how == 'pickle-twice':
        mid = pickle.loads(pickle.dumps(h))
        return pickle.loads(pickle.dumps(mid)), [mid]
    if how == 'copy':
        return copy.copy(h), []
    if how == 'deepcopy':
        return copy.deepcopy(h), []
    if how == 'reopen':
        h2, parent2 = handle_open(d, container, shards, diskname, protocol)
        return h2, [parent2] if parent2 is not None else []
    assert how == 'parent-pickle'
    if parent is None:
        return pickle.loads(pickle.dumps(pickle.loads(pickle.dumps(h)))), []
    parent2 = pickle.loads(pickle.dumps(parent))
    sub = container.split('.')[1]
    return {'index': parent2.index, 'cache': parent2.cache, 'deque': parent2.deque}[sub]('sub'), [parent2]


def _close(o):
    try:
        (o.cache if hasattr(o, 'cache') and not hasattr(o, 'close') else o).close()
    except Exception:  # noqa
        pass


def _handle_value(h, k):
    """what handle h answers for key k, as a list; None for a miss; anything else as it came"""
    try:
        got = h[k]
    except KeyError:
        return None
    return list(got) if isinstance(got, (list, tuple)) else got


def handle_keys(diskname, protocol):
    keys = xproc_keys(protocol)
    if diskname == 'JSONDisk':
        keys = [k for k in keys if not isinstance(k, (bytes, tuple, frozenset))]
    return keys


def handle_case(scratch, container, shards, diskname, protocol, how, swap):
    """One directory, two handles A and B (B obtained from A by `how`; swap: B writes first).  Every key of the alphabet stored through the
    first handle is found through the second with its value, listed once, replaced -- not duplicated -- when the second handle stores under
    it, and gone for both once either handle deletes it.  -> [(sig, desc)]"""
    d = scratch('c02h')
    problems = []
    a, parent = handle_open(d, container, shards, diskname, protocol)
    try:
        b, extra = handle_second(a, parent, d, container, shards, diskname, protocol, how)
    except (AssertionError, TypeError, AttributeError) as e:     # this container cannot be duplicated that way (copy.deepcopy of a FanoutCache): no second handle, no claim
        for o in (a, parent):
            if o is not None:
                _close(o)
        return [('<unobtainable>', '%s: %r' % (how, e))]
    w, r = (b, a) if swap else (a, b)
    wn, rn = ('the second handle', 'the original handle') if swap else ('the original handle', 'the second handle (%s)' % how)
    label = '%s%s, %s' % (container, '' if container in ('Cache', 'Index', 'Deque') else ' with %d shards' % shards, diskname)
    try:
        if container.endswith('eque'):
            # positions instead of keys: element i is element i through every handle
            vals = [('first', i) for i in range(7)]
            w.extend(vals)
            if list(r) != vals or len(r) != len(vals):
                problems.append(('second_handle_misses_element', '%s: %d elements appended through %s, %s lists %s' % (label, len(vals), wn, rn, short(list(r)))))
            r[3] = ('second', 3)
            r.append(('second', 7))
            want = vals[:3] + [('second', 3)] + vals[4:] + [('second', 7)]
            if list(w) != want:
                problems.append(('second_handle_duplicates_element', '%s: element 3 replaced and one appended through %s; %s lists %s' % (label, rn, wn, short(list(w)))))
            del r[0]
            w.pop()
            if list(r) != want[1:-1] or list(w) != want[1:-1]:
                problems.append(('second_handle_delete_ineffective', '%s: first element deleted through %s, last popped through %s; they list %s and %s'
                                 % (label, rn, wn, short(list(r)), short(list(w)))))
            return problems
        keys = handle_keys(diskname, protocol)
        n = len(keys)
        for i, k in enumerate(keys):
            w[k] = ['first', i]
        missing = []
        for i, k in enumerate(keys):
            if _handle_value(r, k) != ['first', i] or k not in r:
                missing.append(k)
        if missing:
            k = missing[0]
            problems.append(('second_handle_misses_key:%s' % type(k).__name__, '%s: %d of %d keys stored through %s are not found (or found with another value) '
                             'through %s, e.g. %s' % (label, len(missing), n, wn, rn, short(k))))
        listed = sorted(repr(k) for k in r)
        if len(r) != n or listed != sorted(repr(k) for k in keys):
            problems.append(('second_handle_listing', '%s: %d keys stored through %s; %s has len %d and lists %d keys' % (label, n, wn, rn, len(r), len(listed))))
        for i, k in enumerate(keys):
            r[k] = ['second', i]
        stale = [k for i, k in enumerate(keys) if _handle_value(w, k) != ['second', i]]
        nlisted = sum(1 for _ in w)
        if len(w) != n or nlisted != n or stale:
            problems.append(('second_handle_duplicates_key', '%s: every one of %d keys stored again through %s; %s has len %d, lists %d keys, and %d keys still '
                             'answer with the first value%s' % (label, n, rn, wn, len(w), nlisted, len(stale), ', e.g. %s' % short(stale[0]) if stale else '')))
        for k in keys[0::2]:
            try:
                del r[k]
            except KeyError:
                pass
        survivors = [k for k in keys[0::2] if k in w]
        if survivors or len(w) != n - len(keys[0::2]):
            problems.append(('second_handle_delete_ineffective', '%s: %d keys deleted through %s; %d of them are still present through %s (len %d), e.g. %s'
                             % (label, len(keys[0::2]), rn, len(survivors), wn, len(w), short(survivors[0]) if survivors else '-')))
        for k in keys[1::2]:
            try:
                del w[k]
            except KeyError:
                pass
        if len(r) != 0 or len(w) != 0 or any(True for _ in r):
            problems.append(('second_handle_delete_ineffective', '%s: every key deleted through one handle or the other; len is %d through %s and %d through %s'
                             % (label, len(w), wn, len(r), rn)))
    finally:
        for o in [a, b, parent] + extra:
            if o is not None:
                _close(o)
    return problems


def second_handles(ctx, res, stats, thorough):
    seen = set()
    n = 0
    for ci, (container, shards, diskname) in enumerate(HANDLE_CONFIGS):
        hows = HANDLE_HOWS if thorough else [HANDLE_HOWS[(ci + ctx.seed + j) % len(HANDLE_HOWS)] for j in (0, 3)]
        for hi, how in enumerate(hows):
            for swap in ((False, True) if thorough else (bool((ci + hi + ctx.seed) % 2),)):
                protocol = (0, 2, pickle.HIGHEST_PROTOCOL)[(ci + hi) % 3]
                case = {'check': 'second_handle', 'container': container, 'shards': shards, 'disk': diskname, 'protocol': protocol, 'how': how, 'swap': swap}
                n += 1
                res.count(['second-handle', container, shards, diskname, protocol, how, swap], nontrivial=True)
                try:
                    problems = handle_case(ctx.scratch, container, shards, diskname, protocol, how, swap)
                except Exception as e:  # noqa -- an ordinary operation on in-domain keys through either handle must not raise
                    problems = [('second_handle_op_raised:%s' % type(e).__name__, '%s (%d shards, %s), second handle by %s: storing / looking up / listing / deleting '
                                 'the keys of the alphabet through the two handles raised %r' % (container, shards, diskname, how, e))]
                for sig, desc in problems:
                    if sig == '<unobtainable>':
                        stats.setdefault('second_handle_unobtainable', {})['%s:%s' % (container, how)] = desc[:120]
                        continue
                    if sig not in seen:
                        seen.add(sig)
                        res.violations.append(fw.Violation(sig, desc, case))
    stats['second_handle_cases'] = n


# ---------------------------------------------------------------------------
# JSONDisk and keys JSON cannot represent: such a key is rejected (TypeError: outside the key domain of that disk) or, if a
# disk accepts it, it is a key like any other: its own entry, never the entry of the text that spells it

def json_foreign_keys():
    import datetime, decimal, uuid, fractions
    return [b'abc', b'', frozenset({1}), datetime.date(2020, 1, 2), datetime.datetime(2020, 1, 2, 3, 4, 5), uuid.UUID(int=5),
            decimal.Decimal('1.5'), fractions.Fraction(1, 3), complex(1, 2), range(3), Ellipsis]


def json_unrepresentable(ctx, res, stats):
    d = ctx.scratch('c02ju')
    cache = diskcache.Cache(d, disk=diskcache.JSONDisk, eviction_policy='none')
    rejected = stored = 0
    seen = set()
    try:
        for k in json_foreign_keys():
            for twin in (str(k), repr(k)):
                cache.clear()
                case = {'check': 'json_foreign_key', 'key': repr(k), 'key_pickle_hex': pickle.dumps(k, protocol=4).hex(), 'text_key': twin}
                res.count(['json-foreign', repr(k), twin], nontrivial=True)
                try:
                    cache.set(k, 'K')
                except (TypeError, ValueError):
                    rejected += 1
                    if len(cache) != 0:
                        res.violations.append(fw.Violation('rejected_key_left_entry', 'JSONDisk rejected key %r and yet the cache holds %d entries' % (k, len(cache)), case))
                    continue
                stored += 1
                cache.set(twin, 'T')
                n, gk, gt, it = len(cache), cache.get(k), cache.get(twin), list(cache)
                problems = []
                if not (n == 2 and gk == 'K' and gt == 'T'):
                    problems.append(('key_alias:%s:str' % type(k).__name__, 'JSONDisk: key %r and the text key %r are two keys: expected two entries, observed len=%d '
                                     'get(key)=%r get(text)=%r' % (k, twin, n, gk, gt)))
                if not (it and type(it[0]) is type(k) and it[0] == k):
                    problems.append(('iteration_key_altered', 'JSONDisk: key %r stored, iteration returns %r' % (k, it[:2])))
                for sig, desc in problems:
                    if sig not in seen:
                        seen.add(sig)
                        res.violations.append(fw.Violation(sig, desc, case))
    finally:
        cache.close()
    stats['json_foreign_rejected'] = rejected
    stats['json_foreign_stored'] = stored


def witnesses(res):
    import tempfile, shutil
    d = tempfile.mkdtemp(prefix='c02wit-')
    try:
        j = diskcache.Cache(d, disk=diskcache.JSONDisk)
        j[1] = 'A'
        j[1.0] = 'B'
        res.witnessed['json_int_float'] = len(j) == 2
        j.close()
    finally:
        shutil.rmtree(d, ignore_errors=True)


def nan_key_regression(res):
    """Regression input of the repaired finding C02-F2 (fixed: line in known_findings.txt; nothing is suppressed).  Before the repair a
    float('nan') key was bound as SQL NULL: iteration handed it back as None, no lookup or removal by key reached the entry, every further
    set under NaN added a row, and key-ordered iteration could not page past / never reached NULL keys.  Now: c[nan] = 1; c[7] = 2;
    c[nan] = 3 is TWO entries, NaN is found, listed as NaN by list / reversed / iterkeys (both directions), and removed by del / pop."""
    import tempfile, shutil
    d = tempfile.mkdtemp(prefix='c02wit-')
    try:
        c = diskcache.Cache(d)
        nan = float('nan')
        c[nan] = 1
        c[7] = 2
        c[float('nan')] = 3
        obs = {'len': len(c), 'list': list(c), 'reversed': list(reversed(c)), 'iterkeys': list(c.iterkeys()),
               'iterkeys_reverse': list(c.iterkeys(reverse=True)), 'get': c.get(nan, 'MISSING'), 'contains': nan in c,
               'raw_rows': [(None if k is None else (bytes(k) if isinstance(k, (bytes, memoryview)) else k), r) for k, r in rows_of(d)]}
        isnan = lambda x: type(x) is float and x != x
        two = lambda l: len(l) == 2 and sum(1 for x in l if isnan(x)) == 1 and sum(1 for x in l if type(x) is int and x == 7) == 1
        problems = []
        if obs['len'] != 2 or len(obs['raw_rows']) != 2:
            problems.append(('key_alias:float:float', 'two sets under float(nan) and one under 7 gave %d entries (%d rows)' % (obs['len'], len(obs['raw_rows']))))
        if any(k is None for k, _r in obs['raw_rows']):
            problems.append(('null_database_key', 'the table holds a NULL key: %r' % (obs['raw_rows'],)))
        if not (len(obs['list']) == 2 and isnan(obs['list'][0]) and obs['list'][1] == 7 and two(obs['reversed'])):
            problems.append(('iteration_key_altered', 'list(cache) = %r, reversed = %r; stored keys nan, 7' % (obs['list'], obs['reversed'])))
        if not (two(obs['iterkeys']) and two(obs['iterkeys_reverse']) and
                [repr(x) for x in obs['iterkeys_reverse']] == [repr(x) for x in obs['iterkeys']][::-1]):
            problems.append(('iterkeys_incomplete', 'iterkeys() = %r, iterkeys(reverse=True) = %r; stored keys nan, 7' % (obs['iterkeys'], obs['iterkeys_reverse'])))
        if obs['get'] != 3 or obs['contains'] is not True:
            problems.append(('own_entry_unreachable', 'get(nan) = %r, nan in cache = %r after c[nan] = 3' % (obs['get'], obs['contains'])))
        if not problems:
            try:
                del c[nan]
                after_del = (len(c), list(c))
                c[nan] = 4
                popped = c.pop(float('nan'), 'MISSING')
                after_pop = (len(c), list(c))
            except KeyError as e:
                after_del = after_pop = popped = ('KeyError', repr(e))
            if after_del != (1, [7]) or popped != 4 or after_pop != (1, [7]):
                problems.append(('own_entry_unreachable', 'del c[nan] left %r; c[nan] = 4; pop(nan) = %r left %r' % (after_del, popped, after_pop)))
        c.close()
        case = {'check': 'nan_key_regression', 'history': 'c[nan] = 1; c[7] = 2; c[nan] = 3', 'observed': {k: short(v) for k, v in obs.items()}}
        res.count(['nan-key-regression'], nontrivial=True)
        for sig, desc in problems:
            res.violations.append(fw.Violation(sig, 'float(nan) key (regression input of the repaired finding C02-F2): ' + desc, case))
        return not problems
    finally:
        shutil.rmtree(d, ignore_errors=True)


def run(ctx, big=False):
    res = fw.Result()
    res.rule = ('ordered pairs over an alphabet of ~50 keys (str, bytes incl. bytes equal to other keys\' serialised forms, ints inside/outside int64 '
                'incl. boundaries, floats incl. -0.0/inf/nan/subnormal/2**53/2**63, bool, None, tuples, frozenset): store both, observe len, membership, '
                'get, list(cache), iterkeys against the documented equality rule; model put/db_same/get compared with the rows of the real table. '
                'quick: all numeric x numeric pairs + a seeded sample; thorough: all pairs x all pickle protocols + JSONDisk.  '
                'Bystanders: every key k of the alphabet x own entry {missing, live, live with future expiry and tag, expired} x operation '
                '{get, get with expire_time/tag, in, [], del, delete, pop, pop with expire_time/tag, touch, incr, add, set; Index [], in, get, del, pop, '
                'setdefault, []=} on Cache / FanoutCache (1 and 2 shards) / Index / JSONDisk, with cull_limit 0 and 10, beside three entries under '
                'other keys (rotating through the alphabet): one expiring in the future with a tag, one whose expiry has passed, one plain.  The result '
                'is the one of k alone (never the value of another key), the raw rows of the other entries are unchanged (an expired one may be '
                'culled when cull_limit > 0), and the other keys still answer with their own value, expire_time and tag.  '
                'Other interpreters: ~70 pairwise distinct keys of every type stored through FanoutCache / FanoutCache.index by a fresh interpreter and '
                'looked up, then stored again, by fresh interpreters with other PYTHONHASHSEED: every key found, no entry added.  JSONDisk with keys '
                'JSON cannot represent (bytes, frozenset, date, datetime, UUID, Decimal, Fraction, complex, range, Ellipsis): rejected with TypeError, '
                'or a key of its own beside the text key str(key) / repr(key).  Second handles: the ~70 keys stored through one handle of '
                'FanoutCache (1, 2, 3, 5, 8, 11 shards; Disk / JSONDisk), Cache, Index, and the index / cache / deque a FanoutCache hands out, and looked up, '
                'listed, stored again and deleted through a second handle on the directory obtained by pickle round trip (protocols 0 / 2 / highest, twice), '
                'copy, deepcopy, reopening, or from the pickled parent, in both directions: found, never duplicated, gone for both once deleted (Deque: '
                'positions instead of keys).')
    stats = {'pairs': 0, 'same': 0}
    coqcases = []
    nan_reachable = nan_key_regression(res)      # first: decides whether NaN can be driven through the operation sweep
    thorough = (not ctx.quick) or big
    protos = list(range(0, pickle.HIGHEST_PROTOCOL + 1)) if thorough else [0, pickle.HIGHEST_PROTOCOL]
    for p in protos:
        run_pairs(ctx, res, p, diskcache.Disk, None if thorough else 900, coqcases, stats)
    run_pairs(ctx, res, pickle.HIGHEST_PROTOCOL, diskcache.JSONDisk, None if thorough else 500, coqcases, stats)
    if not ctx.search_mode:
        correspondence(ctx, res, coqcases, 1500 if ctx.quick else 6000)
    import time as _t
    t0 = _t.time()
    run_bystanders(ctx, res, not ctx.quick, stats, nan_reachable)
    concurrent_identity(ctx, res, stats)
    cross_process_identity(ctx, res, stats, not ctx.quick)
    json_unrepresentable(ctx, res, stats)
    second_handles(ctx, res, stats, not ctx.quick)
    res.extra['second_handle_cases'] = stats.get('second_handle_cases')
    res.extra['second_handle_unobtainable'] = stats.get('second_handle_unobtainable')
    res.extra.update({'cross_process_configs': stats.get('cross_process_configs'), 'cross_process_keys': stats.get('cross_process_keys'),
                      'json_foreign_keys_rejected': stats.get('json_foreign_rejected'), 'json_foreign_keys_stored': stats.get('json_foreign_stored')})
    res.extra.update({'pairs': stats['pairs'], 'pairs_expected_same': stats['same'], 'exhaustive': thorough,
                      'bystander_scenarios': stats['bystander_scenarios'], 'concurrent_identity_runs': stats.get('conc_identity_runs'), 'bystander_s': round(_t.time() - t0, 1)})
    witnesses(res)
    return res


def search(ctx, broken):
    return run(ctx, big=True)


def replay(payload):
    case = payload.get('case', {})
    import tempfile, shutil
    d = tempfile.mkdtemp(prefix='c02r-')
    if case.get('check') == 'nan_key_regression':
        shutil.rmtree(d, ignore_errors=True)
        r = fw.Result()
        ok = nan_key_regression(r)
        for v in r.violations:
            print(v.sig, v.desc)
        return ok
    if case.get('check') == 'cross_process':
        shutil.rmtree(d, ignore_errors=True)
        ctx = fw.Ctx('C02', 'quick', 1)
        try:
            problems = xproc_case(ctx, case['kind'], case['shards'], pickle.loads(bytes.fromhex(case['keys_pickle_hex'])), case['seeds'])
        finally:
            ctx.cleanup()
        for sig, desc, _c in problems:
            print(sig, desc)
        return not problems
    if case.get('check') == 'second_handle':
        try:
            problems = handle_case(lambda name: tempfile.mkdtemp(prefix=name + '-', dir=d), case['container'], case['shards'], case['disk'],
                                   case['protocol'], case['how'], case['swap'])
            for sig, desc in problems:
                print(sig, desc)
            return not [p for p in problems if p[0] != '<unobtainable>']
        finally:
            shutil.rmtree(d, ignore_errors=True)
    if case.get('check') == 'json_foreign_key':
        try:
            k = pickle.loads(bytes.fromhex(case['key_pickle_hex']))
            c = diskcache.Cache(d, disk=diskcache.JSONDisk)
            try:
                c.set(k, 'K')
            except (TypeError, ValueError) as e:
                print('rejected:', repr(e))
                return len(c) == 0
            c.set(case['text_key'], 'T')
            it = list(c)
            print('len', len(c), 'get(key)', c.get(k), 'get(text)', c.get(case['text_key']), 'iter', it)
            return len(c) == 2 and c.get(k) == 'K' and c.get(case['text_key']) == 'T' and type(it[0]) is type(k) and it[0] == k
        finally:
            shutil.rmtree(d, ignore_errors=True)
    if case.get('check') == 'bystanders':
        clock = instr.Clock(T_STORE)
        try:
            with instr.Installed(clock):
                env = ByEnv(d, case['container'], case['shards'], case['disk'], case['cull_limit'], case['protocol'], clock)
                env.by_vals = None
                k = pickle.loads(bytes.fromhex(case['k_pickle_hex']))
                bystanders = [pickle.loads(bytes.fromhex(h)) for h in case['bystanders_pickle_hex']]
                problems = by_scenario(env, case, k, bystanders, fresh=True)
                env.close()
            for sig, desc in problems:
                print(sig, desc)
            return not problems
        finally:
            shutil.rmtree(d, ignore_errors=True)
    try:
        a = pickle.loads(bytes.fromhex(case['a_pickle_hex']))
        b = pickle.loads(bytes.fromhex(case['b_pickle_hex']))
        c = diskcache.Cache(d, disk=getattr(diskcache, case.get('disk', 'Disk')), disk_pickle_protocol=case.get('protocol', 5))
        c.set(a, 'A')
        c.set(b, 'B')
        n = len(c)
        print('keys %r %r -> %d entries; expected %s' % (a, b, n, 1 if expected_same(a, b) else 2))
        c.close()
        return n == (1 if expected_same(a, b) else 2)
    finally:
        shutil.rmtree(d, ignore_errors=True)
