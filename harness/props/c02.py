"""C02 -- keys address entries by documented equality and never alias one another."""
import os
import pickle
import pickletools
import sqlite3
import json
import zlib

import fw
import instr
import val
from instr import core, diskcache

ID = 'C02'
COQ_PROP = 'C02'
LEVEL = 'proof'
TRANSLATE = ['disk']
TRUSTED = [
    'coq/base/Val.v: SQLite storage-class order and exact int/real comparison, CPython binding; compared with the UNIQUE(key, raw) index of a real database on every enumerated pair',
    'codec hypothesis: pickletools.optimize(pickle.dumps(k, protocol)) is injective on keys (premise pkk_inj) and pickle.load inverts it; multi-element hash-ordered containers are outside it (C13 finding)',
]
ASSUMPTIONS = ['NaN, unencodable text and streams are outside the key domain']


def alphabet(protocol):
    base = ['', 'a', 'b', 'a\x00', '1', '\xe9', '\U0001F600',
            0, 1, -1, 2 ** 53, 2 ** 53 + 1, 2 ** 63 - 1, -2 ** 63, 2 ** 63, -2 ** 63 - 1, 2 ** 64,
            0.0, -0.0, 1.0, 0.5, 2.0 ** 53, 2.0 ** 63, -2.0 ** 63, 2.0 ** 64, float('inf'), float('-inf'), 5e-324,
            True, False, None, (), (1,), (1.0,), (True,), ('a',), ((1,),), (1, None), frozenset({1}), b'', b'a', b'1', b'\x00']
    out = list(base)
    # bytes keys equal to the serialised form of other keys
    for k in (None, True, (1,), 2 ** 63, 'a'):
        out.append(pickletools.optimize(pickle.dumps(k, protocol=protocol)))
    return out


def native_num(k):
    return (type(k) is int and -2 ** 63 <= k <= 2 ** 63 - 1) or type(k) is float


def expected_same(a, b):
    """The documented rule, written from the property text (independent of the Coq model)."""
    if native_num(a) and native_num(b):
        return a == b
    if native_num(a) or native_num(b):
        return False
    if type(a) is str and type(b) is str:
        return a == b
    if type(a) is bytes and type(b) is bytes:
        return a == b
    if type(a) in (str, bytes) or type(b) in (str, bytes):
        return False
    return val.same(a, b) and struct_same(a, b)


def struct_same(a, b):
    if type(a) is not type(b):
        return False
    if isinstance(a, tuple):
        return len(a) == len(b) and all(struct_same(x, y) for x, y in zip(a, b))
    return val.same(a, b)


def short(v):
    r = repr(v)
    return r if len(r) < 60 else r[:40] + '...'


def rows_of(directory):
    con = sqlite3.connect(os.path.join(directory, 'cache.db'))
    try:
        return con.execute('SELECT key, raw FROM Cache ORDER BY rowid').fetchall()
    finally:
        con.close()


def sig_for(a, b, diskname):
    if diskname == 'JSONDisk' and isinstance(a, (int, float)) and isinstance(b, (int, float)) \
            and not isinstance(a, bool) and not isinstance(b, bool):
        return 'json_int_float'
    return 'key_alias:%s:%s' % (type(a).__name__, type(b).__name__)


def run_pairs(ctx, res, protocol, diskcls, pairs_budget, coqcases, stats):
    d = ctx.scratch('c02')
    diskname = diskcls.__name__
    cache = diskcache.Cache(d, disk=diskcls, disk_pickle_protocol=protocol, eviction_policy='none')
    keys = alphabet(protocol)
    if diskname == 'JSONDisk':
        keys = [k for k in keys if not isinstance(k, (bytes, tuple, frozenset))] + [[1], [1.0], ['a'], 1e16, 10 ** 16]
    pairs = [(a, b) for a in keys for b in keys]
    if pairs_budget and len(pairs) > pairs_budget:
        # keep all class-boundary pairs (numeric x numeric, bytes x anything pickled), sample the rest
        must = [(a, b) for (a, b) in pairs if (isinstance(a, (int, float)) and isinstance(b, (int, float)))]
        rest = [p for p in pairs if p not in must]
        pairs = must + ctx.rng.sample(rest, max(0, pairs_budget - len(must)))
    for (a, b) in pairs:
        cache.clear()
        case = {'check': 'pair', 'disk': diskname, 'protocol': protocol, 'a': short(a), 'b': short(b),
                'a_pickle_hex': pickle.dumps(a, protocol=4).hex(), 'b_pickle_hex': pickle.dumps(b, protocol=4).hex()}
        exp = expected_same(a, b)
        try:
            cache.set(a, 'A')
            cache.set(b, 'B')
            n = len(cache)
            ga, gb = cache.get(a), cache.get(b)
            it = list(cache)
            ik = list(cache.iterkeys())
        except Exception as e:  # an ordinary operation on in-domain keys must not raise
            stats['pairs'] += 1
            res.count(['pair', diskname, protocol, short(a), short(b)], nontrivial=True)
            res.violations.append(fw.Violation('op_raised:%s' % type(e).__name__,
                                               'storing/iterating keys %s and %s raised %r' % (short(a), short(b), e), case))
            continue
        stats['pairs'] += 1
        stats['same'] += int(exp)
        res.count(['pair', diskname, protocol, short(a), short(b)], nontrivial=(a is not b))
        ok = True
        if exp:
            ok = (n == 1 and ga == 'B' and gb == 'B' and len(it) == 1 and val.same(it[0], a) and len(ik) == 1
                  and (a in cache) and (b in cache))
        else:
            ok = (n == 2 and ga == 'A' and gb == 'B' and len(it) == 2 and val.same(it[0], a) and val.same(it[1], b)
                  and sorted(map(repr, ik)) == sorted([repr(a), repr(b)]))
        if diskname == 'JSONDisk':
            # JSON has no tuple/bytes; iteration returns what json.loads returns (lists stay lists)
            pass
        if not ok:
            res.violations.append(fw.Violation(
                sig_for(a, b, diskname),
                'keys %s and %s: expected %s, observed len=%d get(a)=%r get(b)=%r iter=%s' % (
                    short(a), short(b), 'one entry' if exp else 'two entries', n, ga, gb, short(it)), case))
        if diskname == 'Disk':
            coqcases.append((protocol, a, b, n == 1, rows_of(d)))
    cache.close()


def coq_check(case):
    protocol, a, b, one, rows = case
    pa = pickletools.optimize(pickle.dumps(a, protocol=protocol))
    pb = pickletools.optimize(pickle.dumps(b, protocol=protocol))
    head = ('let a := %s in let b := %s in let pa := %s in let pb := %s in '
            'let c := {| pkk := fun k => if pv_same k a then pa else pb; pkv := fun _ => []; '
            'unpk := fun x => if zlist_eqb x pa then Some a else if zlist_eqb x pb then Some b else None |} in '
            % (val.py_term(a), val.py_term(b), fw.cbytes(pa), fw.cbytes(pb)))
    # 1. same entry?  2. the first row is put a  3. iteration decodes it to a
    k0, r0 = rows[0]
    t = ('Bool.eqb (db_same (put c a) (put c b)) %s && '
         'match put c a with PutOk v raw => sql_same v %s && Bool.eqb raw %s && '
         'match get c v raw with Some k => pv_same k a | None => false end | PutRaise => false end'
         % (fw.cbool(one), val.sql_term(k0), fw.cbool(bool(r0))))
    if not one and len(rows) == 2:
        k1, r1 = rows[1]
        t += (' && match put c b with PutOk v raw => sql_same v %s && Bool.eqb raw %s | PutRaise => false end'
              % (val.sql_term(k1), fw.cbool(bool(r1))))
    return head + t


def correspondence(ctx, res, coqcases, limit):
    cases = coqcases if len(coqcases) <= limit else ctx.rng.sample(coqcases, limit)
    checks = [coq_check(c) for c in cases]
    bad, errors = fw.coq_mismatches('c02', ['DCPrelude', 'Val', 'DiskBase', 'Gen_Disk', 'Disk'], '', checks, chunk=150)
    res.traces_validated += len(checks) - len(bad)
    for e in errors:
        res.disagreements.append(fw.Violation('model-eval', 'model evaluation failed: ' + e[-400:], {}, 'correspondence'))
    for i in bad[:5]:
        protocol, a, b, one, rows = cases[i]
        res.disagreements.append(fw.Violation('put_identity', 'model put/db_same disagrees with the database on (%s, %s)' % (short(a), short(b)),
                                              {'protocol': protocol, 'a': short(a), 'b': short(b), 'one_entry': one, 'rows': short(rows)}, 'correspondence'))
    if cases:
        protocol, a, b, one, rows = cases[0]
        res.sample({'a': short(a), 'b': short(b), 'one_entry': one, 'rows(key,raw)': short(rows), 'model_check': checks[0][:300]})


def witnesses(res):
    import tempfile, shutil
    d = tempfile.mkdtemp(prefix='c02wit-')
    try:
        j = diskcache.Cache(d, disk=diskcache.JSONDisk)
        j[1] = 'A'
        j[1.0] = 'B'
        res.witnessed['json_int_float'] = len(j) == 2
        j.close()
    finally:
        shutil.rmtree(d, ignore_errors=True)


def run(ctx, big=False):
    res = fw.Result()
    res.rule = ('ordered pairs over an alphabet of ~50 keys (str, bytes incl. bytes equal to other keys\' serialised forms, ints inside/outside int64 '
                'incl. boundaries, floats incl. -0.0/inf/subnormal/2**53/2**63, bool, None, tuples, frozenset): store both, observe len, membership, '
                'get, list(cache), iterkeys against the documented equality rule; model put/db_same/get compared with the rows of the real table. '
                'quick: all numeric x numeric pairs + a seeded sample; thorough: all pairs x all pickle protocols + JSONDisk.')
    stats = {'pairs': 0, 'same': 0}
    coqcases = []
    thorough = (not ctx.quick) or big
    protos = list(range(0, pickle.HIGHEST_PROTOCOL + 1)) if thorough else [0, pickle.HIGHEST_PROTOCOL]
    for p in protos:
        run_pairs(ctx, res, p, diskcache.Disk, None if thorough else 900, coqcases, stats)
    run_pairs(ctx, res, pickle.HIGHEST_PROTOCOL, diskcache.JSONDisk, None if thorough else 500, coqcases, stats)
    if not ctx.search_mode:
        correspondence(ctx, res, coqcases, 1500 if ctx.quick else 6000)
    res.extra.update({'pairs': stats['pairs'], 'pairs_expected_same': stats['same'], 'exhaustive': thorough})
    witnesses(res)
    return res


def search(ctx, broken):
    return run(ctx, big=True)


def replay(payload):
    case = payload.get('case', {})
    import tempfile, shutil
    d = tempfile.mkdtemp(prefix='c02r-')
    try:
        a = pickle.loads(bytes.fromhex(case['a_pickle_hex']))
        b = pickle.loads(bytes.fromhex(case['b_pickle_hex']))
        c = diskcache.Cache(d, disk=getattr(diskcache, case.get('disk', 'Disk')), disk_pickle_protocol=case.get('protocol', 5))
        c.set(a, 'A')
        c.set(b, 'B')
        n = len(c)
        print('keys %r %r -> %d entries; expected %s' % (a, b, n, 1 if expected_same(a, b) else 2))
        c.close()
        return n == (1 if expected_same(a, b) else 2)
    finally:
        shutil.rmtree(d, ignore_errors=True)
