"""C16 -- memoized functions return what the function returns and never share entries."""
import copy
import enum
import itertools
import os
import pickle

import fw
import instr
from instr import core, diskcache

ID = 'C16'
COQ_PROP = 'C16'
LEVEL = 'proof'
TRANSLATE = ['argskey', 'disk', 'django', 'fanout', 'sql', 'recipes']     # disk: Disk.store / Disk.fetch decide how a result is kept (raw number, text, bytes, pickle)
TRUSTED = [
    'model of cache-key identity: two key tuples address one entry iff their elements are equal including type (what Disk.put does by pickling); checked against Disk.put on every enumerated pair',
    'the abstract store of model/Memo.v stands for Cache.get/set (C03)',
    'harness/sched.py Tracer: the BEGIN statements of the calling thread are counted at the sqlite3 connection factory; the holder connection is released from that hook (single-threaded, deterministic)',
]
ASSUMPTIONS = [
    'wrapped function is deterministic and does not depend on ignored arguments',
    '"exactly what the function returns" is decided as: same type (not merely ==), same repr, equal, member by member inside tuples/lists/dicts; '
    'results are picklable values (None, bool, int, IntEnum / int-subclass / float-subclass instances, 0.0 and -0.0, inf, big ints, str, bytes, containers of these)',
    'no other writer stores under the memo keys',
    'expiry times and clock values are multiples of 2**-10 s (exact in binary64), so "inside the expiry time" is decided without rounding; the wrapped '
    'function takes no virtual time (memoize_stampede measures a duration of 0 and never recomputes early in these runs)',
    'early recomputation of memoize_stampede (stampede_recompute, stampede_marker): random.random and threading.Thread of diskcache.recipes are replaced by a fixed draw and a '
    'thread object that runs its target when the harness says so (at once, or after the probe calls); the wrapped function advances the virtual clock (8 s first run, 1 s recomputation, 2**-6 s other calls)',
    'lock contention: the other client only HOLDS the write lock (BEGIN IMMEDIATE ... COMMIT without writing) and lets go after finitely many failed attempts of the caller; '
    'the retry loop of Cache._transact does not sleep (each failed BEGIN waits the SQLite busy timeout in real time, 2 ms here), so the virtual clock does not advance while waiting',
]

ALPHA = [None, 1, 1.0, True, 'a', 'b', int]
NAMES = ['a', 'b']
TYCODE = {type(None): 0, str: 1, type: 2, int: 10, float: 11, bool: 12}


def el(v):
    if v is None:
        return 'ENone'
    if v is core.ENOVAL:
        return 'EEnoval'
    if isinstance(v, str):
        return '(EStr %s)' % fw.cstr(v)
    if isinstance(v, type):
        return '(EType %s)' % fw.cz(TYCODE[v])
    return '(EObj %s %s)' % (fw.cz(TYCODE[type(v)]), fw.cz(int(v)))


def vis(args, kwargs, ignore):
    va = tuple((type(x).__name__, repr(x)) for i, x in enumerate(args) if i not in ignore)
    vk = tuple(sorted((k, (type(v).__name__, repr(v))) for k, v in kwargs.items() if k not in ignore))
    return (va, vk)


def calls(max_pos, max_kw, rng=None, sample=None):
    out = []
    for n in range(max_pos + 1):
        for a in itertools.product(ALPHA, repeat=n):
            for m in range(max_kw + 1):
                for names in itertools.permutations(NAMES, m):
                    for vals in itertools.product(ALPHA, repeat=m):
                        out.append((a, dict(zip(names, vals))))
    if sample is not None and len(out) > sample:
        out = rng.sample(out, sample)
    return out


CONFIGS = [(typed, ign) for typed in (False, True) for ign in ((), (0,), ('a',), (0, 'a'), (1, 'b'))]


def key_id(disk, key):
    k, raw = disk.put(key)
    return (bytes(k) if not isinstance(k, (str, int, float)) else k, raw)


def frozen_args_to_key(base, args, kwargs, typed, ignore):
    """The pinned release's args_to_key, kept ONLY to delimit the known finding C16-F1: a collision is
    attributed to it iff the released function collides on the same pair of calls."""
    args = tuple(arg for index, arg in enumerate(args) if index not in ignore)
    key = base + args + (None,)
    if kwargs:
        kwargs = {k: v for k, v in kwargs.items() if k not in ignore}
        sorted_items = sorted(kwargs.items())
        for item in sorted_items:
            key += item
    if typed:
        key += tuple(type(arg) for arg in args)
        if kwargs:
            key += tuple(type(value) for _, value in sorted_items)
    return key


def known_collision(c1, c2, typed, ignore):
    k1 = frozen_args_to_key(('f',), c1[0], dict(c1[1]), typed, ignore)
    k2 = frozen_args_to_key(('f',), c2[0], dict(c2[1]), typed, ignore)
    return pickle.dumps(k1) == pickle.dumps(k2)


def sig_of_pair(c1, c2, typed, ignore):
    return 'none_positional' if known_collision(c1, c2, typed, ignore) else 'key_collision'


def sig_of(c1, c2, ignore):
    def pos_none(c):
        return any(x is None for i, x in enumerate(c[0]) if i not in ignore)
    return 'none_positional' if (pos_none(c1) or pos_none(c2)) else 'key_collision'


def enumerate_keys(ctx, res, max_pos, max_kw, sample=None):
    """Monitor: distinct visible arguments => distinct cache keys (on the implementation)."""
    d = ctx.scratch('c16')
    cache = diskcache.Cache(d)
    allcalls = calls(max_pos, max_kw, ctx.rng, sample)
    coqcases = []
    nkeys = 0
    for typed, ign in CONFIGS:
        @cache.memoize(name='f', typed=typed, ignore=ign)
        def f(*args, **kwargs):
            return None
        groups = {}
        for (a, kw) in allcalls:
            key = f.__cache_key__(*a, **kw)
            nkeys += 1
            kid = key_id(cache.disk, key)
            v = vis(a, kw, ign)
            g = groups.setdefault(kid, {})
            if v not in g:
                g[v] = (a, kw)
            res.count(['key', typed, list(map(str, ign)), repr(a), repr(sorted(kw.items()))],
                      nontrivial=bool(a or kw))
            coqcases.append((typed, ign, a, kw, key))
        for kid, g in groups.items():
            if len(g) > 1:
                vs = sorted(g.items(), key=lambda kv: repr(kv[0]))
                c1, c2 = vs[0][1], vs[1][1]
                s = sig_of_pair(c1, c2, typed, ign)
                # prefer a pair of the group that is NOT explained by the known finding
                for (va, ca), (vb, cb) in itertools.combinations(vs, 2):
                    if not known_collision(ca, cb, typed, ign):
                        c1, c2, s = ca, cb, 'key_collision'
                        break
                res.violations.append(fw.Violation(
                    s, 'two calls with different visible arguments share one cache key',
                    {'typed': typed, 'ignore': list(ign), 'call1': [list(map(repr, c1[0])), {k: repr(v) for k, v in c1[1].items()}],
                     'call2': [list(map(repr, c2[0])), {k: repr(v) for k, v in c2[1].items()}], 'check': 'cache_key_pair'}))
    cache.close()
    res.extra['keys_computed'] = nkeys
    return coqcases


def coq_case(typed, ign, a, kw, key):
    ig = '{| ig_pos := %s; ig_names := %s |}' % (
        fw.czlist([i for i in ign if isinstance(i, int)]),
        fw.clist([fw.cstr(n) for n in ign if isinstance(n, str)]))
    kwl = fw.clist(['(%s, %s)' % (fw.cstr(k), el(v)) for k, v in kw.items()])
    return 'key_eqb (args_to_key [EStr %s] %s %s %s %s) %s' % (
        fw.cstr('f'), fw.clist([el(x) for x in a]), kwl, fw.cbool(typed), ig, fw.clist([el(x) for x in key]))


def correspondence(ctx, res, coqcases, limit):
    cases = coqcases if len(coqcases) <= limit else ctx.rng.sample(coqcases, limit)
    checks = [coq_case(*c) for c in cases]
    bad, errors = fw.coq_mismatches('c16', ['DCPrelude', 'ArgsKeyBase', 'Gen_ArgsKey', 'Memo'], '', checks)
    res.traces_validated += len(checks) - len(bad)
    for e in errors:
        res.disagreements.append(fw.Violation('model-eval', 'model evaluation failed: ' + e[-300:], {}, 'correspondence'))
    for i in bad[:5]:
        typed, ign, a, kw, key = cases[i]
        res.disagreements.append(fw.Violation(
            'args_to_key', 'generated args_to_key disagrees with core.args_to_key',
            {'typed': typed, 'ignore': list(map(repr, ign)), 'args': list(map(repr, a)),
             'kwargs': {k: repr(v) for k, v in kw.items()}, 'impl_key': list(map(repr, key))}, 'correspondence'))
    if cases:
        typed, ign, a, kw, key = cases[0]
        res.sample({'call': [list(map(repr, a)), {k: repr(v) for k, v in kw.items()}], 'typed': typed,
                    'ignore': list(map(repr, ign)), 'impl_key': list(map(repr, key)), 'model_check': checks[0][:200]})


# ---------------------------------------------------------------------------
# results: what a memoized function may return


class Color(enum.IntEnum):
    RED = 1
    NONE = 0


class Celsius(float):
    pass


class Count(int):
    pass


RESULTS = [None, 0, '', False, (), 0.0, True, -0.0, b'', 1, 1.0, Color.RED, Color.NONE, Celsius(21.5), Celsius(0.0), Count(3), Count(0),
           2 ** 70, -2 ** 63, float('inf'), 'text', b'\x00\xff', (True, 0, None), (False, -0.0, Color.RED), (Celsius(1.0), Count(1), 1, 1.0, True),
           [True, None, 0], {'ok': True, 'n': Count(2)}, ((), ('',), (b'',)), frozenset({True})]


def fresh_result(i):
    """A new object equal to RESULTS[i] (so that nothing is decided by object identity)."""
    return copy.deepcopy(RESULTS[i % len(RESULTS)])


def same_result(x, y):
    """Exactly the same result: same type (True is not 1, Color.RED is not 1, Celsius(0.0) is not 0.0), same repr (-0.0 is not 0.0), equal."""
    if type(x) is not type(y):
        return False
    if isinstance(x, (tuple, list)):
        return len(x) == len(y) and all(same_result(a, b) for a, b in zip(x, y))
    if isinstance(x, dict):
        return list(x) == list(y) and all(same_result(x[k], y[k]) for k in x) and all(same_result(a, b) for a, b in zip(x, y))
    if isinstance(x, (set, frozenset)):
        return x == y and sorted(map(describe, x)) == sorted(map(describe, y))
    return repr(x) == repr(y) and x == y


def describe(x):
    return '%s:%r' % (type(x).__name__, x)


MEMO_KINDS = ['cache', 'fanout', 'index', 'django', 'stampede']


def result_identity(ctx, res):
    """Every result of the alphabet through every memoizer, typed on and off: the first call (runs the function), two cached hits,
    and a hit after time has passed within the expiry time must each return exactly what the function returns."""
    clock = instr.Clock(1000.0)
    failing = {}
    with instr.Installed(clock):
        for kind in MEMO_KINDS:
            for typed in (False, True):
                for expire in ([None] if kind == 'index' else ['default', 50] if kind == 'django' else [50] if kind == 'stampede' else [None, 50]):
                    d = ctx.scratch('c16i')
                    fac, store_len, close = make_target(kind, d, clock)
                    try:
                        bad = run_result_identity(res, clock, fac, kind, typed, expire, range(len(RESULTS)))
                    finally:
                        close()
                    for sig, i, text in bad:
                        failing.setdefault((sig, kind), []).append((typed, expire, i, text))
    for (sig, kind), items in sorted(failing.items()):
        typed, expire, i, text = items[0]
        res.violations.append(fw.Violation(sig, '%s memoizer: %s (%d result/configuration pairs fail; results affected: %s)' % (
            kind, text, len(items), ', '.join(sorted({describe(RESULTS[x[2]]) for x in items}))[:300]),
            {'check': 'result_identity', 'kind': kind, 'typed': typed, 'expire': expire, 'result_index': i, 'result': describe(RESULTS[i])}))
    res.extra['result_alphabet'] = [describe(v) for v in RESULTS]


def run_result_identity(res, clock, fac, kind, typed, expire, indices):
    ran = {'n': 0}

    def raw(i, scale=1):
        ran['n'] += 1
        return fresh_result(i)
    f = fac(expire, typed, ())(raw)
    bad = []
    clock.set(1000.0)
    for i in indices:
        want = fresh_result(i)
        for rnd in ('first call', 'cached hit', 'second cached hit', 'cached hit 3 s later'):
            if rnd.endswith('later'):
                clock.advance(3)
            before = ran['n']
            try:
                got = f(i)
            except Exception as e:  # noqa: BLE001
                bad.append(('result_raised', i, 'the %s of a function returning %s raised %r' % (rnd, describe(want), e)))
                break
            executed = ran['n'] > before
            res.count(['result', kind, typed, expire, i, rnd], nontrivial=True)
            if not same_result(got, want):
                bad.append(('result_altered:' + ('first_call' if rnd == 'first call' else 'cached_hit'), i,
                            'the %s of a function returning %s returned %s (typed=%r, expire=%r)' % (rnd, describe(want), describe(got), typed, expire)))
                break
            if rnd != 'first call' and executed:
                bad.append(('repeat_recomputed', i, 'the %s of a function returning %s ran the function again (typed=%r, expire=%r)' % (rnd, describe(want), typed, expire)))
                break
    return bad


def run_zero_expiry(res, clock, fac, store_len, kind, typed, expire):
    """An expiry of zero (or below) stores nothing: every call runs the function, returns its result, and leaves no entry."""
    ran = {'n': 0}

    def raw(i, scale=1):
        ran['n'] += 1
        return 'x' * 40000 if i < 0 else fresh_result(i)      # i < 0: a result large enough to be kept in a value file
    f = fac(expire, typed, ())(raw)
    bad = []
    for i in [-1] + list(range(0, len(RESULTS), 4)):
        for rnd in ('first call', 'repeated call'):
            before = ran['n']
            got = f(i)
            res.count(['zero-expiry', kind, typed, expire, i, rnd], nontrivial=True)
            if not same_result(got, raw(i)):
                bad.append(('result_altered:first_call', 'with expire=%r the %s returned %s' % (expire, rnd, describe(got)[:80])))
            elif ran['n'] - before != 2:
                bad.append(('zero_expire_stored', 'with expire=%r the %s was served from the cache' % (expire, rnd)))
            elif store_len() != 0:
                bad.append(('zero_expire_stored', 'with expire=%r the %s left %d entries in the cache' % (expire, rnd, store_len())))
            if bad:
                return bad
    return bad


def zero_expiry(ctx, res):
    clock = instr.Clock(1000.0)
    with instr.Installed(clock):
        for kind, expires in (('cache', [0, -1]), ('fanout', [0, -1]), ('django', [0, -1])):
            for expire in expires:
                for typed in (False, True):
                    d = ctx.scratch('c16z')
                    fac, store_len, close = make_target(kind, d, clock)
                    try:
                        bad = run_zero_expiry(res, clock, fac, store_len, kind, typed, expire)
                    finally:
                        close()
                    for sig, text in bad[:1]:
                        res.violations.append(fw.Violation(sig, '%s memoizer: %s' % (kind, text), {'check': 'zero_expiry', 'kind': kind, 'typed': typed, 'expire': expire}))


# ---------------------------------------------------------------------------
# expiry times that are not whole seconds


TICK = 2.0 ** -10
FRACTIONAL_EXPIRIES = [0.5, 0.25, 2.5, 1.75, 10.125, 299.5, TICK, 1 + TICK]      # seconds, on the 2**-10 grid (exact in binary)
FRACTIONAL_KINDS = ['cache', 'fanout', 'django', 'stampede', 'stampede-fanout']   # every memoizer that takes an expiry (Index.memoize has none)
FRACTIONAL_CALLS = [((1,), {}), ((2,), {'scale': 3})]


def make_expiring(kind, d, clock):
    """make_target, plus memoize_stampede over a FanoutCache"""
    if kind == 'stampede-fanout':
        c = diskcache.FanoutCache(d, shards=3)
        return (lambda expire, typed, ign: diskcache.memoize_stampede(c, expire, name='f', typed=typed, ignore=ign)), (lambda: len(c)), c.close
    return make_target(kind, d, clock)


def inside_offsets(expire):
    """ages strictly inside the stated lifetime, on the clock grid: the same instant, half-way, three quarters, one tick before the end"""
    out = {0.0, expire - TICK}
    for x in (expire / 2, expire * 3 / 4, float(int(expire)), int(expire) + TICK):
        if instr.grid(x):
            out.add(x)
    return sorted(x for x in out if 0 <= x < expire)


def run_fractional_expiry(res, clock, fac, kind, typed, expire, start=1000.0):
    """One decorated function with the expiry time `expire` (seconds, not a whole number).  For each call signature: the first call
    at time t runs the function; a repeated call at every probed age strictly below `expire` is served from the cache (the function
    body does not run) and returns what the function returns; a repeated call one tick after t + expire runs the function again."""
    ran = {'n': 0}

    def raw(i, scale=1):
        ran['n'] += 1
        return ('result', i, scale)
    f = fac(expire, typed, ())(raw)
    bad = []
    for n, (a, kw) in enumerate(FRACTIONAL_CALLS):
        t0 = start + 1000 * n
        want = raw(*a, **kw)
        clock.set(t0)
        before = ran['n']
        got = f(*a, **kw)
        res.count(['fractional', kind, typed, expire, repr(a), repr(kw), 'first'], nontrivial=True)
        if ran['n'] == before:
            bad.append(('phantom_hit', 0.0, 'the first call f%r did not run the function' % ((a, kw),)))
            break
        if not same_result(got, want):
            bad.append(('result_altered:first_call', 0.0, 'the first call f%r returned %s' % ((a, kw), describe(got))))
            break
        for age in inside_offsets(expire):
            clock.set(t0 + age)
            before = ran['n']
            got = f(*a, **kw)
            res.count(['fractional', kind, typed, expire, repr(a), repr(kw), age], nontrivial=True)
            if ran['n'] > before:
                bad.append(('repeat_recomputed:fractional_expiry', age,
                            'f%r was computed at t=%r with an expiry time of %r s; the repeated call %r s later (inside the expiry time) ran the '
                            'function again' % ((a, kw), t0, expire, age)))
                break
            if not same_result(got, want):
                bad.append(('result_altered:cached_hit', age, 'the repeated call f%r %r s after the first returned %s, the function returns %s' % (
                    (a, kw), age, describe(got), describe(want))))
                break
        if bad:
            break
        clock.set(t0 + expire + TICK)
        before = ran['n']
        got = f(*a, **kw)
        res.count(['fractional', kind, typed, expire, repr(a), repr(kw), 'after'], nontrivial=True)
        if ran['n'] == before:
            bad.append(('served_after_expiry', expire + TICK,
                        'f%r was computed at t=%r with an expiry time of %r s; the call %r s later (after the expiry time) was still served '
                        'from the cache' % ((a, kw), t0, expire, expire + TICK)))
            break
    return bad


def fractional_expiry(ctx, res, expiries=None):
    """Every memoizer that takes an expiry x typed x expiry times with a fractional part (below one second, n + fraction, one tick)."""
    clock = instr.Clock(1000.0)
    found = {}
    n = 0
    with instr.Installed(clock):
        for kind in FRACTIONAL_KINDS:
            for expire in (expiries or FRACTIONAL_EXPIRIES):
                for typed in (False, True):
                    d = ctx.scratch('c16f')
                    fac, _, close = make_expiring(kind, d, clock)
                    n += 1
                    try:
                        bad = run_fractional_expiry(res, clock, fac, kind, typed, expire)
                    except Exception as e:  # noqa: BLE001
                        bad = [('fractional_expiry_raised', 0.0, 'a call of the function memoized with an expiry time of %r s raised %r' % (expire, e))]
                    finally:
                        close()
                    for sig, age, text in bad:
                        found.setdefault((sig, kind), []).append((typed, expire, age, text))
    for (sig, kind), items in sorted(found.items()):
        typed, expire, age, text = items[0]
        res.violations.append(fw.Violation(sig, '%s memoizer, typed=%r: %s (%d configurations of this memoizer fail; expiry times affected: %s)' % (
            kind, typed, text, len(items), ', '.join(sorted({repr(x[1]) for x in items}))),
            {'check': 'fractional_expiry', 'kind': kind, 'typed': typed, 'expire': expire, 'age': age}))
    res.extra['fractional_expiry_functions'] = n


# ---------------------------------------------------------------------------
# wrapper behaviour on the implementation


def make_target(kind, d, clock):
    """Returns (decorator_factory(expire, typed, ignore), store_len())."""
    if kind == 'cache':
        c = diskcache.Cache(d)
        return (lambda expire, typed, ign: c.memoize(name='f', typed=typed, expire=expire, ignore=ign)), (lambda: len(c)), c.close
    if kind == 'fanout':
        c = diskcache.FanoutCache(d, shards=3)
        return (lambda expire, typed, ign: c.memoize(name='f', typed=typed, expire=expire, ignore=ign)), (lambda: len(c)), c.close
    if kind == 'index':
        c = diskcache.Index(d)
        return (lambda expire, typed, ign: c.memoize(name='f', typed=typed, ignore=ign)), (lambda: len(c)), c.cache.close
    if kind == 'django':
        from django.conf import settings
        if not settings.configured:
            settings.configure()
        from diskcache.djangocache import DjangoCache
        from django.core.cache.backends.base import DEFAULT_TIMEOUT
        c = DjangoCache(d, {'SHARDS': 2})

        def fac(expire, typed, ign):
            t = DEFAULT_TIMEOUT if expire == 'default' else expire
            return c.memoize(name='f', timeout=t, typed=typed, ignore=ign)
        return fac, (lambda: len(c._cache)), c.close
    if kind == 'stampede':
        c = diskcache.Cache(d)
        return (lambda expire, typed, ign: diskcache.memoize_stampede(c, expire if expire else 100, name='f', typed=typed, ignore=ign)), (lambda: len(c)), c.close
    raise ValueError(kind)


def wrapper_runs(ctx, res, nhist, hist_len):
    clock = instr.Clock(1000.0)
    kinds = MEMO_KINDS
    hist_kinds = {}
    altered = {}
    pool = calls(2, 1)
    with instr.Installed(clock, extra_modules=[]):
        import diskcache.recipes as rec
        for h in range(nhist):
            kind = kinds[h % len(kinds)]
            typed, ign = CONFIGS[ctx.rng.randrange(len(CONFIGS))]
            expire = ctx.rng.choice([None, 5, 0, None, 5])
            if kind == 'index':
                expire = None
            if kind == 'django':
                expire = ctx.rng.choice(['default', None, 5, 0, -1])
            if kind == 'stampede':
                expire = 5
            d = ctx.scratch('c16w')
            fac, store_len, close = make_target(kind, d, clock)
            counter = {'n': 0}

            def result_for(args, kwargs):
                # three of five visible-argument classes return a value of the result alphabet (falsy values: a wrapper that
                # tests the cached result for truth or for None would recompute those on every call; bools, enum members,
                # int/float subclasses, -0.0: a store that keeps only the number would hand back another type)
                r = repr(vis(args, kwargs, ign))
                h = sum(map(ord, r))
                return fresh_result(h // 5) if h % 5 < 3 else r

            def raw(*args, **kwargs):
                counter['n'] += 1
                return result_for(args, kwargs)
            f = fac(expire, typed, ign)(raw)
            stored_by = {}
            before_store_ok = {}
            ran_for_vis = {}            # visible arguments -> (time the function last ran for them, that call)
            clock.set(1000.0)
            last_store = {}
            trace = []
            for step in range(hist_len):
                a, kw = pool[ctx.rng.randrange(len(pool))] if ctx.rng.random() < 0.7 or not trace else trace[ctx.rng.randrange(len(trace))]
                if ctx.rng.random() < 0.3:
                    clock.advance(ctx.rng.choice([1, 2, 4]))
                before = counter['n']
                got = f(*a, **kw)
                ran = counter['n'] > before
                want = result_for(a, kw)
                trace.append((a, kw))
                key = f.__cache_key__(*a, **kw)
                kid = repr(key)
                case = {'check': 'wrapper', 'kind': kind, 'typed': typed, 'ignore': list(map(repr, ign)), 'expire': expire,
                        'calls': [[list(map(repr, x)), {k: repr(v) for k, v in y.items()}] for x, y in trace[-6:]]}
                res.count(['wrap', kind, typed, repr(ign), expire, repr(a), repr(sorted(kw.items())), ran], nontrivial=True)
                if not same_result(got, want):
                    first = stored_by.get(kid, (a, kw))
                    if vis(first[0], first[1], ign) == vis(a, kw, ign):
                        # the entry was stored by a call with these very (visible) arguments: not a shared entry, the result itself came back changed
                        altered[kind] = altered.get(kind, 0) + 1
                        if altered[kind] <= 1:
                                res.violations.append(fw.Violation('result_altered:' + ('first_call' if ran else 'cached_hit'),
                                                               'memoized call (%s) returned %s, the function returns %s' % (
                                                                   'function ran' if ran else 'served from the cache', describe(got), describe(want)),
                                                               dict(case, got=describe(got), want=describe(want))))
                    else:
                        res.violations.append(fw.Violation(sig_of_pair(first, (a, kw), typed, ign),
                                                           'memoized call returned another call\'s result: got %s want %s' % (describe(got), describe(want)), case))
                stores = (expire is None or expire == 'default' or (isinstance(expire, int) and expire > 0))
                prev = before_store_ok.get(kid)
                if ran and prev is not None and stores and kind != 'stampede':
                    # stored earlier by this wrapper: was it still within its expiry time?
                    ttl = 5 if (isinstance(expire, int) and not isinstance(expire, bool)) else (300 if expire == 'default' else None)
                    age = clock.now - prev
                    if ttl is None or age < ttl:
                        res.violations.append(fw.Violation('repeat_recomputed', 'a repeated call within the expiry time ran the function again (result %r)' % (want,), case))
                # the same decided from the ARGUMENTS alone (not from the key the implementation derives from them): the function ran
                # for these visible arguments before, possibly in a call with other values in ignored positions / keyword names
                v = vis(a, kw, ign)
                seen = ran_for_vis.get(v)
                if ran and prev is None and seen is not None and stores and kind != 'stampede':
                    ttl = 5 if (isinstance(expire, int) and not isinstance(expire, bool)) else (300 if expire == 'default' else None)
                    if ttl is None or clock.now - seen[0] < ttl:
                        differs = enc_call(*seen[1]) != enc_call(a, kw)          # by repr: (1, True) == (1, 1.0) in Python
                        res.violations.append(fw.Violation(
                            'ignored_argument_recomputed' if differs else 'repeat_recomputed',
                            'a call that %s an earlier call (%r, %r) ran the function again within the expiry time' % (
                                'differs only in ignored arguments %r from' % (ign,) if differs else 'repeats', seen[1][0], seen[1][1]),
                            dict(case, check='ignored_arguments', calls=[enc_call(*seen[1]), enc_call(a, kw)])))
                if ran:
                    ran_for_vis[v] = (clock.now, (a, kw))
                if ran:
                    stored_by.setdefault(kid, (a, kw))
                    before_store_ok[kid] = clock.now
                    last_store[kid] = clock.now
                # repeat within ttl must not run f again
                if not ran and kid not in last_store:
                    res.violations.append(fw.Violation('phantom_hit', 'wrapper served a call that was never computed', case))
                if not stores and kind in ('cache', 'fanout', 'django'):
                    if store_len() != 0:
                        res.violations.append(fw.Violation('zero_expire_stored', 'expire<=0 stored an entry', case))
            # explicit repeat test: same call twice at one instant
            a, kw = ((1, 'a'), {'b': 2.5})
            c0 = counter['n']
            f(*a, **kw)
            c1 = counter['n']
            f(*a, **kw)
            c2 = counter['n']
            stores = (expire is None or expire == 'default' or (isinstance(expire, int) and expire > 0))
            if stores and c2 != c1:
                res.violations.append(fw.Violation('repeat_recomputed', 'repeated call within expiry ran the function again',
                                                   {'check': 'repeat', 'kind': kind, 'expire': expire}))
            if not stores and c2 == c1:
                res.violations.append(fw.Violation('zero_expire_stored', 'expire<=0 served from cache',
                                                   {'check': 'repeat', 'kind': kind, 'expire': expire}))
            hist_kinds[kind] = hist_kinds.get(kind, 0) + 1
            close()
    res.extra['wrapper_histories_by_kind'] = hist_kinds


def enc_call(a, kw):
    return [list(map(repr, a)), {k: repr(v) for k, v in kw.items()}]


def dec_value(text):
    return int if text == repr(int) else eval(text, {'int': int, 'inf': float('inf')})      # noqa: S307 (reprs written by this module)


def dec_call(call):
    return tuple(dec_value(x) for x in call[0]), {k: dec_value(v) for k, v in call[1].items()}


# ---------------------------------------------------------------------------
# ignored arguments: calls that differ only in ignored positions / keyword names are ONE call for the memo table


IGN_BASES = [(a, kw) for n in range(3) for a in itertools.product([1, 'a', None], repeat=n)
             for kw in ({}, {'a': 1}, {'b': 'b'}, {'b': 1, 'a': None})]
IGN_OTHER = [1.0, 'zz']        # what an ignored argument is changed to (another value, another type)


def ignored_variants(a, kw, ign):
    """Calls that differ from (a, kw) only in ignored arguments: another value (of another type) in an ignored position or under
    an ignored keyword name, an ignored trailing position / keyword name present or absent."""
    out = []
    for i in ign:
        if isinstance(i, int):
            if i < len(a):
                out.extend((a[:i] + (o,) + a[i + 1:], dict(kw)) for o in IGN_OTHER if describe(o) != describe(a[i]))
                if i == len(a) - 1:
                    out.append((a[:i], dict(kw)))
            elif i == len(a):
                out.append((a + (IGN_OTHER[1],), dict(kw)))
        elif i in kw:
            out.extend((a, dict(kw, **{i: o})) for o in IGN_OTHER)
            out.append((a, {k: v for k, v in kw.items() if k != i}))
        else:
            out.append((a, dict(kw, **{i: IGN_OTHER[0]})))
    return out


def ignore_result(a, kw, ign):
    """What the wrapped function returns: decided by the visible arguments alone (ASSUMPTIONS: it does not depend on ignored ones)."""
    r = repr(vis(a, kw, ign))
    h = sum(map(ord, r))
    return fresh_result(h // 3) if h % 3 == 0 else r


def run_ignored(res, clock, fac, kind, typed, ign, expire, sequence, advance=0):
    """Monitor over one decorated function and a sequence of calls: once the function has run for some visible arguments, every
    further call with the same visible arguments (whatever the ignored ones are) is served from the cache -- the function body does
    not run -- and returns what the function returns.  (Calls with DIFFERENT visible arguments sharing an entry are the business
    of enumerate_keys / wrapper_runs and are skipped here.)"""
    counter = {'n': 0}

    def raw(*args, **kwargs):
        counter['n'] += 1
        return ignore_result(args, kwargs, ign)
    f = fac(expire, typed, ign)(raw)
    seen = {}           # visible arguments -> the call the function ran for
    stored_by = {}      # implementation key -> the call that stored it
    bad = []
    for a, kw in sequence:
        if advance:
            clock.advance(advance)
        v = vis(a, kw, ign)
        before = counter['n']
        try:
            got = f(*a, **kw)
        except Exception as e:  # noqa: BLE001
            bad.append(('ignored_argument_raised', seen.get(v, (a, kw)), (a, kw), 'the call raised %r' % (e,)))
            break
        ran = counter['n'] > before
        res.count(['ignored', kind, typed, repr(ign), expire, repr(a), repr(sorted(kw.items()))], nontrivial=True)
        try:
            kid = repr(f.__cache_key__(*a, **kw))
        except Exception:  # noqa: BLE001
            kid = None
        first = seen.get(v)
        if ran:
            stored_by[kid] = (a, kw)
        if first is None:
            if ran:
                seen[v] = (a, kw)
            continue
        want = ignore_result(a, kw, ign)
        same_call = enc_call(*first) == enc_call(a, kw)             # by repr: (1, True) == (1, 1.0) in Python
        rel = 'repeats' if same_call else 'differs only in ignored arguments %r from' % (ign,)
        if ran:
            bad.append(('repeat_recomputed' if same_call else 'ignored_argument_recomputed', first, (a, kw),
                        'the call f%r %s the earlier call f%r and ran the function again' % ((a, kw), rel, first)))
            break
        storer = stored_by.get(kid, first)
        if vis(storer[0], storer[1], ign) == v and not same_result(got, want):
            bad.append(('result_altered:cached_hit' if same_call else 'ignored_argument_result', first, (a, kw),
                        'the call f%r %s the earlier call f%r and returned %s, the function returns %s' % (
                            (a, kw), rel, first, describe(got), describe(want))))
            break
    return bad


def ignored_arguments(ctx, res, nbases):
    """Every memoizer x typed x every non-empty ignore set: base calls, then their variants in ignored arguments, then the base again."""
    clock = instr.Clock(1000.0)
    bases = IGN_BASES if nbases >= len(IGN_BASES) else ctx.rng.sample(IGN_BASES, nbases)
    found = {}
    ncalls = 0
    with instr.Installed(clock):
        for kind in MEMO_KINDS:
            for typed, ign in CONFIGS:
                if not ign:
                    continue
                expire = None if kind in ('index', 'cache', 'fanout') else 'default' if kind == 'django' else 50
                if typed and kind in ('cache', 'fanout'):
                    expire = 50
                d = ctx.scratch('c16g')
                fac, _, close = make_target(kind, d, clock)
                clock.set(1000.0)
                sequence = []
                for a, kw in bases:
                    sequence.append((a, kw))
                    sequence.extend(ignored_variants(a, kw, ign))
                    sequence.append((a, kw))
                ncalls += len(sequence)
                try:
                    bad = run_ignored(res, clock, fac, kind, typed, ign, expire, sequence)
                finally:
                    close()
                for sig, first, call, text in bad:
                    found.setdefault((sig, kind), []).append((typed, ign, expire, first, call, text))
    for (sig, kind), items in sorted(found.items()):
        typed, ign, expire, first, call, text = items[0]
        res.violations.append(fw.Violation(sig, '%s memoizer, typed=%r, ignore=%r: %s (%d configurations of this memoizer fail)' % (
            kind, typed, ign, text, len(items)),
            {'check': 'ignored_arguments', 'kind': kind, 'typed': typed, 'ignore': list(map(repr, ign)), 'expire': expire,
             'calls': [enc_call(*first), enc_call(*call)]}))
    res.extra['ignored_argument_calls'] = ncalls


# ---------------------------------------------------------------------------
# a repeated call while another client of the cache directory holds the write lock


CONTENTION_MODES = {
    'default': {},
    'statistics': {'statistics': True},
    'lru': {'eviction_policy': 'least-recently-used'},
    'lfu': {'eviction_policy': 'least-frequently-used'},
}
CONTENTION_KINDS = ['cache', 'fanout', 'django', 'index', 'stampede', 'stampede-fanout']
CONTENTION_TIMEOUT = 0.002      # SQLite busy timeout of the memoizer's connections (seconds of REAL time per failed BEGIN)
CONTENTION_CALLS = [((1,), {}), (('a', None), {'b': 1.0}), ((), {'a': True}), ((1.0, int), {})]


def make_contended(kind, d, mode):
    """Memoizer of `kind` over directory d with the settings of `mode`: (decorator_factory(name, expire, typed, ignore), close).
    Must be called with the tracer installed so that the connections are traced."""
    settings = dict(CONTENTION_MODES[mode])
    if kind in ('cache', 'index', 'stampede'):
        c = diskcache.Cache(d, timeout=CONTENTION_TIMEOUT, **settings)
        if kind == 'cache':
            return (lambda name, expire, typed, ign: c.memoize(name=name, typed=typed, expire=expire, ignore=ign)), c.close
        if kind == 'index':
            ix = diskcache.Index.fromcache(c)
            return (lambda name, expire, typed, ign: ix.memoize(name=name, typed=typed, ignore=ign)), c.close
        return (lambda name, expire, typed, ign: diskcache.memoize_stampede(c, expire or 100, name=name, typed=typed, ignore=ign)), c.close
    if kind in ('fanout', 'stampede-fanout'):
        c = diskcache.FanoutCache(d, shards=3, timeout=CONTENTION_TIMEOUT, **settings)
        if kind == 'fanout':
            return (lambda name, expire, typed, ign: c.memoize(name=name, typed=typed, expire=expire, ignore=ign)), c.close
        return (lambda name, expire, typed, ign: diskcache.memoize_stampede(c, expire or 100, name=name, typed=typed, ignore=ign)), c.close
    if kind == 'django':
        from django.conf import settings as dj
        if not dj.configured:
            dj.configure()
        from diskcache.djangocache import DjangoCache
        c = DjangoCache(d, {'SHARDS': 2, 'DATABASE_TIMEOUT': CONTENTION_TIMEOUT, 'OPTIONS': settings})
        return (lambda name, expire, typed, ign: c.memoize(name=name, timeout=expire, typed=typed, ignore=ign)), c.close
    raise ValueError(kind)


def database_files(d):
    return sorted(os.path.join(root, n) for root, _, names in os.walk(d) for n in names if n == 'cache.db')


def run_contention(res, fac, d, tracer, hook, kind, mode, phase, k, name, typed, ign, expire, call):
    """One decorated function, one call signature.  phase 'repeat': the function has run and a repeated call was served from the
    cache; then ANOTHER connection takes the write lock of every database of the directory and keeps it through k failed
    BEGIN attempts of the calling thread (released right before attempt k+1) while the call is repeated again.  phase 'first':
    the lock is held like that during the FIRST call (the one that stores), the repeated calls follow without contention.
    In both, every repeated call is served from the cache (the function body does not run) and returns what the function returns."""
    import sqlite3
    a, kw = call
    counter = {'n': 0}

    def raw(*args, **kwargs):
        counter['n'] += 1
        return ignore_result(args, kwargs, ign)
    f = fac(name, expire, typed, ign)(raw)
    want = ignore_result(a, kw, ign)
    bad = []

    def one(label, contended):
        holders = []
        before = counter['n']
        err = None
        got = None
        try:
            if contended:
                for db in database_files(d):
                    h = sqlite3.connect(db, isolation_level=None, timeout=0)
                    h.execute('BEGIN IMMEDIATE')
                    holders.append(h)
                hook['begins'] = 0
                hook['release_at'] = k + 1
                hook['holders'] = holders
                tracer.enable(True)
            try:
                got = f(*a, **kw)
            except Exception as e:  # noqa: BLE001
                err = e
            finally:
                tracer.enable(False)
        finally:
            hook['holders'] = []
            for h in holders:
                if h.in_transaction:
                    h.execute('ROLLBACK')
                h.close()
        res.count(['contention', kind, mode, phase, k, typed, repr(ign), repr(a), repr(sorted(kw.items())), label], nontrivial=True)
        return got, err, counter['n'] > before, (hook.get('begins', 0) if contended else 0)

    steps = ([('first call', False), ('repeated call', False), ('repeated call under contention', True), ('repeated call afterwards', False)]
             if phase == 'repeat' else
             [('first call under contention', True), ('repeated call', False), ('second repeated call', False)])
    for n, (label, contended) in enumerate(steps):
        got, err, ran, begins = one(label, contended)
        waited = (' (the other connection kept the write lock through %d failed BEGIN attempt(s) of the caller, %d attempted)' % (k, begins)) if contended else ''
        if err is not None:
            bad.append(('contention_raised', 'the %s%s raised %r' % (label, waited, err)))
            break
        if not same_result(got, want):
            bad.append(('result_altered:lock_contention', 'the %s%s returned %s, the function returns %s' % (label, waited, describe(got), describe(want))))
            break
        if n == 0 and not ran:
            bad.append(('phantom_hit', 'the %s did not run the function' % label))
            break
        if n > 0 and ran:
            if contended:
                bad.append(('repeat_recomputed:lock_contention', 'the %s%s ran the function again instead of waiting for the lookup' % (label, waited)))
            elif phase == 'first':
                bad.append(('repeat_recomputed:stored_under_contention', 'the %s ran the function again: the result of the first call, computed while '
                            'another connection kept the write lock through %d failed BEGIN attempt(s), was not stored' % (label, k)))
            else:
                bad.append(('repeat_recomputed', 'the %s ran the function again' % label))
            break
    return bad


def contention_case(ctx_scratch, res, kind, mode, jobs):
    """Runs jobs = [(phase, k, typed, ign, expire, call)] on one memoizer (a fresh function name per job)."""
    import sched
    clock = instr.Clock(1000.0)
    hook = {'begins': 0, 'release_at': 0, 'holders': []}

    def before(ev):
        if ev.kind == 'sql' and ev.what == 'BEGIN':
            hook['begins'] += 1
            if hook['begins'] == hook['release_at']:
                for h in hook['holders']:
                    if h.in_transaction:
                        h.execute('COMMIT')
    tracer = sched.Tracer(before=before)
    out = []
    d = ctx_scratch()
    with instr.Installed(clock), tracer:
        fac, close = make_contended(kind, d, mode)
        try:
            for n, (phase, k, typed, ign, expire, call) in enumerate(jobs):
                bad = run_contention(res, fac, d, tracer, hook, kind, mode, phase, k, 'f%d' % n, typed, ign, expire, call)
                out.append(bad)
        finally:
            tracer.enable(False)
            close()
    return out


def lock_contention(ctx, res, ncalls):
    """Every memoizer x {default settings, statistics, least-recently-used, least-frequently-used} (with the last three a lookup
    needs the write lock) x {lock held during a repeated call, during the first call} x k in {1, 3} failed attempts."""
    found = {}
    n = 0
    for kind in CONTENTION_KINDS:
        for mode in CONTENTION_MODES:
            jobs = []
            for phase in ('repeat', 'first'):
                for k in (1, 3):
                    for call in (CONTENTION_CALLS if ncalls >= len(CONTENTION_CALLS) else ctx.rng.sample(CONTENTION_CALLS, ncalls)):
                        typed, ign = CONFIGS[ctx.rng.randrange(len(CONFIGS))]
                        expire = None if kind == 'index' else ctx.rng.choice([None, 50])
                        jobs.append((phase, k, typed, ign, expire, call))
            n += len(jobs)
            outs = contention_case(lambda: ctx.scratch('c16l'), res, kind, mode, jobs)
            for job, bad in zip(jobs, outs):
                for sig, text in bad:
                    found.setdefault((sig, kind), []).append((mode, job, text))
    for (sig, kind), items in sorted(found.items()):
        mode, (phase, k, typed, ign, expire, call), text = items[0]
        res.violations.append(fw.Violation(sig, '%s memoizer, %s settings: %s (%d cases of this memoizer fail, settings: %s)' % (
            kind, mode, text, len(items), ', '.join(sorted({x[0] for x in items}))),
            {'check': 'lock_contention', 'kind': kind, 'mode': mode, 'phase': phase, 'failed_attempts': k, 'typed': typed,
             'ignore': list(map(repr, ign)), 'expire': expire, 'call': enc_call(*call)}))
    res.extra['lock_contention_cases'] = n


def stampede_guard(ctx, res):
    """thread_key used by memoize_stampede never equals a memo key."""
    d = ctx.scratch('c16s')
    c = diskcache.Cache(d)
    clock = instr.Clock(1000.0)
    with instr.Installed(clock):
        @diskcache.memoize_stampede(c, 10, name='f')
        def f(*a, **k):
            return repr((a, k))
        keys = set()
        for a, kw in calls(2, 1):
            keys.add(key_id(c.disk, f.__cache_key__(*a, **kw)))
        for a, kw in calls(2, 1):
            k = f.__cache_key__(*a, **kw)
            res.count(['guard', repr(a), repr(kw)], nontrivial=False)
            if key_id(c.disk, k + (core.ENOVAL,)) in keys:
                res.violations.append(fw.Violation('stampede_guard_collides', 'recompute guard key equals a memo key',
                                                   {'check': 'stampede_guard', 'call': repr((a, kw))}))
    c.close()


def stampede_recompute(ctx, res):
    """memoize_stampede's early recomputation: a hit close to expiry starts a thread that recomputes func(*args, **kwargs)
    and stores it under the same key.  The random draw and the thread are made deterministic (the draw is forced, the
    thread runs synchronously); the function advances the virtual clock so that its measured duration is not zero."""
    import types
    import diskcache.recipes as rec
    d = ctx.scratch('c16e')
    c = diskcache.Cache(d)
    clock = instr.Clock(1000.0)
    draw = [0.999]

    class SyncThread:
        daemon = False

        def __init__(self, target=None, args=(), kwargs=None, **_):
            self._t, self._a, self._k = target, args, kwargs or {}

        def start(self):
            self._t(*self._a, **self._k)
    saved = (rec.random, rec.threading)
    rec.random = types.SimpleNamespace(random=lambda: draw[0])
    rec.threading = types.SimpleNamespace(Thread=SyncThread)
    try:
        with instr.Installed(clock):
            for typed, ign in CONFIGS[:3]:
                ncalls = [0]

                def g(*a, **k):
                    ncalls[0] += 1
                    clock.set(clock.time() + 1.0)
                    return repr((vis(a, k, ign), 'x'))
                f = rec.memoize_stampede(c, 100, name='g%d' % CONFIGS.index((typed, ign)), typed=typed, ignore=ign)(g)
                for a, kw in calls(2, 1):
                    want = repr((vis(a, kw, ign), 'x'))
                    before = ncalls[0]
                    try:
                        draw[0] = 0.999
                        r1 = f(*a, **kw)            # miss (or a hit on an entry of an equal-visible call)
                        draw[0] = 1e-300
                        r2 = f(*a, **kw)            # hit that triggers the early recomputation
                        draw[0] = 0.999
                        r3 = f(*a, **kw)            # hit on the recomputed entry
                    except Exception as e:  # noqa
                        res.violations.append(fw.Violation('stampede_recompute_raised', 'memoize_stampede raised %r' % e,
                                                           {'check': 'stampede_recompute', 'call': repr((a, kw)), 'typed': typed, 'ignore': list(map(repr, ign))}))
                        continue
                    res.count(['stampede-recompute', typed, repr(ign), repr(a), repr(kw)], nontrivial=bool(a or kw))
                    if (r1, r2, r3) != (want, want, want):
                        res.violations.append(fw.Violation('stampede_recompute_wrong', 'memoize_stampede returned %r / %r / %r for a call whose function '
                                                           'returns %r (miss, hit that recomputes early, hit afterwards)' % (r1, r2, r3, want),
                                                           {'check': 'stampede_recompute', 'call': repr((a, kw)), 'typed': typed, 'ignore': list(map(repr, ign))}))
                    if ncalls[0] - before > 2:
                        res.violations.append(fw.Violation('repeat_recomputed', 'three calls ran the function %d times (at most the miss and one early '
                                                           'recomputation are expected)' % (ncalls[0] - before),
                                                           {'check': 'stampede_recompute', 'call': repr((a, kw))}))
    finally:
        rec.random, rec.threading = saved
        c.close()


# ---------------------------------------------------------------------------
# memoize_stampede keeps one more entry per call while an early recomputation is under way (its "started" marker).  That entry
# is nobody's result: a call with OTHER arguments made while it exists returns what the function returns for ITS arguments.


MARKER_EXT = [None, core.ENOVAL, core.UNKNOWN, (), (None,), ('ENOVAL',), 'ENOVAL', 0, False, '', b'']      # values that extend an argument tuple
MARKER_BASES = [((), {}), ((1,), {}), ((None,), {}), (('a', 2), {}), ((1,), {'k': 2}), ((), {'k': None}), ((core.ENOVAL,), {})]
MARKER_LONG, MARKER_SHORT, MARKER_QUICK = 8.0, 1.0, 2.0 ** -6       # virtual seconds the function takes: first run of the base call / its recomputation / any other call
MARKER_KINDS = ['stampede', 'stampede-fanout']
MARKER_ENV = {'int': int, 'inf': float('inf'), 'ENOVAL': core.ENOVAL, 'UNKNOWN': core.UNKNOWN}


def marker_enc(a, kw):
    return [list(map(repr, a)), {k: repr(v) for k, v in kw.items()}]


def marker_dec(call):
    ev = lambda t: eval(t, dict(MARKER_ENV))      # noqa: E731, S307 (reprs written by this module)
    return tuple(ev(x) for x in call[0]), {k: ev(v) for k, v in call[1].items()}


def marker_probes(a, kw):
    """calls whose arguments EXTEND the call (a, kw): one or two more positional values, one more keyword, both"""
    out = [(a + (v,), dict(kw)) for v in MARKER_EXT]
    out += [(a + (v, w), dict(kw)) for v, w in ((None, None), (None, core.ENOVAL), (core.ENOVAL, None), (core.ENOVAL, core.ENOVAL), ((), ()))]
    for name in ('z', 'ENOVAL', 'none'):
        if name not in kw:
            out += [(a, dict(kw, **{name: v})) for v in (None, core.ENOVAL, ())]
    out.append((a + (None,), dict(kw, z=None)))
    out.append((a + (core.ENOVAL,), dict(kw, z=core.ENOVAL)))
    return out


def run_stampede_marker(res, clock, make, kind, typed, ign, base, mode, only=None):
    """-> [(sig, probe call, text)].  The base call is computed (the function takes MARKER_LONG s), then repeated with the
    random draw forced so that memoize_stampede takes its early-recomputation branch.  mode 'pending': the recomputation
    thread has been started and has not run yet; 'done': it has run (it took MARKER_SHORT s).  In both, inside the time the
    first computation took, every probe call (fresh arguments, the function takes MARKER_QUICK s) and the base call itself
    return what the function returns for their own arguments, nothing raises; afterwards ('pending': once the thread has
    run) the same again."""
    import types
    import diskcache.recipes as rec
    draw = [0.999]
    started = []

    class Thread:
        daemon = False

        def __init__(self, target=None, args=(), kwargs=None, **_):
            self._t, self._a, self._k = target, args, kwargs or {}

        def start(self):
            if mode == 'pending':
                started.append(self)
            else:
                started.append(None)
                self._t(*self._a, **self._k)

        def join(self, timeout=None):
            pass
    runs = []
    base_v = vis(base[0], base[1], ign)

    def result_for(a, k):
        return repr((vis(a, k, ign), 'result'))

    def g(*a, **k):
        v = vis(a, k, ign)
        first = v not in [x for x in runs]
        runs.append(v)
        clock.set(clock.time() + ((MARKER_LONG if first else MARKER_SHORT) if v == base_v else MARKER_QUICK))
        return result_for(a, k)
    saved = (rec.random, rec.threading)
    rec.random = types.SimpleNamespace(random=lambda: draw[0])
    rec.threading = types.SimpleNamespace(Thread=Thread)
    bad = []
    try:
        f = make(typed, ign)(g)

        def call(a, k, phase):
            draw[0] = 0.999
            want = result_for(a, k)
            try:
                got = f(*a, **k)
            except Exception as e:  # noqa: BLE001
                bad.append(('stampede_marker_raised', (a, k), 'f%r raised %r %s' % ((a, k), e, phase)))
                return False
            if not same_result(got, want):
                bad.append(('stampede_marker_wrong', (a, k), 'f%r returned %s %s; the function returns %s for these arguments' % (
                    (a, k), describe(got), phase, describe(want))))
                return False
            return True
        a0, k0 = base
        t0 = clock.time()
        if not call(a0, k0, '(first call)'):
            return bad, False
        draw[0] = 1e-300
        r = f(*a0, **k0)
        draw[0] = 0.999
        if not started:
            return bad, False       # the early-recomputation branch was not taken: nothing to observe
        if not same_result(r, result_for(a0, k0)):
            bad.append(('stampede_marker_wrong', base, 'the repeated call f%r that started the early recomputation returned %s' % (base, describe(r))))
            return bad, True
        limit = t0 + 2 * MARKER_LONG - MARKER_SHORT         # (the first computation ended at t0 + MARKER_LONG; its marker lives MARKER_LONG s)
        probes, asked = [], [base]
        for p in marker_probes(a0, k0):
            # (C16-F1, recorded: a positional None imitates the separator of args_to_key -- such pairs are left to enumerate_keys)
            v = vis(p[0], p[1], ign)
            if any(vis(q[0], q[1], ign) != v and known_collision(q, p, typed, ign) for q in asked):
                continue
            asked.append(p)
            probes.append(p)
        if only is not None:
            probes = [p for p in probes if marker_enc(*p) == only]
        what = 'while the early recomputation of f%r, started %%g s ago, %s' % (base, 'has not finished' if mode == 'pending' else 'has just finished')
        for a, k in probes + [base]:
            if clock.time() + MARKER_QUICK >= limit:
                break
            res.count(['stampede-marker', kind, typed, repr(ign), mode, repr(base), repr(a), repr(sorted(k.items(), key=repr))], nontrivial=True)
            if not call(a, k, what % (clock.time() - (t0 + MARKER_LONG))):
                return bad, True
        for th in started:
            if th is not None:
                th._t(*th._a, **th._k)
        for a, k in probes + [base]:
            if not call(a, k, 'after the early recomputation of f%r' % (base,)):
                return bad, True
        return bad, True
    finally:
        rec.random, rec.threading = saved


def stampede_marker(ctx, res):
    clock = instr.Clock(1000.0)
    found = {}
    n = taken = 0
    with instr.Installed(clock):
        for kind in MARKER_KINDS:
            d = ctx.scratch('c16m')
            c = diskcache.Cache(d) if kind == 'stampede' else diskcache.FanoutCache(d, shards=3)
            try:
                for typed, ign in [(False, ()), (True, ()), (False, (0,)), (True, ('z',))]:
                    for base in MARKER_BASES:
                        for mode in ('pending', 'done'):
                            n += 1
                            make = lambda typed, ign, n=n: diskcache.memoize_stampede(c, 1000, name='m%d' % n, typed=typed, ignore=ign)      # noqa: E731
                            bad, took = run_stampede_marker(res, clock, make, kind, typed, ign, base, mode)
                            taken += 1 if took else 0
                            for sig, probe, text in bad:
                                found.setdefault((sig, kind), []).append((typed, ign, base, mode, probe, text))
            finally:
                c.close()
    for (sig, kind), items in sorted(found.items()):
        typed, ign, base, mode, probe, text = items[0]
        res.violations.append(fw.Violation(sig, 'memoize_stampede on a %s, typed=%r, ignore=%r: %s (%d configurations fail)' % (
            'Cache' if kind == 'stampede' else 'FanoutCache', typed, ign, text, len(items)),
            {'check': 'stampede_marker', 'kind': kind, 'typed': typed, 'ignore': list(map(repr, ign)), 'base': marker_enc(*base), 'mode': mode,
             'probe': marker_enc(*probe)}))
    res.extra['stampede_marker_functions'] = n
    res.extra['stampede_marker_functions_that_recomputed_early'] = taken


def derived_names(ctx, res):
    """Functions memoized WITHOUT name= get the base full_name(func) = module.qualname: two different functions with the
    same short name (methods of two classes, helpers nested in two factories) must not share entries."""
    import diskcache.recipes as rec

    class Users:
        @staticmethod
        def load(x, scale=1):
            return ('user', x, scale)

    class Orders:
        @staticmethod
        def load(x, scale=1):
            return ('order', x, scale)

    def factory(tag):
        def compute(x, scale=1):
            return (tag, x, scale)
        return compute
    mk1, mk2 = factory, (lambda tag: (lambda x, scale=1: (tag, x, scale)))
    pairs = [('static methods of two classes', Users.load, Orders.load)]

    def outer_a():
        def compute(x, scale=1):
            return ('a', x, scale)
        return compute

    def outer_b():
        def compute(x, scale=1):
            return ('b', x, scale)
        return compute
    pairs.append(('helpers nested in two functions', outer_a(), outer_b()))
    clock = instr.Clock(1000.0)
    with instr.Installed(clock):
        for kind in ('cache', 'fanout', 'index', 'stampede', 'django'):
            d = ctx.scratch('c16n')
            try:
                fac, _, close = make_target(kind, d, clock)
            except Exception:  # noqa
                continue
            # make_target's factories pass name='f'; build the nameless decorators directly
            if kind == 'cache':
                obj = diskcache.Cache(d + '-n')
                deco = lambda: obj.memoize()  # noqa: E731
            elif kind == 'fanout':
                obj = diskcache.FanoutCache(d + '-n', shards=3)
                deco = lambda: obj.memoize()  # noqa: E731
            elif kind == 'index':
                obj = diskcache.Index(d + '-n')
                deco = lambda: obj.memoize()  # noqa: E731
            elif kind == 'stampede':
                obj = diskcache.Cache(d + '-n')
                deco = lambda: rec.memoize_stampede(obj, 100)  # noqa: E731
            else:
                from diskcache.djangocache import DjangoCache
                obj = DjangoCache(d + '-n', {'SHARDS': 2})
                deco = lambda: obj.memoize()  # noqa: E731
            try:
                for label, f1, f2 in pairs:
                    w1, w2 = deco()(f1), deco()(f2)
                    for args, kw in (((1,), {}), ((2,), {'scale': 3})):
                        r1 = w1(*args, **kw)
                        r2 = w2(*args, **kw)
                        res.count(['derived-name', kind, label, repr(args), repr(kw)], nontrivial=True)
                        k1, k2 = w1.__cache_key__(*args, **kw), w2.__cache_key__(*args, **kw)
                        if r1 != f1(*args, **kw) or r2 != f2(*args, **kw) or k1 == k2:
                            res.violations.append(fw.Violation('derived_name_shared', '%s memoized without name= on %s: %s%r returned %r and %r (the functions '
                                                               'return %r and %r); cache keys %r / %r' % (label, kind, f1.__qualname__, (args, kw), r1, r2,
                                                                                                        f1(*args, **kw), f2(*args, **kw), k1, k2),
                                                               {'check': 'derived_names', 'kind': kind, 'pair': label, 'args': repr(args), 'kwargs': repr(kw)}))
            finally:
                close()
                try:
                    (obj.cache if kind == 'index' else obj).close()
                except Exception:  # noqa
                    pass


SHARED_KINDS = ['cache', 'fanout', 'index', 'django', 'stampede', 'stampede-fanout']
SHARED_CALLS = [((3,), {}), ((3,), {'scale': 2}), ((), {}), (('a', None), {}), ((1.0,), {'scale': 1})]


def shared_functions(n):
    """n different functions with one signature and different bodies (module-level style names, nested helpers, lambdas)."""
    def double(*a, **k):
        return ('double', a, sorted(k.items()))

    def square(*a, **k):
        return ('square', a, sorted(k.items()), 2)

    def cube(*a, **k):
        return ['cube', a, sorted(k.items())]
    return [double, square, cube][:n]


def open_shared(kind, d):
    """(one decorator factory typed -> decorator, close) for a memoizer kind; name is left to be derived from the function."""
    import diskcache.recipes as rec
    if kind == 'cache':
        obj = diskcache.Cache(d)
        return (lambda typed: obj.memoize(typed=typed, expire=60)), obj.close
    if kind == 'fanout':
        obj = diskcache.FanoutCache(d, shards=3)
        return (lambda typed: obj.memoize(typed=typed, expire=60)), obj.close
    if kind == 'index':
        obj = diskcache.Index(d)
        return (lambda typed: obj.memoize(typed=typed)), obj.cache.close
    if kind == 'django':
        from django.conf import settings
        if not settings.configured:
            settings.configure()
        from diskcache.djangocache import DjangoCache
        obj = DjangoCache(d, {'SHARDS': 2})
        return (lambda typed: obj.memoize(typed=typed, timeout=60)), obj.close
    obj = diskcache.Cache(d) if kind == 'stampede' else diskcache.FanoutCache(d, shards=3)
    return (lambda typed: rec.memoize_stampede(obj, 100, typed=typed)), obj.close


def run_shared_decorator(res, make, kind, typed, nfun, order):
    """ONE decorator object (cached = cache.memoize(...)) applied to nfun different functions; the functions are then called with equal
    arguments (in the given order of functions, twice): each call returns what ITS function returns.  Returns [(sig, text, fname, call)]."""
    bad = []
    cached = make(typed)
    funs = shared_functions(nfun)
    wrapped = [cached(f) for f in funs]
    for args, kw in SHARED_CALLS:
        for rnd in (0, 1):
            for i in order:
                f, w = funs[i], wrapped[i]
                want = f(*args, **kw)
                try:
                    got = w(*args, **kw)
                except Exception as e:  # noqa
                    got = '<%s: %s>' % (type(e).__name__, e)
                res.count(['shared-decorator', kind, typed, nfun, tuple(order), i, rnd, repr(args), repr(kw)], nontrivial=True)
                if not same_result(got, want):
                    bad.append(('shared_decorator_entry_shared', 'one decorator object of the %s memoizer (typed=%r, name derived) applied to %s: %s%r %r returned %r, the function '
                                'returns %r (earlier calls with these arguments: %s)' % (kind, typed, [g.__name__ for g in funs], f.__name__, args, kw, got, want,
                                                                                       [funs[j].__name__ for j in order[:order.index(i)]] if rnd == 0 else 'every function'),
                                f.__name__, enc_call(args, kw)))
    keys = {}
    for f, w in zip(funs, wrapped):
        for args, kw in SHARED_CALLS:
            try:
                k = repr(w.__cache_key__(*args, **kw))
            except Exception:  # noqa
                continue
            other = keys.setdefault((k, repr(enc_call(args, kw))), f.__name__)
            if other != f.__name__:
                bad.append(('shared_decorator_key_shared', 'one decorator object of the %s memoizer (typed=%r, name derived): %s and %s have the same __cache_key__ %s for %r %r'
                            % (kind, typed, other, f.__name__, k, args, kw), f.__name__, enc_call(args, kw)))
    return bad


def shared_decorator(ctx, res):
    """'Entries are never shared': the decorator object returned by ONE memoize() call may decorate several functions (cached = cache.memoize(expire=60);
    @cached above each); with the name left to be derived every function has its own entries."""
    n = 0
    clock = instr.Clock(1000.0)
    with instr.Installed(clock):
        for kind in SHARED_KINDS:
            for typed in (False, True):
                for nfun, order in ((2, [0, 1]), (2, [1, 0]), (3, [0, 1, 2]), (3, [2, 0, 1])):
                    d = ctx.scratch('c16s')
                    try:
                        make, close = open_shared(kind, d)
                    except ImportError:
                        continue
                    try:
                        bad = run_shared_decorator(res, make, kind, typed, nfun, order)
                    finally:
                        close()
                    n += 1
                    seen = set()
                    for sig, text, fname, call in bad:
                        if sig in seen:
                            continue
                        seen.add(sig)
                        res.violations.append(fw.Violation(sig, text, {'check': 'shared_decorator', 'kind': kind, 'typed': typed, 'functions': nfun, 'order': order,
                                                                       'function': fname, 'call': call}))
    res.extra['shared_decorator_settings'] = n


def witness_none_positional():
    """Finding C16-F1: f(1, None, 'a') and f(1, a=None) share a key."""
    import tempfile, shutil
    d = tempfile.mkdtemp(prefix='c16wit-')
    try:
        c = diskcache.Cache(d)

        @c.memoize(name='f')
        def f(*a, **k):
            return repr((a, k))
        k1 = f.__cache_key__(1, None, 'a')
        k2 = f.__cache_key__(1, a=None)
        same = key_id(c.disk, k1) == key_id(c.disk, k2)
        c.close()
        return same
    finally:
        shutil.rmtree(d, ignore_errors=True)


def run(ctx):
    res = fw.Result()
    res.rule = ('exhaustive enumeration of call signatures (positional arity <= 2 quick / 3 thorough, <= 2 keywords in both orders) over the alphabet '
                '{None, 1, 1.0, True, "a", "b", int} x typed x 5 ignore sets: every pair sharing a cache key must have equal visible arguments; '
                'model key == implementation key on a sample; wrapper histories on Cache/FanoutCache/Index/DjangoCache/memoize_stampede under a '
                'virtual clock, results drawn from an alphabet of result kinds (None, False/True, 0, 1, 0.0, -0.0, inf, IntEnum members, int and float '
                'subclass instances, big ints, str, bytes, tuples/list/dict/frozenset containing them) and compared with type identity (same type, same '
                'repr, equal, member by member); the whole result alphabet through every memoizer x typed x expire: first call, cached hits, a hit 3 s '
                'later; expire 0 and -1 on Cache/FanoutCache/DjangoCache: every call runs the function and no entry (inline or file-backed) is left; '
                'expiry times that are not whole seconds (0.5, 0.25, 2.5, 1.75, 10.125, 299.5, 2**-10, 1 + 2**-10 s) on every memoizer that takes one '
                '(Cache / FanoutCache .memoize expire, DjangoCache.memoize timeout, memoize_stampede expire on a Cache and on a FanoutCache) x typed: '
                'a repeated call at every probed age strictly inside the stated time (same instant, half, three quarters, the whole seconds below it, one '
                'tick before the end) is served without running the function, the call one tick after it runs the function again; '
                'ignored arguments: on every memoizer x typed x the 4 non-empty ignore sets, base calls (arity <= 2 over {1, "a", None}, 4 keyword sets) followed by '
                'their variants in ignored positions / keyword names (other value and type, present / absent) and the base again: once the function has run '
                'for some visible arguments no further call with those visible arguments runs it, and each returns its result (wrapper histories decide '
                'the same from the arguments, not from __cache_key__); lock contention: Cache / FanoutCache / DjangoCache / Index / memoize_stampede on a Cache '
                'and on a FanoutCache x settings {default, statistics, least-recently-used, least-frequently-used} x {lock held during a repeated call, '
                'during the first call} x k in {1, 3}: a second SQLite connection holds the write lock of every shard database through k failed BEGIN '
                'attempts of the caller and commits right before attempt k+1; every repeated call is served from the cache and returns the result; '
                'memoize_stampede on a Cache and on a FanoutCache x 4 (typed, ignore) settings x 7 base calls: the early recomputation of the base call is forced '
                '(random draw fixed, the thread held back or run at once), and while its marker entry exists -- and again afterwards -- about 30 calls whose arguments '
                'extend the base call by one or two positional values / a keyword / both, drawn from {None, ENOVAL, UNKNOWN, (), (None,), ("ENOVAL",), "ENOVAL", 0, False, "", b""}, '
                'and the base call itself return what the function returns for their own arguments (pairs that collide by the recorded C16-F1 are left out); one decorator object (cached = x.memoize(...), name derived) of Cache / FanoutCache / Index / DjangoCache .memoize and memoize_stampede on a Cache and on a FanoutCache x typed applied to two and to three different functions with one signature, called with equal arguments in two orders, twice: each call returns the result of its own function and the __cache_key__s differ.  non-trivial = at least one argument; distinct = distinct (config, call).')
    if ctx.quick:
        cc = enumerate_keys(ctx, res, 2, 2)
        correspondence(ctx, res, cc, 1200)
        result_identity(ctx, res)
        zero_expiry(ctx, res)
        fractional_expiry(ctx, res)
        wrapper_runs(ctx, res, 25, 30)
        ignored_arguments(ctx, res, 12)
        lock_contention(ctx, res, 1)
    else:
        cc = enumerate_keys(ctx, res, 3, 2)
        correspondence(ctx, res, cc, 6000)
        result_identity(ctx, res)
        zero_expiry(ctx, res)
        fractional_expiry(ctx, res)
        wrapper_runs(ctx, res, 150, 60)
        ignored_arguments(ctx, res, len(IGN_BASES))
        lock_contention(ctx, res, len(CONTENTION_CALLS))
    res.extra['exhaustive'] = True
    stampede_guard(ctx, res)
    stampede_recompute(ctx, res)
    stampede_marker(ctx, res)
    derived_names(ctx, res)
    shared_decorator(ctx, res)
    res.witnessed['none_positional'] = witness_none_positional()
    return res


def search(ctx, broken):
    res = fw.Result()
    enumerate_keys(ctx, res, 3, 2)
    result_identity(ctx, res)
    zero_expiry(ctx, res)
    fractional_expiry(ctx, res)
    wrapper_runs(ctx, res, 60, 40)
    ignored_arguments(ctx, res, len(IGN_BASES))
    lock_contention(ctx, res, 2)
    stampede_guard(ctx, res)
    stampede_recompute(ctx, res)
    stampede_marker(ctx, res)
    derived_names(ctx, res)
    shared_decorator(ctx, res)
    return res


def replay(payload):
    case = payload.get('case', {})
    if case.get('check') == 'cache_key_pair':
        import tempfile, shutil
        d = tempfile.mkdtemp(prefix='c16r-')
        try:
            c = diskcache.Cache(d)
            ign = tuple(case['ignore'])

            @c.memoize(name='f', typed=case['typed'], ignore=ign)
            def f(*a, **k):
                return None
            ks = []
            for call in (case['call1'], case['call2']):
                a, kw = dec_call(call)
                ks.append(key_id(c.disk, f.__cache_key__(*a, **kw)))
            c.close()
            print('key1 == key2:', ks[0] == ks[1])
            return ks[0] != ks[1]
        finally:
            shutil.rmtree(d, ignore_errors=True)
    if case.get('check') == 'result_identity':
        import tempfile, shutil
        d = tempfile.mkdtemp(prefix='c16r-')
        clock = instr.Clock(1000.0)
        try:
            with instr.Installed(clock):
                fac, _, close = make_target(case['kind'], d, clock)
                try:
                    bad = run_result_identity(fw.Result(), clock, fac, case['kind'], case['typed'], case['expire'], [case['result_index']])
                finally:
                    close()
            for sig, i, text in bad:
                print('MONITOR %s: %s' % (sig, text))
            print('result %s through %s: %s' % (case['result'], case['kind'], 'returned unchanged' if not bad else 'NOT returned unchanged'))
            return not bad
        finally:
            shutil.rmtree(d, ignore_errors=True)
    if case.get('check') == 'fractional_expiry':
        import tempfile, shutil
        d = tempfile.mkdtemp(prefix='c16r-')
        clock = instr.Clock(1000.0)
        try:
            with instr.Installed(clock):
                fac, _, close = make_expiring(case['kind'], os.path.join(d, 'c'), clock)
                try:
                    bad = run_fractional_expiry(fw.Result(), clock, fac, case['kind'], case['typed'], case['expire'])
                finally:
                    close()
            for sig, age, text in bad:
                print('MONITOR %s: %s' % (sig, text))
            print('%s memoizer, expiry time %r s: %s' % (case['kind'], case['expire'],
                                                         'repeated calls inside it served from the cache, recomputed after it' if not bad else 'NOT honoured'))
            return not bad
        finally:
            shutil.rmtree(d, ignore_errors=True)
    if case.get('check') == 'zero_expiry':
        import tempfile, shutil
        d = tempfile.mkdtemp(prefix='c16r-')
        clock = instr.Clock(1000.0)
        try:
            with instr.Installed(clock):
                fac, store_len, close = make_target(case['kind'], d, clock)
                try:
                    bad = run_zero_expiry(fw.Result(), clock, fac, store_len, case['kind'], case['typed'], case['expire'])
                finally:
                    close()
            for sig, text in bad:
                print('MONITOR %s: %s' % (sig, text))
            return not bad
        finally:
            shutil.rmtree(d, ignore_errors=True)
    if case.get('check') == 'ignored_arguments':
        import tempfile, shutil
        d = tempfile.mkdtemp(prefix='c16r-')
        clock = instr.Clock(1000.0)
        ign = tuple(dec_value(x) for x in case['ignore'])
        try:
            with instr.Installed(clock):
                fac, _, close = make_target(case['kind'], d, clock)
                try:
                    bad = run_ignored(fw.Result(), clock, fac, case['kind'], case['typed'], ign, case['expire'], [dec_call(c) for c in case['calls']])
                finally:
                    close()
            for sig, first, call, text in bad:
                print('MONITOR %s: %s' % (sig, text))
            print('%s memoizer, ignore=%r: %s' % (case['kind'], ign, 'the second call was served from the cache' if not bad else 'the second call was NOT served from the cache'))
            return not bad
        finally:
            shutil.rmtree(d, ignore_errors=True)
    if case.get('check') == 'lock_contention':
        import tempfile, shutil
        d = tempfile.mkdtemp(prefix='c16r-')
        ign = tuple(dec_value(x) for x in case['ignore'])
        try:
            job = (case['phase'], case['failed_attempts'], case['typed'], ign, case['expire'], dec_call(case['call']))
            bad = contention_case(lambda: os.path.join(d, 'c'), fw.Result(), case['kind'], case['mode'], [job])[0]
            for sig, text in bad:
                print('MONITOR %s: %s' % (sig, text))
            print('%s memoizer, %s settings, lock held during the %s call: %s' % (
                case['kind'], case['mode'], case['phase'], 'repeated calls served from the cache' if not bad else 'NOT served from the cache'))
            return not bad
        finally:
            shutil.rmtree(d, ignore_errors=True)
    if case.get('check') == 'stampede_marker':
        import tempfile, shutil
        d = tempfile.mkdtemp(prefix='c16r-')
        clock = instr.Clock(1000.0)
        ign = tuple(dec_value(x) for x in case['ignore'])
        try:
            with instr.Installed(clock):
                c = diskcache.Cache(d) if case['kind'] == 'stampede' else diskcache.FanoutCache(d, shards=3)
                try:
                    make = lambda typed, ign: diskcache.memoize_stampede(c, 1000, name='m', typed=typed, ignore=ign)      # noqa: E731
                    bad, took = run_stampede_marker(fw.Result(), clock, make, case['kind'], case['typed'], ign, marker_dec(case['base']), case['mode'],
                                                    only=case.get('probe'))
                finally:
                    c.close()
            for sig, probe, text in bad:
                print('MONITOR %s: %s' % (sig, text))
            print('memoize_stampede, early recomputation of f%r %s: %s' % (marker_dec(case['base']), case['mode'],
                                                                           'other calls return their own results' if not bad else 'another call did NOT get its own result'))
            return not bad
        finally:
            shutil.rmtree(d, ignore_errors=True)
    if case.get('check') == 'shared_decorator':
        import tempfile, shutil
        d = tempfile.mkdtemp(prefix='c16r-')
        clock = instr.Clock(1000.0)
        try:
            with instr.Installed(clock):
                make, close = open_shared(case['kind'], os.path.join(d, 'c'))
                try:
                    bad = run_shared_decorator(fw.Result(), make, case['kind'], case['typed'], case['functions'], list(case['order']))
                finally:
                    close()
            for sig, text, fname, call in bad[:6]:
                print('MONITOR %s: %s' % (sig, text))
            print('one %s decorator object on %d functions: %s' % (case['kind'], case['functions'],
                                                                   'every function returns its own results' if not bad else 'functions do NOT have their own entries'))
            return not bad
        finally:
            shutil.rmtree(d, ignore_errors=True)
    print('replay payload:', payload)
    return True
