"""C19 -- DjangoCache honours the Django cache-backend contract for every sequence of calls.

Monitor: three-way histories under one virtual clock -- the real DjangoCache, Django's own LocMemCache (an oracle
for the contract nobody here wrote) and a plain-Python reference of the contract written from the property text.
Correspondence: the same histories through coq/model/Django.v (`run (dj_step cfg) [] history`), compared per call
with what DjangoCache returned.

Two further dimensions, monitors only (same three-way comparison, the model has neither):
  values      -- the value alphabet around the file threshold (disk_min_file_size): text with CR / CRLF / LF, bytes, pickled
                 containers, inline and file-backed, through every method that stores, returns or copies a value;
  contention  -- a call made while other connections hold the write lock of every shard for k failed BEGIN attempts (and, optionally,
                 again before every further transaction of the call) must behave exactly as the contract says: the DjangoCache
                 methods default to retry=True, they wait.
  integers    -- integer values on and around the machine boundaries (+-2**31, +-2**53, +-2**63 and their neighbours, 2**64, 10**30:
                 SQLite keeps a 64-bit integer natively, anything beyond is pickled) through every method that stores, returns or
                 copies a value; incr / decr wherever operand and result stay inside 64 bits.
"""
import hashlib
import json
import os
import shutil
import sqlite3
import tempfile

import fw
import instr
from instr import core, diskcache  # noqa: F401  (instr puts fw.REPO on sys.path)

from django.conf import settings
if not settings.configured:
    settings.configure()
import django.core.cache.backends.base as dj_base  # noqa: E402
import django.core.cache.backends.locmem as dj_locmem  # noqa: E402
from django.core.cache.backends.base import DEFAULT_TIMEOUT  # noqa: E402
from django.core.cache.backends.locmem import LocMemCache  # noqa: E402
from diskcache.djangocache import DjangoCache  # noqa: E402

ID = 'C19'
TITLE = 'DjangoCache honours the Django cache backend contract'
COQ_PROP = 'C19'
LEVEL = 'proof'
TRANSLATE = ['django', 'disk', 'fanout', 'sql']     # disk: Disk.store / Disk.fetch carry every cached value (raw number, text, bytes, pickle; inline and file)
TRUSTED = [
    'hand-written single-client dictionary semantics of the FanoutCache methods (bk_set, bk_add, bk_get, bk_touch, bk_pop, '
    'bk_delete, bk_contains, bk_incr, bk_clear in coq/model/Django.v): tied to /repo by the per-call correspondence of this check',
    'BaseCache methods that DjangoCache inherits (make_key/default_key_func, get_many, set_many, delete_many, get_or_set, '
    'incr_version, decr_version) modelled by hand from the source of the installed Django',
    'the contract dj_spec (coq/model/Django.v) and the Python reference of this harness are readings of the Django '
    'documentation; Django\'s LocMemCache is run beside them as an independent oracle',
    'virtual clock installed into diskcache.core, diskcache.recipes, django.core.cache.backends.base and .locmem',
    'contention dimension: sched.Tracer (logging proxies for sqlite3 / open / os inside diskcache.core) reports the BEGIN attempts of the '
    'calling thread; plain sqlite3 connections of the harness hold and release the shard write locks',
]
ASSUMPTIONS = [
    'single client in the theorem and the correspondence: no database Timeout occurs (C14 covers timeouts); the monitors add one '
    'other connection that only holds the shard write locks for a bounded number of failed BEGIN attempts and writes nothing',
    'the clock never runs backwards within a history',
    'size_limit is never reached, so culling removes only expired entries (unobservable)',
    'values are integers in the theorem and the correspondence; the monitors add str / bytes / float / tuple / list / dict values on both '
    'sides of disk_min_file_size (no None, bool, NaN or lone surrogates: C01 covers the alphabet of Disk) and integers on and around '
    '+-2**31, +-2**53, +-2**63, 2**64, 10**30 (every value is an exact Python int on return); '
    'incr / decr are only generated for keys that hold integers, and only where the stored integer and the result lie inside the signed '
    '64-bit range (Cache.incr adds inside an SQLite INTEGER column: arithmetic beyond it is outside the property text, as for memcached); '
    'versions are integers',
    'keys are text in the theorem and the correspondence; the monitors add tuples (length 0-3, nested), integers, bytes, None, a float and a bool as keys, identified by '
    'their text as Django\'s default key function does (two equal-hashing keys with different text, 1 and 1.0, are never passed in one get_many / set_many); '
    'incr_version / decr_version (inherited from django BaseCache unchanged) are not called on a missing tuple key of length other than 1, where BaseCache\'s own '
    '"Key \'%s\' not found" % key raises TypeError in every backend',
]

# Former finding C19-F1 (D6, fixed in core.py): incr/decr exactly at the expiry instant incremented an item no lookup
# could see.  The sig is kept so that the defect is recognised by name if it ever returns; nothing is tolerated.
REGRESSION = 'incr_at_expiry_instant'
TICK = 2.0 ** -10
T0 = 1000.0
DEF = 'default'          # JSON stand-in for django's DEFAULT_TIMEOUT sentinel
KEYS = ['a', 'b', 'c', 'a:1', '1:a']
OPS = ['add', 'get', 'set', 'touch', 'delete', 'incr', 'decr', 'has_key', 'get_many', 'set_many', 'delete_many',
       'get_or_set', 'incr_version', 'decr_version', 'pop', 'clear']
WEIGHTS = {'set': 16, 'add': 8, 'get': 12, 'touch': 9, 'delete': 6, 'incr': 11, 'decr': 6, 'has_key': 8, 'get_many': 4,
           'set_many': 4, 'delete_many': 3, 'get_or_set': 5, 'incr_version': 3, 'decr_version': 2, 'pop': 4, 'clear': 1}
HAS_TIMEOUT = ('add', 'set', 'touch', 'set_many', 'get_or_set')
IMPORTS = ['DCPrelude', 'ArgsKeyBase', 'DjangoBase', 'Gen_Django', 'Django']
SHRINK_PER_SIG = 2
MAX_DISAGREEMENTS = 6

_uid = [0]

# Keys travel through histories as JSON strings.  A plain string is itself; KEYTAG + repr(obj) stands for the Python object obj
# (a tuple, an int, bytes, None, a float ...: Django's make_key formats the caller's key with %s, so every object is a key, and two
# objects with the same str() are the SAME key).
KEYTAG = '<py>'


def mkkey(k):
    if isinstance(k, str) and k.startswith(KEYTAG):
        return eval(k[len(KEYTAG):], {'__builtins__': {}})      # noqa: S307 (reprs written by this module)
    return k


def keyspec(obj):
    return obj if isinstance(obj, str) and not obj.startswith(KEYTAG) else KEYTAG + repr(obj)


# ---------------------------------------------------------------------------
# canonical results


def canon(v):
    """JSON-able, type-aware (True is not 1) form of a returned value."""
    if v is None:
        return ['none']
    if isinstance(v, bool):
        return ['bool', v]
    if isinstance(v, int):
        return ['int', v]
    return ['val', type(v).__name__, digest(v), describe(v)]


def deep(v):
    """type-tagged structure: equal iff same types and same contents all the way down (1 is not 1.0, (1,) is not [1])"""
    if isinstance(v, (list, tuple)):
        return (type(v).__name__, tuple(deep(x) for x in v))
    if isinstance(v, dict):
        return ('dict', tuple((deep(k), deep(x)) for k, x in v.items()))
    if isinstance(v, float):
        return ('float', repr(v))
    if isinstance(v, (str, bytes, int, bool)) or v is None:
        return (type(v).__name__, v)
    return ('object', type(v).__name__, repr(v))


def digest(v):
    return hashlib.sha1(repr(deep(v)).encode('utf-8', 'backslashreplace')).hexdigest()[:16]


def describe(v):
    if isinstance(v, str):
        return 'len=%d CR=%d LF=%d %r' % (len(v), v.count('\r'), v.count('\n'), v[:12])
    if isinstance(v, bytes):
        return 'len=%d CR=%d LF=%d %r' % (len(v), v.count(b'\r'), v.count(b'\n'), v[:8])
    if isinstance(v, (tuple, list)):
        return '(' + ', '.join(type(x).__name__ + (' ' + describe(x) if isinstance(x, (str, bytes)) else '') for x in v[:4]) + ')'
    if isinstance(v, dict):
        return '{' + ', '.join('%r: %s' % (k, type(x).__name__ + (' ' + describe(x) if isinstance(x, (str, bytes)) else ''))
                               for k, x in list(v.items())[:4]) + '}'
    return repr(v)[:60]


def big_int(c):
    """the canonical result carries an integer of magnitude 2**31 or more (directly or inside a get_many map)"""
    return c is not None and ((c[0] == 'int' and abs(c[1]) >= 2 ** 31) or (c[0] == 'map' and any(big_int(p[1]) for p in c[1])))


def has_val(c):
    """the canonical result carries a value outside the integers (directly or inside a get_many map)"""
    return c is not None and (c[0] == 'val' or (c[0] == 'map' and any(p[1][0] == 'val' for p in c[1])))


# values travel through histories as JSON-able specs: an int is itself; {'t': 'str', 'unit': u, 'n': n} is u * n;
# {'t': 'bytes', 'unit': hex, 'n': n}; {'t': 'float', 'v': x}; {'t': 'tuple' | 'list', 'items': [specs]}; {'t': 'dict', 'items': [[k, spec]]}
_VALS = {}


def mkval(spec):
    if not isinstance(spec, dict):
        return spec
    key = json.dumps(spec, sort_keys=True)
    if key not in _VALS:
        if len(_VALS) > 300:
            _VALS.clear()
        t = spec['t']
        if t == 'str':
            v = spec['unit'] * spec['n']
        elif t == 'bytes':
            v = bytes.fromhex(spec['unit']) * spec['n']
        elif t == 'float':
            v = float(spec['v'])
        elif t == 'tuple':
            v = tuple(mkval(x) for x in spec['items'])
        elif t == 'list':
            v = [mkval(x) for x in spec['items']]
        elif t == 'dict':
            v = dict((k, mkval(x)) for k, x in spec['items'])
        else:
            raise ValueError('value spec %r' % (spec,))
        _VALS[key] = v
    return _VALS[key]


def show_val(spec):
    if not isinstance(spec, dict):
        return repr(spec)
    t = spec['t']
    if t in ('str', 'bytes'):
        return '%s(%r*%d)' % (t, spec['unit'], spec['n'])
    if t == 'float':
        return repr(spec['v'])
    if t == 'dict':
        return '{' + ', '.join('%r: %s' % (k, show_val(x)) for k, x in spec['items']) + '}'
    return t + '(' + ', '.join(show_val(x) for x in spec['items']) + ')'


def plain_int(v):
    return isinstance(v, int) and not isinstance(v, bool)


def canon_call(op, thunk):
    """Run the call; exceptions by class name; returns outside the contract (set, clear) are masked."""
    try:
        r = thunk()
    except Exception as e:  # noqa: BLE001  (every exception class is a result here)
        return ['raise', type(e).__name__]
    o = op['op']
    if o in ('set', 'clear'):
        return ['unit']
    if o == 'set_many':
        if not isinstance(r, list):
            return ['other', repr(r)[:80]]
        return ['list', [x if isinstance(x, str) else canon(x) for x in r]]
    if o == 'get_many':
        if not isinstance(r, dict):
            return ['other', repr(r)[:80]]
        asked = [mkkey(k) for k in op['keys']]
        return ['map', [[k, canon(r[mk])] for k, mk in zip(op['keys'], asked) if mk in r]
                + [[repr(k), canon(r[k])] for k in r if k not in asked]]
    return canon(r)


def show(c):
    if c is None:
        return 'n/a'
    k = c[0]
    if k == 'raise':
        return 'raise ' + c[1]
    if k == 'unit':
        return '(any)'
    if k == 'none':
        return 'None'
    if k in ('bool', 'int'):
        return repr(c[1])
    if k == 'map':
        return '{' + ', '.join('%r: %s' % (p[0], show(p[1])) for p in c[1]) + '}'
    if k == 'list':
        return repr(c[1])
    if k == 'val':
        return '<%s %s #%s>' % (c[1], c[3], c[2][:8])
    return str(c[1])


def show_op(op):
    a = []
    for f in ('key', 'keys', 'items', 'value', 'delta', 'timeout', 'version'):
        if f in op:
            if f == 'delta' and op[f] is None:
                continue
            if f == 'value':
                a.append('value=%s%s' % ('lambda: ' if op.get('callable') else '', show_val(op[f])))
            elif f == 'items':
                a.append('items=[%s]' % ', '.join('[%r, %s]' % (k, show_val(v)) for k, v in op[f]))
            else:
                a.append('%s=%r' % (f, op[f]))
    c = ''
    if op.get('contend'):
        c = ' while every shard is write-locked for %d failed BEGIN attempt(s)%s' % (
            op['contend'], ', again before each further transaction of the call' if op.get('rearm') else '')
    return '%s(%s) at t=%r%s' % (op['op'], ', '.join(a), op['now'], c)


# ---------------------------------------------------------------------------
# the contract, in plain Python (written from the property text; independent of diskcache, Django and the Coq model)


class Reference:
    def __init__(self, default_timeout, version):
        self.default = default_timeout      # seconds or None (= forever)
        self.version = version
        self.d = {}                         # (version, key) -> [value, expiry or None]
        self.ever = set()                   # every (version, key) that was ever stored

    def vk(self, key, version):
        # (the contract addresses an entry by prefix, version and the key FORMATTED AS TEXT: 7 and '7' are one key)
        return (self.version if version is None else version, str(mkkey(key)))

    def live(self, vk, now):
        e = self.d.get(vk)
        if e is not None and (e[1] is None or now < e[1]):
            return e
        return None

    def store(self, vk, value, timeout, now):
        from_default = isinstance(timeout, str) and timeout == DEF
        t = self.default if from_default else timeout
        self.ever.add(vk)
        if t is None:
            self.d[vk] = [value, None]
        elif t > 0:
            self.d[vk] = [value, now + t]
        elif from_default and t == 0:
            # backend TIMEOUT = 0: expired at once (never live, since live needs now < expiry); the instant is
            # remembered only so that a return of the incr-at-expiry defect (D6) is recognised at this very instant
            self.d[vk] = [value, now]
        else:
            self.d.pop(vk, None)            # zero or negative: already expired, the key is absent

    def expiries(self):
        return set(e[1] for e in self.d.values() if e[1] is not None)

    def apply(self, op, now):
        """Returns the canonical result the contract specifies."""
        o = op['op']
        ver = op.get('version')
        if o == 'clear':
            self.d.clear()
            return ['unit']
        if o == 'get_many':
            out = []
            for k in op['keys']:
                e = self.live(self.vk(k, ver), now)
                if e is not None:
                    out.append([k, canon(e[0])])
            return ['map', out]
        if o == 'set_many':
            for k, v in op['items']:
                self.store(self.vk(k, ver), mkval(v), op['timeout'], now)
            return ['list', []]
        if o == 'delete_many':
            for k in op['keys']:
                vk = self.vk(k, ver)
                if self.live(vk, now) is not None:
                    del self.d[vk]
            return ['none']
        vk = self.vk(op['key'], ver)
        e = self.live(vk, now)
        if o == 'set':
            self.store(vk, mkval(op['value']), op['timeout'], now)
            return ['unit']
        if o == 'add':
            if e is not None:
                return ['bool', False]
            self.store(vk, mkval(op['value']), op['timeout'], now)
            return ['bool', True]
        if o == 'get':
            return canon(e[0]) if e is not None else ['none']
        if o == 'has_key':
            return ['bool', e is not None]
        if o == 'touch':
            if e is None:
                return ['bool', False]
            self.store(vk, e[0], op['timeout'], now)
            return ['bool', True]
        if o == 'delete':
            if e is None:
                return ['bool', False]
            del self.d[vk]
            return ['bool', True]
        if o == 'pop':
            if e is None:
                return ['none']
            del self.d[vk]
            return canon(e[0])
        if o in ('incr', 'decr'):
            if e is None:
                return ['raise', 'ValueError']
            e[0] = e[0] + signed_delta(op)
            return canon(e[0])
        if o == 'get_or_set':
            if e is not None:
                return canon(e[0])
            self.store(vk, mkval(op['value']), op['timeout'], now)
            return canon(mkval(op['value']))
        if o in ('incr_version', 'decr_version'):
            if e is None:
                return ['raise', 'ValueError']
            nv = vk[0] + (op['delta'] if o == 'incr_version' else -op['delta'])
            self.store((nv, vk[1]), e[0], DEF, now)
            self.d.pop(vk, None)
            return canon(nv)
        raise ValueError('unknown op ' + o)


def signed_delta(op):
    d = 1 if op.get('delta') is None else op['delta']
    return d if op['op'] == 'incr' else -d


# ---------------------------------------------------------------------------
# calling a backend


def invoke(cache, op):
    o = op['op']
    ver = op.get('version')
    tkw = {}
    if o in HAS_TIMEOUT:
        t = op['timeout']
        if isinstance(t, str):
            if op.get('pass_default', True):
                tkw['timeout'] = DEFAULT_TIMEOUT
        else:
            tkw['timeout'] = t
    key = mkkey(op['key']) if 'key' in op else None
    if o == 'add':
        return cache.add(key, mkval(op['value']), version=ver, **tkw)
    if o == 'set':
        return cache.set(key, mkval(op['value']), version=ver, **tkw)
    if o == 'get_or_set':
        value = mkval(op['value'])
        if op.get('callable'):
            return cache.get_or_set(key, lambda: value, version=ver, **tkw)
        return cache.get_or_set(key, value, version=ver, **tkw)
    if o == 'touch':
        return cache.touch(key, version=ver, **tkw)
    if o == 'get':
        return cache.get(key, version=ver)
    if o == 'delete':
        return cache.delete(key, version=ver)
    if o == 'has_key':
        return cache.has_key(key, version=ver)
    if o == 'pop':
        return cache.pop(key, version=ver)
    if o in ('incr', 'decr', 'incr_version', 'decr_version'):
        f = getattr(cache, o)
        if op.get('delta') is None:
            return f(key, version=ver)
        return f(key, delta=op['delta'], version=ver)
    if o == 'get_many':
        return cache.get_many([mkkey(k) for k in op['keys']], version=ver)
    if o == 'delete_many':
        return cache.delete_many([mkkey(k) for k in op['keys']], version=ver)
    if o == 'set_many':
        return cache.set_many(dict((mkkey(k), mkval(v)) for k, v in op['items']), version=ver, **tkw)
    if o == 'clear':
        return cache.clear()
    raise ValueError('unknown op ' + o)


class Runner:
    """One history: a fresh DjangoCache, LocMemCache and Reference.  Must be used inside instr.Installed(clock, ...)."""

    def __init__(self, params, clock, mkdir):
        """params: SHARDS, TIMEOUT, KEY_PREFIX, VERSION; optional MIN_FILE_SIZE (OPTIONS disk_min_file_size), DATABASE_TIMEOUT,
        CONTEND (install the tracer so that calls of the history can be made under lock contention), INTEGERS (a history of the
        integer-boundary dimension: its disagreements carry the sig prefix integer_), KEYS (a history of the key dimension: keys
        that are not strings; sig prefix key_)."""
        self.params = params
        self.clock = clock
        clock.set(T0)
        self.tracer = None
        self.hook = None
        self.contended_before = False
        self.contended_calls = self.waited_calls = 0
        if params.get('CONTEND'):
            import sched
            # installed before DjangoCache opens its connections: they have to be the tracing kind
            self.tracer = sched.Tracer(before=self._before, after_txn=True)
            self.tracer.__enter__()
        self.dir = mkdir()
        lp = {'TIMEOUT': params['TIMEOUT'], 'KEY_PREFIX': params['KEY_PREFIX'], 'VERSION': params['VERSION']}
        p = dict(lp)
        p['SHARDS'] = params['SHARDS']
        if params.get('DATABASE_TIMEOUT') is not None:
            p['DATABASE_TIMEOUT'] = params['DATABASE_TIMEOUT']
        if params.get('MIN_FILE_SIZE') is not None:
            p['OPTIONS'] = {'disk_min_file_size': params['MIN_FILE_SIZE']}
        self.dj = DjangoCache(self.dir, p)
        _uid[0] += 1
        self.lm_name = 'c19-%d-%d' % (os.getpid(), _uid[0])
        lp['OPTIONS'] = {'MAX_ENTRIES': 10 ** 6}
        self.lm = LocMemCache(self.lm_name, lp)
        self.ref = Reference(params['TIMEOUT'], params['VERSION'])
        self.stale_excluded = 0

    def close(self):
        try:
            self.dj.close()
        except Exception:  # noqa: BLE001
            pass
        if self.tracer is not None:
            self.tracer.__exit__(None, None, None)
            self.tracer = None
        for reg in (dj_locmem._caches, dj_locmem._expire_info, dj_locmem._locks):
            reg.pop(self.lm_name, None)
        shutil.rmtree(self.dir, ignore_errors=True)

    def _before(self, ev):
        if self.hook is not None:
            self.hook(ev)

    def call_impl(self, op):
        """The DjangoCache call; with op['contend'] = k > 0 it is made while one other connection per shard holds that shard's
        write lock: the locks are released when the calling thread makes its (k+1)-th BEGIN attempt (k attempts have failed), and
        with op['rearm'] they are taken again right after each COMMIT / ROLLBACK of the call, so that every transaction of the
        call has to wait through k failed attempts.  The other connections write nothing."""
        k = op.get('contend')
        if not k:
            return invoke(self.dj, op)
        assert self.tracer is not None, 'a contended call needs params CONTEND'
        holders = [sqlite3.connect(os.path.join(self.dir, '%03d' % i, 'cache.db'), isolation_level=None, timeout=0)
                   for i in range(self.params['SHARDS'])]
        st = {'held': False, 'begins': 0, 'failed': 0}

        def acquire():
            got = []
            try:
                for h in holders:
                    h.execute('BEGIN IMMEDIATE')
                    got.append(h)
            except sqlite3.OperationalError:        # not obtainable right now: the call goes on uncontended
                for h in got:
                    h.execute('ROLLBACK')
                return
            st['held'] = True
            st['begins'] = 0

        def release():
            st['held'] = False
            for h in holders:
                h.execute('COMMIT')

        def hook(ev):
            if ev.kind == 'sql' and ev.what == 'BEGIN':
                if st['held']:
                    st['begins'] += 1
                    if st['begins'] > k:
                        release()
                    else:
                        st['failed'] += 1
            elif ev.kind == 'sync' and ev.what in ('after-COMMIT', 'after-ROLLBACK'):
                if op.get('rearm') and not st['held']:
                    acquire()
        self.contended_calls += 1
        try:
            acquire()
            self.hook = hook
            self.tracer.enable(True)
            try:
                return invoke(self.dj, op)
            finally:
                self.tracer.enable(False)
                self.hook = None
        finally:
            self.waited_calls += st['failed'] > 0
            try:
                if st['held']:
                    release()
            finally:
                for h in holders:
                    h.close()

    def step(self, op):
        """Returns a record {'impl','ref','lm','dis': None | (sig, oracle), facts...}."""
        now = op['now']
        assert instr.grid(now) and now >= self.clock.now, ('clock', now, self.clock.now)
        self.clock.set(now)
        o = op['op']
        ref = self.ref
        # facts before the call
        exps = ref.expiries()
        touched = [ref.vk(k, op.get('version')) for k in
                   ([op['key']] if 'key' in op else list(op.get('keys', [])) + [kv[0] for kv in op.get('items', [])])]
        nontrivial = any(vk in ref.ever for vk in touched) or (o == 'clear' and bool(ref.ever))
        pre = None
        if o in ('incr', 'decr'):
            e = ref.d.get(touched[0])
            pre = list(e) if e is not None else None
        lm_stale = False
        if o == 'delete':
            mk = self.lm.make_key(mkkey(op['key']), version=op.get('version'))
            lm_stale = mk in self.lm._cache and self.lm._has_expired(mk)
        # the three calls, clock frozen
        exp = ref.apply(op, now)
        obs = canon_call(op, lambda: self.call_impl(op))
        if o == 'pop':
            lmr = None                      # LocMemCache has no pop: keep its state in step, nothing to compare
            try:
                self.lm.delete(mkkey(op['key']), version=op.get('version'))
            except Exception:  # noqa: BLE001
                pass
        else:
            lmr = canon_call(op, lambda: invoke(self.lm, op))
        assert self.clock.now == now
        dis = None
        # what kind of history the disagreement belongs to (plain ones keep the plain names)
        kind = ('contended_' if op.get('contend') else 'after_contention_' if self.contended_before
                else 'value_' if (has_val(exp) or has_val(obs) or has_val(lmr))
                else 'integer_' if self.params.get('INTEGERS') else 'key_' if self.params.get('KEYS') else '')
        if op.get('contend'):
            self.contended_before = True
        if obs != exp:
            sig = kind + 'mismatch_' + o
            if (pre is not None and pre[1] is not None and pre[1] == now and exp == ['raise', 'ValueError']
                    and obs == ['int', pre[0] + signed_delta(op)]):
                sig = REGRESSION            # D6 is back: `expire_time < now` in Cache.incr where lookups use `>`
            dis = (sig, 'reference')
        elif lmr is not None and lmr != obs:
            if o == 'delete' and lm_stale:
                self.stale_excluded += 1    # LocMemCache drops the stale entry and says True; the contract says False
            else:
                dis = (kind + 'locmem_mismatch_' + o, 'locmem')
        return {'impl': obs, 'ref': exp, 'lm': lmr, 'dis': dis, 'nontrivial': nontrivial,
                'at': now in exps, 'before': (now + TICK) in exps, 'after': (now - TICK) in exps}


def execute(params, ops, clock, mkdir):
    """Runs ops on fresh caches; returns the list of records."""
    r = Runner(params, clock, mkdir)
    try:
        return [r.step(op) for op in ops]
    finally:
        r.close()


def last_sig(params, ops, clock, mkdir):
    r = Runner(params, clock, mkdir)
    try:
        rec = None
        for op in ops:
            rec = r.step(op)
        return rec['dis'][0] if rec and rec['dis'] else None
    except AssertionError:
        return None
    finally:
        r.close()


def shrink(params, ops, sig, clock, mkdir):
    """Greedy: drop ops (then simplify the configuration) while the last op still yields the same sig."""
    cur = list(ops)
    changed = True
    while changed:
        changed = False
        j = len(cur) - 2
        while j >= 0:
            cand = cur[:j] + cur[j + 1:]
            if last_sig(params, cand, clock, mkdir) == sig:
                cur = cand
                changed = True
            j -= 1
    # contention: none on the earlier calls, the weakest form on the failing one
    for j in range(len(cur)):
        if cur[j].get('contend'):
            tries = []
            if j < len(cur) - 1:
                tries.append({k: v for k, v in cur[j].items() if k not in ('contend', 'rearm')})
            if cur[j].get('rearm'):
                tries.append(dict(cur[j], rearm=False))
            if cur[j]['contend'] > 1:
                tries.append(dict(cur[j], contend=1))
            for t in tries:
                cand = cur[:j] + [t] + cur[j + 1:]
                if last_sig(params, cand, clock, mkdir) == sig:
                    cur = cand
    p = dict(params)
    for k, v in (('SHARDS', 1), ('KEY_PREFIX', ''), ('VERSION', 1), ('TIMEOUT', 300), ('DATABASE_TIMEOUT', None)):
        if p.get(k, v) != v:
            q = dict(p)
            q[k] = v
            if last_sig(q, cur, clock, mkdir) == sig:
                p = q
    return p, cur


# ---------------------------------------------------------------------------
# generators


def mkop(o, now, **kw):
    op = {'op': o, 'now': now}
    if o in ('add', 'set', 'get_or_set'):
        op.update(key=kw['key'], value=kw.get('value', 5), timeout=kw.get('timeout', DEF), version=kw.get('version'))
    elif o == 'touch':
        op.update(key=kw['key'], timeout=kw.get('timeout', DEF), version=kw.get('version'))
    elif o in ('get', 'delete', 'has_key', 'pop'):
        op.update(key=kw['key'], version=kw.get('version'))
    elif o in ('incr', 'decr'):
        op.update(key=kw['key'], delta=kw.get('delta'), version=kw.get('version'))
    elif o in ('incr_version', 'decr_version'):
        op.update(key=kw['key'], delta=kw.get('delta', 1), version=kw.get('version'))
    elif o in ('get_many', 'delete_many'):
        op.update(keys=list(kw['keys']), version=kw.get('version'))
    elif o == 'set_many':
        op.update(items=[list(x) for x in kw['items']], timeout=kw.get('timeout', DEF), version=kw.get('version'))
    elif o != 'clear':
        raise ValueError(o)
    if o in HAS_TIMEOUT and isinstance(op['timeout'], str):
        op['pass_default'] = kw.get('pass_default', True)
    if o == 'get_or_set' and kw.get('callable'):
        op['callable'] = True
    if kw.get('contend'):
        op['contend'] = kw['contend']
        op['rearm'] = bool(kw.get('rearm'))
    return op


def gen_params(rng):
    return {'SHARDS': rng.choice([1, 2, 3]),
            'TIMEOUT': 0 if rng.random() < 0.03 else rng.choice([300, None, 5, 7, 5, 7]),
            'KEY_PREFIX': rng.choice(['', 'p', 'a:b']),
            'VERSION': rng.choice([1, 1, 2])}


def gen_clock(rng, now, ref):
    """Boundary-biased: exactly an outstanding expiry, one tick before it, one tick after it, or a plain step."""
    out = sorted(t for t in ref.expiries() if t + TICK >= now)
    if out and rng.random() < 0.4:
        e = out[0] if rng.random() < 0.6 else rng.choice(out)
        t = e + rng.choice([-TICK, -TICK, 0, 0, TICK])
        if t >= now:
            return t
    return now + rng.choice([0, 0, 0, TICK, 1, 2.5])


def gen_op(rng, now, ref, values=None, keys=None):
    """values: None = integers 0..9 (the histories the model is run on); else a list of value specs mixed with them.
    keys: None = the five text keys; else a list of key specs (the reference knows a key by its text: a known key is addressed through
    any spec of the pool that has this text)."""
    o = rng.choices(OPS, weights=[WEIGHTS[x] for x in OPS])[0]
    known = sorted(ref.d.keys())
    pool = KEYS if keys is None else keys
    by_text = {}
    for spec in (keys or []):
        by_text.setdefault(str(mkkey(spec)), []).append(spec)

    def value():
        if values is not None and rng.random() < 0.6:
            return rng.choice(values)
        return rng.randrange(10)

    def version():
        r = rng.random()
        if r < 0.04:
            return rng.choice([0, 3])
        return rng.choice([None, None, None, 1, 2, 2])

    def key_ver():
        if known and rng.random() < 0.65:
            v, k = rng.choice(known)
            if keys is not None:
                k = rng.choice(by_text.get(k, [k]))
            r = rng.random()
            if r < 0.7:
                return k, (v if (v != ref.version or rng.random() < 0.5) else None)
            return k, version()
        return rng.choice(pool[:3] + pool), version()

    def timeout():
        return rng.choice([DEF, DEF, None, 0, -1, 5, 5])

    def some_keys():
        return rng.sample(pool, rng.choice([1, 2, 3]))

    if o == 'clear':
        return mkop(o, now)
    if o in ('get_many', 'delete_many'):
        return mkop(o, now, keys=some_keys(), version=version())
    if o == 'set_many':
        return mkop(o, now, items=[[k, value()] for k in some_keys()], timeout=timeout(), version=version(),
                    pass_default=rng.random() < 0.5)
    k, v = key_ver()
    if values is not None and o in ('incr', 'decr'):
        e = ref.d.get(ref.vk(k, v))
        if e is not None and not plain_int(e[0]):
            o = 'get'                       # arithmetic on a value that is not an integer is outside the property text
    if o in ('add', 'set', 'get_or_set'):
        return mkop(o, now, key=k, value=value(), timeout=timeout(), version=v, pass_default=rng.random() < 0.5,
                    callable=values is not None and o == 'get_or_set' and rng.random() < 0.3)
    if o == 'touch':
        return mkop(o, now, key=k, timeout=timeout(), version=v, pass_default=rng.random() < 0.5)
    if o in ('incr', 'decr'):
        return mkop(o, now, key=k, delta=rng.choice([None, 1, 1, 2, -1]), version=v)
    if o in ('incr_version', 'decr_version'):
        return mkop(o, now, key=k, delta=rng.choice([1, 1, 2]), version=v)
    return mkop(o, now, key=k, version=v)


def directed():
    """Histories that make typical edits of djangocache.py observable.  Expected results come from the reference."""
    H = []
    T = TICK

    def hist(name, steps, **pov):
        params = {'SHARDS': 1, 'TIMEOUT': 300, 'KEY_PREFIX': '', 'VERSION': 1}
        params.update(pov)
        H.append((name, params, [mkop(o, T0 + dt, **kw) for dt, o, kw in steps]))

    a = dict(key='a')
    for z in (0, -1):
        for pov in ({}, {'TIMEOUT': None}, {'TIMEOUT': 5, 'KEY_PREFIX': 'p', 'SHARDS': 2}):
            hist('set_timeout_%d' % z, [
                (0, 'set', dict(key='a', value=5, timeout=z)),
                (0, 'get', a), (0, 'has_key', a), (0, 'incr', a), (0, 'decr', dict(key='a', delta=2)),
                (0, 'touch', dict(key='a', timeout=5)), (0, 'delete', a), (0, 'pop', a),
                (0, 'get_many', dict(keys=['a', 'b'])),
                (T, 'get', a), (T, 'has_key', a), (T, 'incr', dict(key='a', delta=1)),
                (T, 'add', dict(key='a', value=7)), (T, 'get', a),
                (T, 'set', dict(key='a', value=8, timeout=z)), (T, 'get', a), (T, 'has_key', a),
                (T, 'add', dict(key='a', value=9, timeout=z)), (T, 'get', a),
                (T, 'get_or_set', dict(key='a', value=4, timeout=z)), (T, 'get', a),
                (1, 'set_many', dict(items=[['a', 1], ['b', 2]], timeout=z)), (1, 'get_many', dict(keys=['a', 'b'])),
                (1, 'incr', a), (2, 'incr', a),
            ], **pov)
    # touch with each timeout class on a live key, lookups at / around the new expiry
    for pov in ({}, {'TIMEOUT': 7}, {'TIMEOUT': None, 'VERSION': 2}):
        d = pov.get('TIMEOUT', 300)
        steps = [
            (0, 'set', dict(key='a', value=5, timeout=None)),
            (1, 'touch', dict(key='a', timeout=5)),
            (6 - T, 'get', a), (6 - T, 'has_key', a), (6 - T, 'incr', a),
            (6, 'get', a), (6, 'has_key', a), (6, 'touch', dict(key='a', timeout=5)), (6, 'delete', a),
            (6 + T, 'get', a), (6 + T, 'incr', a),
            (7, 'set', dict(key='a', value=3, timeout=5)),
            (8, 'touch', dict(key='a', timeout=None)),
            (12, 'get', a), (5000, 'get', a), (5000, 'has_key', a),
            (5000, 'touch', dict(key='a', timeout=DEF)),
        ]
        if d is not None:
            steps += [(5000 + d - T, 'get', a), (5000 + d - T, 'has_key', a), (5000 + d, 'get', a),
                      (5000 + d, 'has_key', a), (5000 + d, 'touch', dict(key='a', timeout=5)),
                      (5000 + d + T, 'incr', a)]
        else:
            steps += [(9000, 'get', a), (9000, 'has_key', a)]
        steps += [
            (9001, 'set', dict(key='b', value=1, timeout=5)),
            (9001, 'touch', dict(key='b', timeout=DEF, pass_default=False)),
            (9006, 'get', dict(key='b')),
            (9006, 'touch', dict(key='b', timeout=0)), (9006, 'get', dict(key='b')), (9006, 'has_key', dict(key='b')),
            (9006, 'touch', dict(key='b', timeout=5)),
            (9007, 'set', dict(key='c', value=2, timeout=None)),
            (9007, 'touch', dict(key='c', timeout=-1)), (9007, 'get', dict(key='c')), (9007, 'incr', dict(key='c')),
            (9007, 'touch', dict(key='zz', timeout=5)),
        ]
        hist('touch', steps, **pov)
    # versions
    for pov in ({}, {'VERSION': 2, 'KEY_PREFIX': 'a:b'}, {'KEY_PREFIX': 'p', 'SHARDS': 3}):
        own = pov.get('VERSION', 1)
        other = 3 - own
        a2 = dict(key='a', version=other)
        hist('versions', [
            (0, 'set', dict(key='a', value=5)),
            (0, 'has_key', a2), (0, 'get', a2), (0, 'delete', a2), (0, 'pop', a2), (0, 'incr', a2), (0, 'decr', a2),
            (0, 'touch', dict(key='a', version=other, timeout=5)), (0, 'get_many', dict(keys=['a'], version=other)),
            (0, 'has_key', a), (0, 'has_key', dict(key='a', version=own)), (0, 'get', a),
            (0, 'add', dict(key='a', value=9, version=other)), (0, 'get', a), (0, 'get', a2),
            (0, 'incr', dict(key='a', delta=2, version=other)), (0, 'get', a), (0, 'get', a2),
            (0, 'delete', a2), (0, 'has_key', a), (0, 'has_key', a2),
            (0, 'set', dict(key='1:a', value=1)), (0, 'set', dict(key='a', value=2, version=other)),
            (0, 'get', dict(key='1:a')), (0, 'get', dict(key='a:1')), (0, 'get', a2),
            (0, 'delete_many', dict(keys=['a', '1:a'], version=other)), (0, 'get', a), (0, 'get', dict(key='1:a')),
        ], **pov)
    # incr / decr
    hist('incr_decr', [
        (0, 'incr', a), (0, 'decr', a), (0, 'incr', dict(key='a', delta=2)),
        (0, 'set', dict(key='a', value=5, timeout=5)),
        (0, 'incr', a), (0, 'incr', dict(key='a', delta=2)), (0, 'decr', a), (0, 'decr', dict(key='a', delta=2)),
        (0, 'incr', dict(key='a', delta=-1)), (0, 'decr', dict(key='a', delta=-1)), (0, 'get', a),
        (2, 'incr', a), (5 - T, 'get', a), (5 - T, 'decr', dict(key='a', delta=2)),
        (5 + T, 'incr', a), (5 + T, 'get', a), (5 + T, 'decr', a),
    ])
    hist('incr_at_expiry', [
        (0, 'set', dict(key='a', value=5, timeout=5)),
        (5 - T, 'incr', a), (5, 'get', a), (5, 'has_key', a), (5, 'incr', a), (5, 'get', a), (5 + T, 'incr', a),
    ])
    # delete
    hist('delete', [
        (0, 'delete', a), (0, 'set', dict(key='a', value=5, timeout=5)), (0, 'delete', a), (0, 'delete', a), (0, 'get', a),
        (1, 'set', dict(key='a', value=5, timeout=5)), (6 - T, 'has_key', a), (6, 'delete', a), (6 + T, 'delete', a),
        (7, 'set', dict(key='b', value=1, timeout=None)), (7, 'delete_many', dict(keys=['a', 'b', 'c'])),
        (7, 'get_many', dict(keys=['a', 'b', 'c'])),
    ], SHARDS=2)
    # add
    for pov in ({}, {'TIMEOUT': 5}):
        hist('add', [
            (0, 'add', dict(key='a', value=5, timeout=5)), (0, 'add', dict(key='a', value=6, timeout=None)), (0, 'get', a),
            (5 - T, 'add', dict(key='a', value=7)), (5 - T, 'get', a),
            (5, 'add', dict(key='a', value=8, timeout=5)), (5, 'get', a), (5, 'add', dict(key='a', value=9)),
            (10, 'get', a), (10 + T, 'add', dict(key='a', value=1, pass_default=False)), (10 + T, 'get', a),
            (15, 'get', a), (15 + T, 'get', a), (20, 'add', dict(key='a', value=2, timeout=0)), (20, 'get', a),
            (400, 'get', a), (400, 'add', dict(key='a', value=3, timeout=None)), (400, 'add', dict(key='a', value=4, timeout=-1)),
            (400, 'get', a),
        ], **pov)
    # get_or_set
    hist('get_or_set', [
        (0, 'get_or_set', dict(key='a', value=5, timeout=5)), (0, 'get', a), (0, 'get_or_set', dict(key='a', value=6)),
        (5 - T, 'get_or_set', dict(key='a', value=7)), (5, 'get_or_set', dict(key='a', value=8, timeout=None)),
        (5, 'get', a), (9000, 'get_or_set', dict(key='a', value=9, timeout=0)),
        (9000, 'get_or_set', dict(key='b', value=1, timeout=0)), (9000, 'get', dict(key='b')),
        (9000, 'get_or_set', dict(key='b', value=2, timeout=-1)), (9000, 'has_key', dict(key='b')),
        (9000, 'get_or_set', dict(key='b', value=3, version=2)), (9000, 'get', dict(key='b')),
        (9000, 'get', dict(key='b', version=2)), (9300 - T, 'get', dict(key='b', version=2)),
        (9300, 'get', dict(key='b', version=2)),
    ])
    # incr_version / decr_version (the moved item gets the default timeout)
    for pov in ({'TIMEOUT': 5}, {}, {'TIMEOUT': None, 'VERSION': 2, 'KEY_PREFIX': 'p'}):
        own = pov.get('VERSION', 1)
        d = pov.get('TIMEOUT', 300)
        steps = [
            (0, 'incr_version', a), (0, 'decr_version', a),
            (0, 'set', dict(key='a', value=5, timeout=None)),
            (1, 'incr_version', a), (1, 'get', a), (1, 'get', dict(key='a', version=own + 1)),
            (1, 'has_key', dict(key='a', version=own + 1)), (1, 'incr_version', a),
        ]
        if d is not None:
            steps += [(1 + d - T, 'get', dict(key='a', version=own + 1)), (1 + d, 'get', dict(key='a', version=own + 1)),
                      (1 + d, 'decr_version', dict(key='a', version=own + 1))]
        steps += [
            (1000, 'set', dict(key='b', value=7, timeout=5, version=own + 1)),
            (1000, 'decr_version', dict(key='b', version=own + 1)), (1000, 'get', dict(key='b')),
            (1000, 'get', dict(key='b', version=own + 1)),
            (1000, 'incr_version', dict(key='b', delta=2)), (1000, 'get', dict(key='b', version=own + 2)),
            (1000, 'get', dict(key='b')), (1000, 'decr_version', dict(key='b', delta=2, version=own + 2)),
            (1000, 'get', dict(key='b')), (1004, 'get', dict(key='b')), (1005, 'get', dict(key='b')),
            (1006, 'incr_version', dict(key='b')),
        ]
        hist('versions_move', steps, **pov)
    # set_many / get_many / delete_many
    hist('many', [
        (0, 'set_many', dict(items=[['a', 1], ['b', 2], ['a:1', 3]], timeout=5)),
        (0, 'get_many', dict(keys=['a:1', 'a', 'c', 'b'])), (0, 'get_many', dict(keys=['a', 'b'], version=2)),
        (0, 'set_many', dict(items=[['c', 4]], version=2, pass_default=False)),
        (0, 'get_many', dict(keys=['c'])), (0, 'get_many', dict(keys=['c'], version=2)),
        (1, 'delete_many', dict(keys=['a', 'zz'])), (1, 'get_many', dict(keys=['a', 'b', 'a:1'])),
        (5 - T, 'get_many', dict(keys=['b', 'a:1'])), (5, 'get_many', dict(keys=['b', 'a:1'])),
        (5, 'set_many', dict(items=[['a', 1], ['b', 2]], timeout=None)), (9000, 'get_many', dict(keys=['b', 'a'])),
        (9000, 'set_many', dict(items=[['a', 3]], timeout=-1)), (9000, 'get_many', dict(keys=['b', 'a'])),
        (9000, 'delete_many', dict(keys=['c'], version=2)), (9000, 'get_many', dict(keys=['c'], version=2)),
    ], KEY_PREFIX='a:b', SHARDS=3)
    # pop, clear
    hist('pop_clear', [
        (0, 'pop', a), (0, 'set', dict(key='a', value=5, timeout=5)), (0, 'pop', dict(key='a', version=2)), (0, 'pop', a),
        (0, 'get', a), (0, 'pop', a), (1, 'set', dict(key='a', value=6, timeout=5)), (6 - T, 'get', a), (6, 'pop', a),
        (6 + T, 'pop', a), (7, 'set', dict(key='a', value=1, timeout=None)), (7, 'set', dict(key='b', value=2, version=2)),
        (7, 'clear', {}), (7, 'get', a), (7, 'get', dict(key='b', version=2)), (7, 'has_key', a), (7, 'incr', a),
        (7, 'add', dict(key='a', value=3)), (7, 'get', a), (7, 'clear', {}), (7, 'clear', {}),
    ], SHARDS=2)
    # default timeout: omitted and explicit, at its boundary
    for d in (5, 7, 300):
        hist('default_timeout', [
            (0, 'set', dict(key='a', value=1, pass_default=False)), (0, 'set', dict(key='b', value=2, pass_default=True)),
            (0, 'add', dict(key='c', value=3, pass_default=False)),
            (d - T, 'get_many', dict(keys=['a', 'b', 'c'])), (d, 'get_many', dict(keys=['a', 'b', 'c'])),
            (d, 'has_key', a), (d + T, 'incr', dict(key='b')),
        ], TIMEOUT=d)
    hist('default_timeout_none', [
        (0, 'set', dict(key='a', value=1, pass_default=False)), (0, 'add', dict(key='b', value=2)),
        (0, 'get_or_set', dict(key='c', value=3)), (10 ** 6, 'get_many', dict(keys=['a', 'b', 'c'])),
        (10 ** 6, 'touch', dict(key='a', timeout=5)), (10 ** 6 + 5, 'get', a),
    ], TIMEOUT=None)
    return H


# ---------------------------------------------------------------------------
# the value alphabet


DEFAULT_MIN_FILE_SIZE = 2 ** 15      # diskcache's documented default of disk_min_file_size


def value_alphabet(m):
    """Value specs on both sides of the file threshold m (a str / bytes value of at least m characters / bytes is kept in a file,
    pickled values by the size of their pickle): text over CR, LF, CRLF and a non-ASCII letter, bytes, containers, a float."""
    def text(unit, total):
        return {'t': 'str', 'unit': unit, 'n': -(-total // len(unit))}

    def data(unit, total):
        return {'t': 'bytes', 'unit': unit, 'n': -(-total // (len(unit) // 2))}
    big = text('q\r\n', m + 9)
    return [
        text('ab\r\n', m + 40), text('a\rb', m + 40), text('x\ny\r\nz\r', 2 * m), text('\r', m), text('\r', m + 1),
        text('\r\n', m - 1 if m % 2 else m - 2), text('\n', m + 5), text('\u00e9\r\n', m + 7), text('line\r\n', m // 2 if m > 64 else 12),
        {'t': 'str', 'unit': 'sm\r\nx\r', 'n': 1}, {'t': 'str', 'unit': '', 'n': 0},
        data('0d0a', m + 4), data('00ff0d41', m), data('0d', m - 1), {'t': 'bytes', 'unit': '0d0a1a', 'n': 2},
        {'t': 'tuple', 'items': [1, big]}, {'t': 'list', 'items': [big, {'t': 'bytes', 'unit': '0d0a', 'n': 3}, 2]},
        {'t': 'dict', 'items': [['k', big], ['n', {'t': 'float', 'v': 0.5}]]}, {'t': 'tuple', 'items': [1, 'a\rb']},
        {'t': 'list', 'items': []}, {'t': 'float', 'v': 1.5},
    ]


def directed_values():
    """One history per value of the alphabet (default threshold and a small one): the value goes in through set, add, get_or_set
    (plain and callable default) and set_many and comes back through get, get_many, get_or_set, pop and the copies made by
    incr_version / decr_version; expected results come from the reference."""
    H = []
    i = 0
    for m in (None, 64):
        for spec in value_alphabet(m or DEFAULT_MIN_FILE_SIZE):
            i += 1
            params = {'SHARDS': 1 + i % 3, 'TIMEOUT': (300, None, 7)[i % 3], 'KEY_PREFIX': ('', 'p', 'a:b')[(i // 3) % 3],
                      'VERSION': 1 + (i // 2) % 2, 'MIN_FILE_SIZE': m}
            own = params['VERSION']
            a, b, c = dict(key='a'), dict(key='b'), dict(key='c')
            up = dict(key='a', version=own + 1)
            steps = [
                (0, 'set', dict(key='a', value=spec, timeout=None)), (0, 'get', a), (0, 'get_many', dict(keys=['a', 'b'])),
                (0, 'get_or_set', dict(key='a', value=1)), (0, 'add', dict(key='a', value=2)), (0, 'get', a),
                (0, 'add', dict(key='b', value=spec, timeout=5)), (0, 'get', b), (0, 'has_key', b),
                (1, 'incr_version', a), (1, 'get', up), (1, 'get', a), (1, 'get_many', dict(keys=['b', 'a'], version=own + 1)),
                (1, 'touch', dict(key='a', timeout=None, version=own + 1)), (1, 'decr_version', up), (1, 'get', a), (1, 'has_key', up),
                (2, 'pop', a), (2, 'get', a), (2, 'pop', a),
                (2, 'get_or_set', dict(key='c', value=spec)), (2, 'get', c), (2, 'get_or_set', dict(key='c', value=3)),
                (2, 'get_or_set', dict(key='a:1', value=spec, timeout=5, callable=True)), (2, 'get', dict(key='a:1')),
                (3, 'set_many', dict(items=[['a', spec], ['c', 3], ['1:a', spec]], timeout=None)),
                (3, 'get_many', dict(keys=['c', 'a', '1:a', 'b'])), (3, 'set', dict(key='a', value=4)), (3, 'get', a),
                (3, 'set', dict(key='a', value=spec, timeout=5)), (3, 'get', a), (3, 'delete', a), (3, 'get', a),
                (5, 'get', b), (5, 'pop', b), (5, 'incr_version', dict(key='1:a', delta=2)),
                (5, 'pop', dict(key='1:a', version=own + 2)),
            ]
            H.append(('value', params, [mkop(o, T0 + dt, **kw) for dt, o, kw in steps]))
    return H


# ---------------------------------------------------------------------------
# integers on and around the machine boundaries


I64_MIN, I64_MAX = -2 ** 63, 2 ** 63 - 1
INT_EDGES = [2 ** 31 - 1, 2 ** 31, 2 ** 31 + 1, -2 ** 31 - 1, -2 ** 31, -2 ** 31 + 1, 2 ** 32, -2 ** 32 - 1,
             2 ** 53 - 1, 2 ** 53, 2 ** 53 + 1, -2 ** 53, -2 ** 53 - 1,
             2 ** 63 - 2, 2 ** 63 - 1, 2 ** 63, 2 ** 63 + 1, -2 ** 63 + 1, -2 ** 63, -2 ** 63 - 1, -2 ** 63 - 2,
             2 ** 64 - 1, 2 ** 64, 2 ** 64 + 1, -2 ** 64, 10 ** 30, -10 ** 30]


def arithmetic_ok(v, d):
    """incr / decr by d on the stored value v is inside the property: an integer, operand and result inside 64 bits"""
    return plain_int(v) and I64_MIN <= v <= I64_MAX and I64_MIN <= v + d <= I64_MAX


def directed_integers():
    """One history per boundary integer: the integer goes in through set, add, get_or_set (plain and callable default) and set_many,
    comes back through get, get_many, get_or_set, pop, touch / has_key see it, incr_version / decr_version copy it, and incr / decr
    move it wherever operand and result stay inside 64 bits; expected results come from the reference."""
    H = []
    for i, v in enumerate(INT_EDGES):
        params = {'SHARDS': 1 + i % 3, 'TIMEOUT': (300, None, 7)[i % 3], 'KEY_PREFIX': ('', 'p', 'a:b')[(i // 3) % 3],
                  'VERSION': 1 + (i // 2) % 2, 'INTEGERS': True}
        own = params['VERSION']
        a, b, c = dict(key='a'), dict(key='b'), dict(key='c')
        up = dict(key='a', version=own + 1)
        steps = [
            (0, 'set', dict(key='a', value=v, timeout=None)), (0, 'get', a), (0, 'has_key', a), (0, 'get_many', dict(keys=['a', 'b'])),
            (0, 'get_or_set', dict(key='a', value=1)), (0, 'add', dict(key='a', value=2)), (0, 'get', a),
            (0, 'add', dict(key='b', value=v, timeout=5)), (0, 'get', b), (0, 'has_key', b),
        ]
        cur = v
        for o, d in (('incr', None), ('decr', 2), ('decr', None), ('incr', 1), ('decr', -1), ('incr', -2)):
            sd = signed_delta({'op': o, 'delta': d})
            if arithmetic_ok(cur, sd):
                steps += [(0, o, dict(key='a', delta=d)), (0, 'get', a)]
                cur += sd
        steps += [
            (0, 'set', dict(key='a', value=v, timeout=None)),
            (1, 'incr_version', a), (1, 'get', up), (1, 'get', a), (1, 'get_many', dict(keys=['b', 'a'], version=own + 1)),
            (1, 'touch', dict(key='a', timeout=None, version=own + 1)), (1, 'decr_version', up), (1, 'get', a), (1, 'has_key', up),
            (2, 'pop', a), (2, 'get', a), (2, 'pop', a),
            (2, 'get_or_set', dict(key='c', value=v)), (2, 'get', c), (2, 'get_or_set', dict(key='c', value=3)),
            (2, 'get_or_set', dict(key='a:1', value=v, timeout=5, callable=True)), (2, 'get', dict(key='a:1')),
            (3, 'set_many', dict(items=[['a', v], ['c', -v], ['1:a', v]], timeout=None)),
            (3, 'get_many', dict(keys=['c', 'a', '1:a', 'b'])), (3, 'touch', dict(key='a', timeout=5)), (3, 'get', a),
            (3, 'set', dict(key='a', value=4)), (3, 'get', a),
            (3, 'set', dict(key='a', value=v, timeout=5)), (3, 'get', a), (3, 'delete', a), (3, 'get', a),
            (3, 'add', dict(key='a', value=v)), (3, 'get', a), (3, 'get_or_set', dict(key='a', value=-v)),
            (5, 'get', b), (5, 'pop', b), (5, 'incr_version', dict(key='1:a', delta=2)),
            (5, 'pop', dict(key='1:a', version=own + 2)), (5, 'pop', c), (5, 'get_many', dict(keys=['a', 'b', 'c'])),
        ]
        H.append(('integer', params, [mkop(o, T0 + dt, **kw) for dt, o, kw in steps]))
    return H


def gen_integer_op(rng, now, ref):
    """gen_op over the boundary integers (mixed with 0..9); an incr / decr whose operand or result would leave 64 bits becomes a get"""
    op = gen_op(rng, now, ref, values=INT_EDGES)
    if op['op'] in ('incr', 'decr'):
        e = ref.d.get(ref.vk(op['key'], op.get('version')))
        if e is not None and not arithmetic_ok(e[0], signed_delta(op)):
            op = mkop('get', now, key=op['key'], version=op.get('version'))
    return op


# ---------------------------------------------------------------------------
# keys that are not strings


KEY_OBJECTS = [(), ('user', 42), ('a', 'b', 'c'), ('x',), 7, 0, -3, b'raw', None, 2.5, True, ((1, 2), 'n'), 10 ** 20, ('', None)]
KEY_POOL = [keyspec(k) for k in KEY_OBJECTS] + ['a', 'b', '7', 'None', "('user', 42)", '()']      # the last four: text that IS the text of an object above


def outside_django(op, ref, now):
    """incr_version / decr_version are BaseCache's own methods, inherited by DjangoCache and LocMemCache alike; on a key that is not there
    they format their message with the caller's key, which for a tuple of length other than 1 is a TypeError of Django itself."""
    if op['op'] not in ('incr_version', 'decr_version'):
        return False
    k = mkkey(op['key'])
    return isinstance(k, tuple) and len(k) != 1 and ref.live(ref.vk(op['key'], op.get('version')), now) is None


def gen_key_op(rng, now, ref):
    """gen_op over the key pool; a version move Django itself cannot report (see outside_django) becomes an incr / decr of that key"""
    op = gen_op(rng, now, ref, keys=KEY_POOL)
    if outside_django(op, ref, now):
        op = mkop('incr' if op['op'] == 'incr_version' else 'decr', now, key=op['key'], delta=rng.choice([None, 1, 2]), version=op.get('version'))
    return op


def directed_keys():
    """One history per key object: every method on the key while it is missing, live, expired (one tick before, at and after the
    instant), moved to another version, popped, deleted and stored with a timeout of 0 / -1; the text of the object, used as a plain
    string key, addresses the same entry; expected results come from the reference."""
    H = []
    T = TICK
    for i, obj in enumerate(KEY_OBJECTS):
        params = {'SHARDS': 1 + i % 3, 'TIMEOUT': (300, None, 7)[i % 3], 'KEY_PREFIX': ('', 'p', 'a:b')[(i // 3) % 3],
                  'VERSION': 1 + (i // 2) % 2, 'KEYS': True}
        own = params['VERSION']
        k = keyspec(obj)
        alias = str(obj)
        K, A, up = dict(key=k), dict(key=alias), dict(key=k, version=own + 1)
        steps = [
            (0, 'incr', K), (0, 'decr', dict(key=k, delta=2)), (0, 'get', K), (0, 'has_key', K), (0, 'touch', dict(key=k, timeout=5)),
            (0, 'delete', K), (0, 'pop', K), (0, 'get_many', dict(keys=[k, 'b'])), (0, 'delete_many', dict(keys=[k])),
            (0, 'add', dict(key=k, value=5, timeout=5)), (0, 'get', K), (0, 'get', A), (0, 'has_key', K), (0, 'has_key', A),
            (0, 'get_many', dict(keys=[k, 'b'])), (0, 'incr', K), (0, 'decr', dict(key=k, delta=2)), (0, 'incr', A),
            (0, 'add', dict(key=k, value=9)), (0, 'get_or_set', dict(key=k, value=1)), (0, 'incr', up), (0, 'decr', up), (0, 'get', up),
            (5 - T, 'incr', K), (5, 'incr', K), (5, 'decr', K), (5, 'incr', dict(key=k, delta=-1)), (5, 'get', K), (5, 'has_key', K),
            (5, 'touch', dict(key=k, timeout=None)), (5 + T, 'incr', K), (5 + T, 'decr', dict(key=k, delta=3)),
            (6, 'set', dict(key=k, value=3, timeout=None)), (6, 'set_many', dict(items=[[k, 8], ['b', 2]], timeout=None)),
            (6, 'get_many', dict(keys=[k, 'b', alias])), (6, 'touch', dict(key=k, timeout=5)), (6, 'incr', dict(key=k, delta=2)),
            (7, 'incr_version', K), (7, 'get', up), (7, 'incr', K), (7, 'decr', K), (7, 'incr', up), (7, 'decr_version', up), (7, 'get', K),
            (8, 'pop', K), (8, 'incr', K), (8, 'get_or_set', dict(key=k, value=2, callable=True)), (8, 'decr', K), (8, 'delete', K),
            (8, 'decr', K), (8, 'set', dict(key=alias, value=4)), (8, 'incr', K), (8, 'delete_many', dict(keys=[k, 'b'])), (8, 'incr', A),
            (8, 'set', dict(key=k, value=1, timeout=0)), (8, 'incr', K), (8, 'set', dict(key=k, value=1, timeout=-1)), (8, 'decr', K),
            (8, 'add', dict(key=k, value=6, timeout=None)), (9, 'clear', {}), (9, 'incr', K), (9, 'get', K),
        ]
        H.append(('key', params, [mkop(o, T0 + dt, **kw) for dt, o, kw in steps]))
    return H


# ---------------------------------------------------------------------------
# contention


def directed_contention():
    """Every method of the contract once as the contended call (twice: k = 1 re-armed, k = 2 once), on live and on missing keys,
    followed by lookups of every key under both versions now and after the short timeouts have run out."""
    H = []
    finals = {
        'set': [('set', dict(key='a', value=9, timeout=5)), ('set', dict(key='c', value=3))],
        'add': [('add', dict(key='c', value=3)), ('add', dict(key='a', value=4))],
        'get': [('get', dict(key='a')), ('get', dict(key='zz'))],
        'touch': [('touch', dict(key='a', timeout=5)), ('touch', dict(key='zz', timeout=5)), ('touch', dict(key='b', timeout=None))],
        'delete': [('delete', dict(key='a')), ('delete', dict(key='a')), ('delete', dict(key='b'))],
        'incr': [('incr', dict(key='a')), ('incr', dict(key='zz')), ('incr', dict(key='b', delta=2))],
        'decr': [('decr', dict(key='a', delta=2)), ('decr', dict(key='zz'))],
        'has_key': [('has_key', dict(key='a')), ('has_key', dict(key='c'))],
        'get_many': [('get_many', dict(keys=['a', 'b', 'c']))],
        'set_many': [('set_many', dict(items=[['a', 1], ['c', 2], ['b', 3]], timeout=5))],
        'delete_many': [('delete_many', dict(keys=['a', 'b', 'c']))],
        'get_or_set': [('get_or_set', dict(key='c', value=3)), ('get_or_set', dict(key='a', value=8))],
        'incr_version': [('incr_version', dict(key='b')), ('incr_version', dict(key='zz'))],
        'decr_version': None,
        'pop': [('pop', dict(key='a')), ('pop', dict(key='a')), ('pop', dict(key='b'))],
        'clear': [('clear', {})],
    }
    i = 0
    for o in OPS:
        for k, rearm in ((1, True), (2, False)):
            i += 1
            params = {'SHARDS': 1 + i % 3, 'TIMEOUT': (300, 7, None)[i % 3], 'KEY_PREFIX': ('', 'p', 'a:b')[(i // 3) % 3],
                      'VERSION': 1 + (i // 2) % 2, 'CONTEND': True, 'DATABASE_TIMEOUT': None if i % 8 == 0 else 0}
            own = params['VERSION']
            other = 3 - own
            fin = finals[o] or [('decr_version', dict(key='a', version=own + 1)), ('decr_version', dict(key='zz'))]
            ops = [mkop('set', T0, key='a', value=5, timeout=None), mkop('set', T0, key='b', value=7, timeout=5),
                   mkop('set', T0, key='a', value=6, version=own + 1), mkop('add', T0, key='a:1', value=1),
                   mkop('set', T0, key='b', value=2, version=other)]
            ops += [mkop(f, T0 + 1, contend=k, rearm=rearm, **kw) for f, kw in fin]
            for t in (T0 + 1, T0 + 6 - TICK, T0 + 6, T0 + 20):
                for v in (None, own + 1, other, own + 2):
                    ops.append(mkop('get_many', t, keys=KEYS + ['zz'], version=v))
                ops += [mkop('has_key', t, key='a'), mkop('has_key', t, key='b'), mkop('has_key', t, key='c')]
            H.append(('contention_' + o, params, ops))
    return H


def gen_contended_op(rng, now, ref):
    op = gen_op(rng, now, ref)
    if rng.random() < 0.4:
        op['contend'] = rng.choice([1, 1, 2, 3])
        op['rearm'] = rng.random() < 0.6
    return op


# ---------------------------------------------------------------------------
# monitor


class Stats:
    def __init__(self):
        self.ops = {}
        self.tclass = {'default': 0, 'none': 0, 'zero': 0, 'negative': 0, 'positive': 0}
        self.at = self.before = self.after = 0
        self.errors = 0
        self.calls = 0
        self.histories = 0
        self.directed = 0
        self.configs = set()
        self.stale = 0
        self.per_sig = {}
        self.sampled = set()
        self.value_histories = self.value_calls = self.file_values = 0
        self.contention_histories = self.contended = self.waited = 0
        self.contended_ops = {}
        self.integer_histories = self.integer_calls = 0
        self.key_histories = self.key_calls = 0

    def call(self, op, rec):
        self.calls += 1
        self.ops[op['op']] = self.ops.get(op['op'], 0) + 1
        if op['op'] in HAS_TIMEOUT:
            t = op['timeout']
            c = ('default' if isinstance(t, str) else 'none' if t is None else 'zero' if t == 0
                 else 'negative' if t < 0 else 'positive')
            self.tclass[c] += 1
        self.at += rec['at']
        self.before += rec['before']
        self.after += rec['after']
        self.errors += rec['impl'][0] == 'raise'
        self.value_calls += has_val(rec['impl'])
        self.integer_calls += big_int(rec['impl'])
        self.key_calls += any(isinstance(k, str) and k.startswith(KEYTAG) for k in [op.get('key')] + list(op.get('keys', [])) + [kv[0] for kv in op.get('items', [])])
        if op.get('contend'):
            self.contended_ops[op['op']] = self.contended_ops.get(op['op'], 0) + 1

    def extra(self):
        return {'op_histogram': dict(sorted(self.ops.items())), 'timeout_class_histogram': self.tclass,
                'calls_at_expiry_instant': self.at, 'calls_one_tick_before_expiry': self.before,
                'calls_one_tick_after_expiry': self.after,
                'error_fraction': round(self.errors / self.calls, 4) if self.calls else 0.0,
                'histories': self.histories, 'directed_histories': self.directed, 'configs': len(self.configs),
                'locmem_delete_stale_excluded': self.stale, 'violations_by_sig': dict(sorted(self.per_sig.items())),
                'value_histories': self.value_histories, 'calls_returning_a_non_integer_value': self.value_calls,
                'key_histories': self.key_histories, 'calls_with_a_key_that_is_not_a_string': self.key_calls,
                'integer_boundary_histories': self.integer_histories,
                'calls_returning_an_integer_of_at_least_2**31': self.integer_calls,
                'contention_histories': self.contention_histories, 'contended_calls': self.contended,
                'contended_calls_with_a_failed_begin': self.waited,
                'contended_op_histogram': dict(sorted(self.contended_ops.items()))}


def cfg_of(params):
    return [params['SHARDS'], params['TIMEOUT'], params['KEY_PREFIX'], params['VERSION']]


def cfg_extra(params):
    """the optional parameters of a history, when they are not the backend's defaults"""
    out = ''
    if params.get('MIN_FILE_SIZE') is not None:
        out += ', OPTIONS disk_min_file_size=%r' % params['MIN_FILE_SIZE']
    if params.get('DATABASE_TIMEOUT') is not None:
        out += ', DATABASE_TIMEOUT=%r' % params['DATABASE_TIMEOUT']
    return out


def report(res, st, params, ops, i, rec, clock, mkdir):
    sig, oracle = rec['dis']
    n = st.per_sig.get(sig, 0)
    st.per_sig[sig] = n + 1
    hp, hops = params, ops[:i + 1]
    if n < SHRINK_PER_SIG:
        now = clock.now
        sp, sops = shrink(params, hops, sig, clock, mkdir)
        last = execute(sp, sops, clock, mkdir)[-1]      # expected/observed of the shrunk history
        clock.set(now)
        if last['dis'] and last['dis'][0] == sig:
            hp, hops, rec = sp, sops, last
            oracle = rec['dis'][1]
    expected = rec['ref'] if oracle == 'reference' else rec['lm']
    op = hops[-1]
    desc = '%s: DjangoCache -> %s, %s -> %s (cfg SHARDS/TIMEOUT/KEY_PREFIX/VERSION = %r%s, %d calls%s)' % (
        show_op(op), show(rec['impl']), 'contract' if oracle == 'reference' else 'LocMemCache', show(expected),
        cfg_of(hp), cfg_extra(hp), len(hops),
        ', an earlier call of the history was made under lock contention' if sig.startswith('after_contention_') else '')
    res.violations.append(fw.Violation(sig, desc, {
        'check': 'history', 'params': hp, 'ops': hops, 'failing_index': len(hops) - 1, 'expected': expected,
        'observed': rec['impl'], 'oracle': oracle, 'locmem': rec['lm'], 'reference': rec['ref']}))


def run_history(res, st, params, clock, mkdir, ops=None, rng=None, length=0, name=None, gen=gen_op):
    """Fixed ops (directed / replay) or generated op by op from the reference's state.  Returns (ops, records)."""
    r = Runner(params, clock, mkdir)
    done, recs = [], []
    try:
        now = T0
        n = len(ops) if ops is not None else length
        for i in range(n):
            if ops is not None:
                op = ops[i]
            else:
                now = gen_clock(rng, now, r.ref)
                op = gen(rng, now, r.ref)
            rec = r.step(op)
            done.append(op)
            recs.append(rec)
            st.call(op, rec)
            res.count(['c19', cfg_of(params), op, rec['impl']], nontrivial=rec['nontrivial'])
            if (rec['nontrivial'] and ops is None and op['op'] not in st.sampled and len(done) > 5
                    and rec['impl'] not in (['none'], ['unit'], ['map', []], ['bool', False])):
                st.sampled.add(op['op'])
                res.sample({'cfg': dict(params), 'call': show_op(op), 'DjangoCache': show(rec['impl']),
                            'contract': show(rec['ref']), 'LocMemCache': show(rec['lm']),
                            'clock_equals_an_outstanding_expiry': rec['at']}, limit=5)
            if rec['dis']:
                report(res, st, params, done, i, rec, clock, mkdir)
                break                       # states may have diverged: later calls would only echo this one
    finally:
        st.stale += r.stale_excluded
        st.contended += r.contended_calls
        st.waited += r.waited_calls
        r.close()
    st.histories += 1
    st.configs.add(tuple(cfg_of(params)))
    return done, recs


def monitor(ctx, res, nrandom, lo, hi, st=None):
    """Directed histories, then nrandom generated ones.  Returns [(params, ops, records)] for the correspondence."""
    st = st or Stats()
    clock = instr.Clock(T0)
    out = []

    def mkdir():
        return ctx.scratch('c19')
    with instr.Installed(clock, extra_modules=[dj_base, dj_locmem]):
        for name, params, ops in directed():
            done, recs = run_history(res, st, params, clock, mkdir, ops=ops, name=name)
            st.directed += 1
            out.append((params, done, recs))
        for _ in range(nrandom):
            params = gen_params(ctx.rng)
            done, recs = run_history(res, st, params, clock, mkdir, rng=ctx.rng, length=ctx.rng.randint(lo, hi))
            out.append((params, done, recs))
        monitor_values(ctx, res, st, clock, mkdir, max(6, nrandom // 8))
        monitor_contention(ctx, res, st, clock, mkdir, max(10, nrandom // 5))
        monitor_integers(ctx, res, st, clock, mkdir, max(6, nrandom // 10))      # last: the generated streams before it stay what they were
        monitor_keys(ctx, res, st, clock, mkdir, max(8, nrandom // 10))          # (likewise)
    res.extra.update(st.extra())
    return out


def monitor_values(ctx, res, st, clock, mkdir, nrandom):
    """The value dimension: what get / get_many / get_or_set / pop return, and what incr_version / decr_version copy, is the value
    that was stored -- same type, same contents -- for values on both sides of the file threshold."""
    rng = ctx.rng
    for name, params, ops in directed_values():
        run_history(res, st, params, clock, mkdir, ops=ops, name=name)
        st.value_histories += 1
    for _ in range(nrandom):
        params = gen_params(rng)
        params['MIN_FILE_SIZE'] = rng.choice([None, None, 64])
        alphabet = value_alphabet(params['MIN_FILE_SIZE'] or DEFAULT_MIN_FILE_SIZE)
        run_history(res, st, params, clock, mkdir, rng=rng, length=rng.randint(14, 22),
                    gen=lambda r, now, ref: gen_op(r, now, ref, values=alphabet))
        st.value_histories += 1


def monitor_integers(ctx, res, st, clock, mkdir, nrandom):
    """The integer dimension: an integer on or next to a machine boundary (32 / 53 / 64 bits) that is stored comes back as exactly that
    Python int through every method, is copied exactly by incr_version / decr_version, and every storing method accepts it."""
    rng = ctx.rng
    for name, params, ops in directed_integers():
        run_history(res, st, params, clock, mkdir, ops=ops, name=name)
        st.integer_histories += 1
    for _ in range(nrandom):
        params = gen_params(rng)
        params['INTEGERS'] = True
        run_history(res, st, params, clock, mkdir, rng=rng, length=rng.randint(14, 22), gen=gen_integer_op)
        st.integer_histories += 1


def monitor_contention(ctx, res, st, clock, mkdir, nrandom):
    """The contention dimension: a call that finds the shard write-locked by another connection waits (retry=True is the default of
    every writing DjangoCache method) and then returns and does exactly what the contract says -- the same reference and the same
    LocMemCache as without contention -- and the calls after it see the state the contract describes."""
    rng = ctx.rng
    for name, params, ops in directed_contention():
        run_history(res, st, params, clock, mkdir, ops=ops, name=name)
        st.contention_histories += 1
    for _ in range(nrandom):
        params = gen_params(rng)
        params['CONTEND'] = True
        params['DATABASE_TIMEOUT'] = None if rng.random() < 0.08 else 0
        run_history(res, st, params, clock, mkdir, rng=rng, length=rng.randint(8, 16), gen=gen_contended_op)
        st.contention_histories += 1


def monitor_keys(ctx, res, st, clock, mkdir, nrandom):
    """The key dimension: Django formats the caller's key into the cache key, so tuples, integers, bytes, None, floats are keys like any
    other; every method does on them what the contract says -- in particular incr / decr of a missing or expired key raise ValueError."""
    import warnings
    rng = ctx.rng
    with warnings.catch_warnings():
        warnings.simplefilter('ignore')         # (LocMemCache warns that keys with spaces would not be portable to memcached)
        for name, params, ops in directed_keys():
            run_history(res, st, params, clock, mkdir, ops=ops, name=name)
            st.key_histories += 1
        for _ in range(nrandom):
            params = gen_params(rng)
            params['KEYS'] = True
            run_history(res, st, params, clock, mkdir, rng=rng, length=rng.randint(16, 26), gen=gen_key_op)
            st.key_histories += 1


REGRESSION_PARAMS = {'SHARDS': 1, 'TIMEOUT': 300, 'KEY_PREFIX': '', 'VERSION': 1}


def regression_ops():
    """The failing input of the former finding C19-F1: set('a', 5, timeout=5) at t=1000; incr('a') at t=1005."""
    return [mkop('set', T0, key='a', value=5, timeout=5), mkop('incr', T0 + 5, key='a')]


def regression_incr_at_expiry(ctx, res):
    """Checked on every run (a `fixed:` entry suppresses nothing): incr('a') at the expiry instant must raise
    ValueError; if it returns 6 again that is a violation with the old sig."""
    clock = instr.Clock(T0)
    ops = regression_ops()
    with instr.Installed(clock, extra_modules=[dj_base, dj_locmem]):
        recs = execute(REGRESSION_PARAMS, ops, clock, lambda: ctx.scratch('c19reg'))
    rec = recs[-1]
    res.count(['c19-regression', rec['impl']], nontrivial=True)
    ok = rec['dis'] is None and rec['impl'] == ['raise', 'ValueError']
    res.extra['regression_incr_at_expiry_instant'] = (
        'passes: incr at now == expire_time raises ValueError' if ok else 'FAILS: DjangoCache -> %s' % show(rec['impl']))
    if not ok:
        sig = rec['dis'][0] if rec['dis'] else REGRESSION
        res.violations.append(fw.Violation(
            sig, '%s: DjangoCache -> %s, contract -> %s (regression of the fixed finding C19-F1 / D6)' % (
                show_op(ops[-1]), show(rec['impl']), show(rec['ref'])),
            {'check': 'history', 'params': REGRESSION_PARAMS, 'ops': ops, 'failing_index': 1, 'expected': rec['ref'],
             'observed': rec['impl'], 'oracle': 'reference', 'locmem': rec['lm'], 'reference': rec['ref']}))
    return ok


def fractional_timeouts(ctx, res):
    """Directed histories with timeouts that are not whole seconds (0.5 s, 1.75 s, 2.5 s, on the clock grid) through
    set / add / touch / get_or_set / set_many-free paths: the item must be visible a quarter second before its expiry
    time and gone a quarter second after it (the expiry instant itself is left out).  Three-way like every history."""
    bad = 0
    n = 0
    for tmo in (0.5, 1.75, 2.5):
        hists = [
            [mkop('set', T0, key='a', value=5, timeout=tmo), mkop('get', T0 + tmo - 0.25, key='a'),
             mkop('has_key', T0 + tmo - 0.25, key='a'), mkop('get', T0 + tmo + 0.25, key='a')],
            [mkop('add', T0, key='a', value=6, timeout=tmo), mkop('get', T0 + tmo - 0.25, key='a'),
             mkop('add', T0 + tmo - 0.25, key='a', value=7, timeout=tmo), mkop('get', T0 + tmo + 0.25, key='a')],
            [mkop('set', T0, key='a', value=5, timeout=30), mkop('touch', T0 + 1, key='a', timeout=tmo),
             mkop('get', T0 + 1 + tmo - 0.25, key='a'), mkop('incr', T0 + 1 + tmo - 0.25, key='a'),
             mkop('get', T0 + 1 + tmo + 0.25, key='a')],
            [mkop('get_or_set', T0, key='a', value=8, timeout=tmo), mkop('get', T0 + tmo - 0.25, key='a'),
             mkop('get', T0 + tmo + 0.25, key='a')],
        ]
        for ops in hists:
            clock = instr.Clock(T0)
            with instr.Installed(clock, extra_modules=[dj_base, dj_locmem]):
                recs = execute(REGRESSION_PARAMS, ops, clock, lambda: ctx.scratch('c19frac'))
            n += 1
            res.count(['c19-fractional', tmo, [o['op'] for o in ops]], nontrivial=True)
            for i, rec in enumerate(recs):
                if rec['dis']:
                    bad += 1
                    sig, oracle = rec['dis']
                    res.violations.append(fw.Violation(
                        sig, '%s after %s with a timeout of %s s: DjangoCache -> %s, contract -> %s' % (
                            show_op(ops[i]), show_op(ops[0]), tmo, show(rec['impl']), show(rec['ref'])),
                        {'check': 'history', 'params': REGRESSION_PARAMS, 'ops': ops, 'failing_index': i, 'expected': rec['ref'],
                         'observed': rec['impl'], 'oracle': oracle, 'locmem': rec['lm'], 'reference': rec['ref']}))
                    break
    res.extra['fractional_timeout_histories'] = {'histories': n, 'failing': bad}


# ---------------------------------------------------------------------------
# correspondence with coq/model/Django.v


def c_timeout(t):
    if isinstance(t, str):
        return 'DjDefault'
    if t is None:
        return 'DjNone'
    assert instr.grid(t)
    return '(DjNum %s)' % fw.cz(instr.ticks(t))


def c_op(op):
    o = op['op']
    ver = fw.copt(op.get('version'))
    k = fw.cstr(op['key']) if 'key' in op else None
    if o == 'add':
        return '(OAdd %s %s %s %s)' % (k, fw.cz(op['value']), c_timeout(op['timeout']), ver)
    if o == 'set':
        return '(OSet %s %s %s %s)' % (k, fw.cz(op['value']), c_timeout(op['timeout']), ver)
    if o == 'get_or_set':
        return '(OGetOrSet %s %s %s %s)' % (k, fw.cz(op['value']), c_timeout(op['timeout']), ver)
    if o == 'touch':
        return '(OTouch %s %s %s)' % (k, c_timeout(op['timeout']), ver)
    if o in ('get', 'delete', 'has_key', 'pop'):
        return '(%s %s %s)' % ({'get': 'OGet', 'delete': 'ODelete', 'has_key': 'OHasKey', 'pop': 'OPop'}[o], k, ver)
    if o in ('incr', 'decr', 'incr_version', 'decr_version'):
        c = {'incr': 'OIncr', 'decr': 'ODecr', 'incr_version': 'OIncrVersion', 'decr_version': 'ODecrVersion'}[o]
        return '(%s %s %s %s)' % (c, k, fw.cz(1 if op.get('delta') is None else op['delta']), ver)
    if o == 'get_many':
        return '(OGetMany %s %s)' % (fw.clist([fw.cstr(x) for x in op['keys']]), ver)
    if o == 'delete_many':
        return '(ODeleteMany %s %s)' % (fw.clist([fw.cstr(x) for x in op['keys']]), ver)
    if o == 'set_many':
        return '(OSetMany %s %s %s)' % (fw.clist(['(%s, %s)' % (fw.cstr(x), fw.cz(v)) for x, v in op['items']]),
                                        c_timeout(op['timeout']), ver)
    if o == 'clear':
        return 'OClear'
    raise ValueError(o)


def c_result(r):
    """Coq `result` term of a canonical implementation result, or None if the model has no such result."""
    k = r[0]
    if k == 'raise':
        return '(RRaise %s)' % r[1] if r[1] in ('KeyError', 'ValueError', 'TypeError') else None
    if k == 'unit':
        return 'RUnit'
    if k == 'none':
        return 'RNone'
    if k == 'bool':
        return '(RBool %s)' % fw.cbool(r[1])
    if k == 'int':
        return '(RVal %s)' % fw.cz(r[1])
    if k == 'map':
        items = []
        for key, v in r[1]:
            if v[0] != 'int':
                return None
            items.append('(%s, %s)' % (fw.cstr(key), fw.cz(v[1])))
        return '(RMap %s)' % fw.clist(items)
    if k == 'list':
        if not all(isinstance(x, str) for x in r[1]):
            return None
        return '(RKeys %s)' % fw.clist([fw.cstr(x) for x in r[1]])
    return None


def c_defs(n, params, ops):
    d = params['TIMEOUT']
    cfg = '{| c_prefix := %s; c_version := %s; c_default := %s |}' % (
        fw.cstr(params['KEY_PREFIX']), fw.cz(params['VERSION']), fw.copt(None if d is None else instr.ticks(d)))
    hist = fw.clist(['(%s, %s)' % (c_op(op), fw.cz(instr.ticks(op['now']))) for op in ops])
    return ('Definition C%d : cfg := %s.\nDefinition H%d : list (op * Z) :=\n  %s.\n'
            'Definition R%d := snd (run (dj_step C%d) [] H%d).\n' % (n, cfg, n, hist, n, n, n))


def model_result(defs, n, i):
    rc, out = fw.coq_eval('c19_show', defs + 'Eval vm_compute in (nth %d%%nat R%d RUnit).\n' % (i, n), IMPORTS, timeout=120)
    if rc != 0:
        return '?'
    r = fw.parse_eval_lists(out)
    return r[-1] if r else '?'


def correspondence(ctx, res, hists, limit, group=15):
    chosen, total = [], 0
    for h in hists:
        if total >= limit:
            break
        if h[1]:
            chosen.append(h)
            total += len(h[1])
    shown = nbad = 0
    for g0 in range(0, len(chosen), group):
        part = chosen[g0:g0 + group]
        defs, checks, where = [], [], []
        for n, (params, ops, recs) in enumerate(part, g0):
            defs.append(c_defs(n, params, ops))
            for i, (op, rec) in enumerate(zip(ops, recs)):
                term = c_result(rec['impl'])
                if term is None:
                    nbad += 1
                    if shown >= MAX_DISAGREEMENTS:
                        continue
                    shown += 1
                    res.disagreements.append(fw.Violation(
                        'dj_step', '%s: DjangoCache -> %s, a result the model cannot produce' % (show_op(op), show(rec['impl'])),
                        {'check': 'history', 'params': params, 'ops': ops[:i + 1], 'failing_index': i, 'impl': rec['impl']},
                        'correspondence'))
                    continue
                checks.append('result_eqb (nth %d%%nat R%d RUnit) %s' % (i, n, term))
                where.append((n, params, ops, recs, i))
        defs = ''.join(defs)
        bad, errors = fw.coq_mismatches('c19_%d' % g0, IMPORTS, defs, checks, chunk=2000)
        for e in errors:
            res.disagreements.append(fw.Violation('model-eval', 'model evaluation failed: ' + e[-400:],
                                                  {'check': 'model-eval', 'group': g0}, 'correspondence'))
        if not errors:
            res.traces_validated += len(checks) - len(bad)
        nbad += len(bad)
        for b in bad:
            if shown >= MAX_DISAGREEMENTS:      # the first few say it all; the total is in extra
                break
            n, params, ops, recs, i = where[b]
            shown += 1
            m = model_result(defs, n, i)
            res.disagreements.append(fw.Violation(
                'dj_step', '%s (cfg %r, call %d): DjangoCache -> %s, model dj_step -> %s' % (
                    show_op(ops[i]), cfg_of(params), i, show(recs[i]['impl']), m),
                {'check': 'history', 'params': params, 'ops': ops[:i + 1], 'failing_index': i, 'impl': recs[i]['impl'],
                 'model': m}, 'correspondence'))
    res.extra['correspondence_histories'] = len(chosen)
    res.extra['correspondence_calls_disagreeing'] = nbad
    res.extra['correspondence_calls'] = total
    if chosen:
        params, ops, recs = chosen[min(len(chosen) - 1, len(directed()))]
        res.sample({'model_check': 'result_eqb (nth 0%%nat R RUnit) %s' % c_result(recs[0]['impl']),
                    'where': 'R := snd (run (dj_step C) [] H)', 'defs': c_defs(0, params, ops[:3])[:600]}, limit=6)


RULE = (
    'Generator: histories of 20-32 calls (plus 27 directed histories) on a fresh DjangoCache with SHARDS in {1,2,3}, TIMEOUT in '
    '{300, None, 5, 7, rarely 0}, KEY_PREFIX in {"", "p", "a:b"}, VERSION in {1,2}; calls drawn from add/get/set/touch/delete/incr/'
    'decr/has_key/get_many/set_many/delete_many/get_or_set/incr_version/decr_version/pop/clear over keys {a,b,c,a:1,1:a} (biased to '
    'keys the reference holds) x versions {None,1,2, rarely 0,3} x timeouts {DEFAULT_TIMEOUT (passed or omitted), None, 0, -1, 5}, '
    'values 0..9, incr/decr deltas {omitted,1,2,-1}, version deltas {1,2}.  One virtual clock (diskcache.core, recipes, '
    'django base and locmem) frozen during a call; between calls it moves with probability 0.4 to exactly an outstanding expiry '
    'time of the reference, one tick (2^-10 s) before or one tick after it, otherwise by 0, 2^-10, 1 or 2.5 s.  '
    'Oracle: every call\'s DjangoCache result (exceptions by class name, type-aware) must equal (1) a plain-Python reference of '
    'the contract: dictionary (version,key) -> (value, expiry), live iff expiry is None or now < expiry, timeout None forever, '
    '<= 0 already expired, DEFAULT the backend TIMEOUT; and (2) Django\'s LocMemCache driven by the same calls and clock.  Not '
    'compared: return values of set/clear (exceptions are), pop against LocMemCache (has none), LocMemCache.delete of a stale '
    'entry.  A failing history is shrunk greedily before it is reported.  Correspondence: the same histories through '
    'run (dj_step cfg) [] of coq/model/Django.v, one result_eqb check per call against DjangoCache\'s result.  '
    'non-trivial = the call names a (version,key) that exists or existed in the reference; distinct = distinct (config, call '
    'with its clock value, result).  '
    'Value dimension (monitors only; same reference and LocMemCache; nrandom/8 generated histories of 14-22 calls + 42 directed ones): '
    'the values of add/set/get_or_set (plain and callable default)/set_many are drawn with probability 0.6 from an alphabet on both '
    'sides of the file threshold m = disk_min_file_size (default 32768, or OPTIONS disk_min_file_size=64): text of length m-2..2m over '
    'CRLF, lone CR, LF and a non-ASCII letter, bytes with 0d/0a/00/ff, short text/bytes, the empty string, tuple/list/dict around a text '
    'of m+9 characters, small containers, a float; every result of get/get_many/get_or_set/pop, also after the copy made by '
    'incr_version/decr_version, must be of the same type and have the same contents (recursively) as the value stored; incr/decr are '
    'not generated for keys holding a non-integer.  '
    'Integer dimension (monitors only; same reference and LocMemCache; nrandom/10 generated histories of 14-22 calls + one directed history per '
    'integer; sig prefix integer_): values 2**31-1, 2**31, 2**31+1, -2**31-1, -2**31, -2**31+1, 2**32, -2**32-1, 2**53-1, 2**53, 2**53+1, -2**53, '
    '-2**53-1, 2**63-2, 2**63-1, 2**63, 2**63+1, -2**63+1, -2**63, -2**63-1, -2**63-2, 2**64-1, 2**64, 2**64+1, -2**64, 10**30, -10**30 through '
    'set / add / get_or_set (plain and callable) / set_many / touch / get / get_many / has_key / pop / delete / incr_version / decr_version; '
    'incr / decr only where the stored integer and the result lie inside the signed 64-bit range.  '
    'Key dimension (monitors only; same reference and LocMemCache; nrandom/10 generated histories of 16-26 calls + one directed history per key object; '
    'sig prefix key_): keys (), ("user", 42), ("a","b","c"), ("x",), 7, 0, -3, b"raw", None, 2.5, True, ((1, 2), "n"), 10**20, ("", None) and the plain strings '
    '"7", "None", "(\'user\', 42)", "()" whose text equals the text of one of them (the contract addresses an entry by the key formatted as text), through every '
    'method, on missing, live, expired (one tick before / at / after the instant), version-moved, popped, deleted and zero-timeout keys; incr_version / '
    'decr_version of a missing tuple key of length other than 1 is not generated (BaseCache itself fails to format its message).  '
    'Contention dimension (monitors only; nrandom/5 generated histories of 8-16 calls + 32 directed ones covering every method): a call '
    'is made, with probability 0.4, while one other sqlite3 connection per shard holds that shard\'s write lock (BEGIN IMMEDIATE); '
    'the locks are released when the calling thread makes its (k+1)-th BEGIN attempt, k in {1,2,3}, and with probability 0.6 taken '
    'again after every COMMIT/ROLLBACK of the call (each of its transactions waits); DATABASE_TIMEOUT 0, sometimes the default 10 ms.  '
    'The call\'s result and every later call of the history are compared with the same reference and LocMemCache as without '
    'contention (sig contended_* / after_contention_*).')


def run(ctx):
    res = fw.Result()
    res.rule = RULE
    if ctx.quick:
        hists = monitor(ctx, res, 250, 22, 30)
        limit = 1500
    else:
        hists = monitor(ctx, res, 4000, 22, 32)
        limit = 15000
    # directed histories first, then a spread of the generated ones
    correspondence(ctx, res, hists, limit)
    regression_incr_at_expiry(ctx, res)
    fractional_timeouts(ctx, res)
    return res


def search(ctx, broken):
    res = fw.Result()
    res.rule = RULE
    monitor(ctx, res, 400 if ctx.quick else 3000, 22, 34)
    regression_incr_at_expiry(ctx, res)
    fractional_timeouts(ctx, res)
    return res


def replay(payload):
    case = payload.get('case', payload)
    if case.get('check') != 'history':
        print('replay payload:', payload)
        return True
    params, ops = case['params'], case['ops']
    clock = instr.Clock(T0)
    ok = True
    with instr.Installed(clock, extra_modules=[dj_base, dj_locmem]):
        recs = execute(params, ops, clock, lambda: tempfile.mkdtemp(prefix='c19r-'))
    print('config SHARDS/TIMEOUT/KEY_PREFIX/VERSION = %r%s' % (cfg_of(params), cfg_extra(params)))
    for i, (op, rec) in enumerate(zip(ops, recs)):
        flag = ''
        if rec['dis']:
            ok = False
            sig, oracle = rec['dis']
            flag = '   <-- %s: expected %s (%s), observed %s' % (
                sig, show(rec['ref'] if oracle == 'reference' else rec['lm']),
                'contract' if oracle == 'reference' else 'LocMemCache', show(rec['impl']))
        print('%3d %-70s DjangoCache=%s contract=%s LocMemCache=%s%s' % (
            i, show_op(op), show(rec['impl']), show(rec['ref']), show(rec['lm']), flag))
    return ok
