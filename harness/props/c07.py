"""C07 -- a process killed at any instant leaves a usable, self-consistent cache.

Implementation side: crash enumeration with the single-child kill driver (concdrv.kill_child).  For each workload
(every mutating method x inline / file-backed value x outside / inside a transact block; Deque and Index operations;
bulk removals over more than one page) a forked child runs it under a Tracer and calls os._exit(137) BEFORE its n-th
event, for EVERY n (the kill therefore lands before and after each database statement, each file create / write
chunk / close / remove and each directory create / remove).  The child reports every finished call through a pipe
before starting the next one.

MONITOR (parent, fresh Cache on the directory, decided from the implementation's behaviour alone):
  * every unit (top-level call or outermost block) reported finished before the kill is fully present, the
    interrupted unit is fully applied or not at all (bulk removals: a prefix of their pages): the contents read
    through the API equal reference(done) or reference(done + interrupted);
  * every key reported present (`in`, iteration) yields a complete value, equal to a value written for it;
  * check() reports nothing but unknown-file / empty-directory warnings;
  * a write succeeds immediately (timeout 1 s): the dead process left nothing that blocks others;
  * check(fix=True) followed by check() is clean;
  * iterator workloads: the same when the killed process had a partly consumed iterator of the container alive (iterator_kills), and a
    live iterator holds no write lock (live_iterators);
  * after that repair EVERY file below the cache directory (whatever its name or suffix) is the database, one of its SQLite
    companions or the value file of a stored row, and no directory is empty (debris_after_repair: decided by walking the
    directory, not by what check() chooses to look at).
stream_kills: values handed over as streams (read=True) of 1-3 chunks; the process dies inside each read() of the stream, i.e.
between two write chunks of a value file that is created and not yet closed.
thorough adds a soak: a child looping over writes is SIGKILLed at a random instant (also inside SQLite).
"""
import os
import random
import shutil
import signal
import sys
import time as _time
import warnings

import concdrv
import fw
import instr
from concdrv import MISS
from instr import diskcache
from props import c05

ID = 'C07'
COQ_PROP = 'C07'
LEVEL = 'proof'
TRANSLATE = ['sql', 'disk', 'persistent', 'format', 'checkfn', 'fanout']      # format: Cache.__init__ (a kill while a directory is being opened)
TRUSTED = [
    'SQLite WAL recovery and the release of file locks when a process dies (exercised by every kill point, not proved)',
    'os._exit(137) from the before-hook of the traced event stands for a kill at that instant: Python-level buffers are lost, '
    'nothing is flushed or rolled back by the dying process; kills INSIDE a SQLite call are only sampled (thorough soak, SIGKILL)',
    'stream kills: os._exit(137) inside the read() method of the file-like value handed to set / add / push(read=True) stands for a kill between two '
    'write chunks of the value file (the library is inside Disk._write, the file is created and open)',
    'the Python reference of harness/props/c05.py (RefCache / RefDeque / RefIndex) as the meaning of "fully applied"',
    'containers: DjangoCache offers no check of its own; the repair of a DjangoCache directory is the check(fix=True) of the FanoutCache it is built '
    'on (DjangoCache._cache), that of a Deque / Index obtained from a FanoutCache is the check of its .cache plus the FanoutCache\'s own; '
    'FanoutCache.deque / .index take no settings, so the file threshold of 8 bytes is stored in the sub-cache\'s Settings table with Cache.reset '
    'when the workload\'s directory is prepared',
]
ASSUMPTIONS = [
    'power loss / OS crash (un-synced pages) is out of scope: only process death',
    'live iterators: "nothing that stops others from writing" is also checked BEFORE the kill, for the state a kill would freeze: a client suspended inside a loop '
    'over the container (which may stay there for as long as its loop body takes) holds no write lock; a raw sqlite3 connection executing BEGIN IMMEDIATE / ROLLBACK '
    'with timeout 0 on every database of the container stands for the other client',
    'blocks in the workloads complete normally (aborted blocks: see C06)',
]

SETTINGS = {'disk_min_file_size': 8}
BIG = 'BIG-' + 'x' * 12 + '\n' + 'y' * 10            # file-backed, written in two chunks
BIG2 = 'BIG2' + 'z' * 12 + '\n' + 'w' * 10
SMALL = 'sm'
EXPECTED_SIGS = ('fanout_block_torn_by_kill:fanout',)       # recorded finding C07-F2 (known_findings.txt); recognised exactly by torn_between_shard_commits
KILL_RECORDS = []       # one per kill point: see run_workload
STRICT_REPAIR = True    # after check(fix=True) a second check() must report NOTHING (empty parent directories are pruned since the C17 fix)
SETUP_NOW = 900.0


# ---------------------------------------------------------------------------
# workloads


def W(name, kind, setup, program, settings=None):
    return {'name': name, 'kind': kind, 'setup': setup, 'program': program, 'settings': settings or SETTINGS}


def in_block(calls):
    return [{'op': 'begin_block'}] + calls + [{'op': 'end_block'}]


def workloads():
    out = []
    pre = [{'op': 'set', 'key': 'pre', 'value': 1}]
    post = [{'op': 'set', 'key': 'post', 'value': SMALL}]
    for vname, old, new in (('inline', 5, 6), ('file', BIG, BIG2), ('file->inline', BIG, 7), ('inline->file', 5, BIG2)):
        base = [{'op': 'set', 'key': 'k', 'value': old}, {'op': 'set', 'key': 'other', 'value': BIG}]
        cases = [
            ('set-new', [], {'op': 'set', 'key': 'k', 'value': new}),
            ('set-replace', base, {'op': 'set', 'key': 'k', 'value': new}),
            ('setitem-replace', base, {'op': 'setitem', 'key': 'k', 'value': new}),
            ('add-new', [], {'op': 'add', 'key': 'k', 'value': new}),
            ('add-present', base, {'op': 'add', 'key': 'k', 'value': new}),
            ('add-expired', [{'op': 'set', 'key': 'k', 'value': old, 'expire': 50}], {'op': 'add', 'key': 'k', 'value': new}),
            ('touch', base, {'op': 'touch', 'key': 'k', 'expire': 50}),
            ('pop', base, {'op': 'pop', 'key': 'k'}),
            ('delete', base, {'op': 'delete', 'key': 'k'}),
            ('delitem', base, {'op': 'delitem', 'key': 'k'}),
            ('push', base, {'op': 'push', 'value': new}),
            ('push-front-prefix', base, {'op': 'push', 'value': new, 'prefix': 'q', 'side': 'front'}),
            ('pull', [{'op': 'push', 'value': old}, {'op': 'push', 'value': new}], {'op': 'pull'}),
            ('pull-expired-head', [{'op': 'push', 'value': old, 'expire': 50}, {'op': 'push', 'value': new}], {'op': 'pull'}),
            ('peek-expired-head', [{'op': 'push', 'value': old, 'expire': 50}, {'op': 'push', 'value': new}], {'op': 'peek'}),
            ('peekitem-expired', [{'op': 'set', 'key': 'a', 'value': new}, {'op': 'set', 'key': 'k', 'value': old, 'expire': 50}], {'op': 'peekitem'}),
            ('set-culls-expired', [{'op': 'set', 'key': 'dead', 'value': old, 'expire': 50}], {'op': 'set', 'key': 'k', 'value': new}),
        ]
        if vname in ('inline', 'file'):
            cases += [
                ('clear', base, {'op': 'clear'}),
                ('evict', [{'op': 'set', 'key': 'k', 'value': old, 'tag': 't'}, {'op': 'set', 'key': 'o', 'value': new, 'tag': 't'},
                           {'op': 'set', 'key': 'keep', 'value': old}], {'op': 'evict', 'tag': 't'}),
                ('expire', [{'op': 'set', 'key': 'k', 'value': old, 'expire': 50}, {'op': 'set', 'key': 'o', 'value': new, 'expire': 40},
                            {'op': 'set', 'key': 'keep', 'value': old}], {'op': 'expire'}),
                ('cull', [{'op': 'set', 'key': 'k', 'value': old, 'expire': 50}, {'op': 'set', 'key': 'keep', 'value': old}], {'op': 'cull'}),
            ]
        if vname == 'inline':
            cases += [('incr-new', [], {'op': 'incr', 'key': 'k', 'delta': 3}), ('incr-present', base, {'op': 'incr', 'key': 'k', 'delta': 3}),
                      ('decr-present', base, {'op': 'decr', 'key': 'k'})]
        if vname == 'file':
            cases += [('incr-expired-file', [{'op': 'set', 'key': 'k', 'value': old, 'expire': 50}], {'op': 'incr', 'key': 'k', 'delta': 3})]
        for cname, setup, call in cases:
            # the setup runs at virtual time SETUP_NOW = 900 (ttl 50 -> expire_time 950), the workload at 1000: items
            # stored with a ttl in the setup are expired but still in the table when the workload starts
            out.append(W('cache:%s:%s' % (cname, vname), 'cache', setup, pre + [call] + post))
            out.append(W('cache:%s:%s:block' % (cname, vname), 'cache', setup, pre + in_block([call, {'op': 'incr', 'key': 'n'}]) + post))
    # a block aborted by an exception (also one that is not an Exception: KeyboardInterrupt, SystemExit, ...) which the program catches,
    # then more completed calls of the same client, then the kill: what completed after the abort must survive
    for base in (False, True):
        for kind_, wr, rd in (('cache', lambda k, v: {'op': 'set', 'key': k, 'value': v}, None),
                              ('index', lambda k, v: {'op': 'setitem', 'key': k, 'value': v}, None)):
            out.append(W('%s:aborted-block-then-work:%s' % (kind_, 'base' if base else 'exc'), kind_, [wr('k', 5)],
                         in_block([wr('a', 6), {'op': 'raise_in_block', 'base': base}]) +
                         [wr('b', 1), wr('c', BIG2)] + in_block([wr('d', 7), wr('e', 8)]) + [wr('post', SMALL)]))
    # nested block with several effects
    out.append(W('cache:block-nested:file', 'cache', [{'op': 'set', 'key': 'k', 'value': BIG}],
                 in_block([{'op': 'set', 'key': 'a', 'value': BIG2}] + in_block([{'op': 'incr', 'key': 'n'}, {'op': 'delete', 'key': 'k'}]) + [{'op': 'set', 'key': 'b', 'value': 2}])))
    # more than one page of a bulk removal
    many = [{'op': 'set', 'key': 'i%03d' % i, 'value': (BIG if i % 50 == 0 else i), 'tag': 't' if i % 2 else None} for i in range(230)]
    out.append(W('cache:clear:3pages', 'cache', many, [{'op': 'clear'}]))
    out.append(W('cache:evict:2pages', 'cache', many, [{'op': 'evict', 'tag': 't'}]))
    # Deque
    for vname, old, new in (('inline', 5, 6), ('file', BIG, BIG2)):
        dq = [{'op': 'append', 'value': old}, {'op': 'append', 'value': new}, {'op': 'append', 'value': 3}]
        for cname, call in (('append', {'op': 'append', 'value': new}), ('appendleft', {'op': 'appendleft', 'value': new}), ('pop', {'op': 'pop'}),
                            ('popleft', {'op': 'popleft'}), ('setitem', {'op': 'setitem', 'index': 0, 'value': new}), ('delitem', {'op': 'delitem', 'index': 1}),
                            ('rotate', {'op': 'rotate', 'steps': 1}), ('clear', {'op': 'clear'}), ('extend', {'op': 'extend', 'values': [new, 9]})):
            out.append(W('deque:%s:%s' % (cname, vname), 'deque', dq, [{'op': 'append', 'value': 0}, call, {'op': 'append', 'value': 99}]))
        out.append(W('deque:block:%s' % vname, 'deque', dq, in_block([{'op': 'popleft'}, {'op': 'append', 'value': new}]) + [{'op': 'append', 'value': 99}]))
        # a full bounded deque: the push and the discard at the other end are one atomic step
        bounded = dict(SETTINGS, maxlen=3)
        for cname, call in (('append', {'op': 'append', 'value': new}), ('appendleft', {'op': 'appendleft', 'value': new}),
                            ('extend', {'op': 'extend', 'values': [new, 9]})):
            out.append(W('deque:bounded-%s:%s' % (cname, vname), 'deque', dq, [call, {'op': 'append', 'value': 99}], settings=bounded))
    # Index
    for vname, old, new in (('inline', 5, 6), ('file', BIG, BIG2)):
        ix = [{'op': 'setitem', 'key': 'a', 'value': old}, {'op': 'setitem', 'key': 'b', 'value': new}]
        for cname, call in (('setitem-new', {'op': 'setitem', 'key': 'c', 'value': new}), ('setitem-replace', {'op': 'setitem', 'key': 'a', 'value': new}),
                            ('delitem', {'op': 'delitem', 'key': 'a'}), ('popitem', {'op': 'popitem'}), ('popitem-first', {'op': 'popitem', 'last': False}),
                            ('pop', {'op': 'pop', 'key': 'b'}), ('setdefault', {'op': 'setdefault', 'key': 'c', 'default': new}),
                            ('update', {'op': 'update', 'items': [['a', new], ['d', old]]}), ('push', {'op': 'push', 'value': new}), ('clear', {'op': 'clear'})):
            out.append(W('index:%s:%s' % (cname, vname), 'index', ix, [{'op': 'setitem', 'key': 'pre', 'value': 1}, call, {'op': 'setitem', 'key': 'post', 'value': 2}]))
        out.append(W('index:block:%s' % vname, 'index', ix, in_block([{'op': 'delitem', 'key': 'a'}, {'op': 'setitem', 'key': 'c', 'value': new}])))
    return out


# A loop over a container that is suspended after its first item(s) -- `for x in reversed(deque): ...` with the calls that follow made
# "inside the loop body", or an iterator the program keeps -- must not change what a kill leaves: every call that COMPLETED while the
# iterator was alive is fully present afterwards.  iter_open takes the first n items and keeps the iterator; iter_rest exhausts it.
ITER_HOWS = {'cache': ('iter', 'reversed', 'iterkeys'), 'deque': ('iter', 'reversed'), 'index': ('iter', 'reversed'),
             'fanout': ('iter', 'reversed'), 'fanout-deque': ('iter', 'reversed'), 'fanout-index': ('iter', 'reversed', 'keys', 'values', 'items')}
VIEWS = ('keys', 'values', 'items')


def iter_open(how, n=1):
    return {'op': 'iter_open', 'n': n, 'how': 'iter', 'view': how} if how in VIEWS else {'op': 'iter_open', 'n': n, 'how': how}


def iter_calls(kind, vname, old, new):
    """[(name, setup, mutating calls made while the iterator is alive)]"""
    if kind in ('cache', 'fanout'):
        base = [{'op': 'set', 'key': 'a', 'value': old}, {'op': 'set', 'key': 'b', 'value': new}, {'op': 'set', 'key': 'c', 'value': 3}]
        return [('set-new', base, [{'op': 'set', 'key': 'k', 'value': new}]), ('set-replace', base, [{'op': 'set', 'key': 'a', 'value': new}]),
                ('pop', base, [{'op': 'pop', 'key': 'b'}]), ('incr', base, [{'op': 'incr', 'key': 'n', 'delta': 3}]),
                ('delete+add', base, [{'op': 'delete', 'key': 'a'}, {'op': 'add', 'key': 'k', 'value': new}]),
                ('block', base, in_block([{'op': 'set', 'key': 'k', 'value': new}, {'op': 'incr', 'key': 'n'}]))]
    if kind in ('deque', 'fanout-deque'):
        dq = [{'op': 'append', 'value': old}, {'op': 'append', 'value': new}, {'op': 'append', 'value': 3}]
        return [('append', dq, [{'op': 'append', 'value': new}]), ('appendleft', dq, [{'op': 'appendleft', 'value': new}]),
                ('pop', dq, [{'op': 'pop'}]), ('popleft', dq, [{'op': 'popleft'}]), ('setitem', dq, [{'op': 'setitem', 'index': 0, 'value': new}]),
                ('extend', dq, [{'op': 'extend', 'values': [new, 9]}]), ('append+popleft', dq, [{'op': 'append', 'value': new}, {'op': 'popleft'}])]
    ix = [{'op': 'setitem', 'key': 'a', 'value': old}, {'op': 'setitem', 'key': 'b', 'value': new}, {'op': 'setitem', 'key': 'c', 'value': 3}]
    return [('setitem-new', ix, [{'op': 'setitem', 'key': 'k', 'value': new}]), ('setitem-replace', ix, [{'op': 'setitem', 'key': 'a', 'value': new}]),
            ('delitem', ix, [{'op': 'delitem', 'key': 'b'}]), ('popitem', ix, [{'op': 'popitem'}]),
            ('setdefault', ix, [{'op': 'setdefault', 'key': 'k', 'default': new}]), ('update', ix, [{'op': 'update', 'items': [['a', new], ['d', old]]}])]


def iter_program(kind, how, calls, n=1):
    """iterator opened and suspended; the calls; one more completed call; the rest of the iteration"""
    last = {'op': 'append', 'value': 99} if 'deque' in kind else ({'op': 'setitem', 'key': 'post', 'value': 2} if 'index' in kind else {'op': 'set', 'key': 'post', 'value': SMALL})
    return [iter_open(how, n)] + calls + [last, {'op': 'iter_rest'}]


def iterator_workloads():
    out = []
    for kind in ('cache', 'deque', 'index'):
        for vname, old, new in (('inline', 5, 6), ('file', BIG, BIG2)):
            for cname, setup, calls in iter_calls(kind, vname, old, new):
                for how in ITER_HOWS[kind]:
                    out.append(W('%s:during-%s:%s:%s' % (kind, how, cname, vname), kind, setup, iter_program(kind, how, calls)))
    return out


def iterator_container_workloads():
    """[(container, (name, setup, program))] for FanoutCache and the Deque / Index it hands out (Index: also the key / value / item views)"""
    out = []
    for cont in ({'kind': 'fanout', 'shards': 2}, {'kind': 'fanout', 'shards': 3}, {'kind': 'fanout-deque', 'shards': 2}, {'kind': 'fanout-index', 'shards': 2}):
        for vname, old, new in (('inline', 5, 6), ('file', BIG, BIG2)):
            for cname, setup, calls in iter_calls(cont['kind'], vname, old, new):
                for how in ITER_HOWS[cont['kind']]:
                    out.append((cont, ('during-%s:%s:%s' % (how, cname, vname), setup, iter_program(cont['kind'], how, calls))))
    return out


class ViewOf:
    """iter_open of concdrv.Interp iterates its object: this stands in for the object while an Index view (keys() / values() / items()) is opened"""

    def __init__(self, obj, view):
        self.obj, self.view = obj, view

    def __iter__(self):
        return iter(getattr(self.obj, self.view)())


# ---------------------------------------------------------------------------
# units and reference states


def units_of_program(program):
    """[(first index, last index)] of the top-level units (a call, or an outermost block with everything in it)."""
    out = []
    j = 0
    while j < len(program):
        if program[j]['op'] == 'begin_block':
            e = concdrv.block_end(program, j)
            out.append((j, e))
            j = e + 1
        else:
            out.append((j, j))
            j += 1
    return out


def apply_unit(ref, program, unit):
    if any(program[j]['op'] == 'raise_in_block' and not program[j].get('caught') for j in range(unit[0], unit[1] + 1)):
        return                  # a block that raises is rolled back as a whole (inline values: exactly; file-backed: finding C06-F1)
    for j in range(unit[0], unit[1] + 1):
        if program[j]['op'] in concdrv.BLOCK_OPS or program[j]['op'] in concdrv.ITER_OPS:
            continue            # opening / exhausting an iterator changes nothing
        try:
            ref.apply(program[j])
        except c05.Raise:
            pass


def bulk_prefix_states(ref, call):
    """States a bulk removal may leave when interrupted: a prefix of its pages of 100 rows."""
    items = ref.items
    if call['op'] == 'clear':
        victims = list(range(len(items)))
    elif call['op'] == 'evict':
        victims = [i for i, it in enumerate(items) if call.get('tag') is not None and it[3] == call.get('tag')]
    elif call['op'] in ('expire', 'cull'):
        victims = [i for _, i in sorted((it[2], i) for i, it in enumerate(items) if it[2] is not None and 0 <= it[2] < ref.now)]
    else:
        return []
    out = []
    for pages in range(1, (len(victims) + 99) // 100):
        gone = set(victims[:pages * 100])
        s = ref.copy()
        s.items = [it for i, it in enumerate(s.items) if i not in gone]
        out.append(s)
    return out


# ---------------------------------------------------------------------------
# the monitor


def lib_check(c, fix=False):
    with warnings.catch_warnings():
        warnings.simplefilter('always')
        ws = c.check(fix=fix)
    return ws


def allowed_states(kind, wl, k):
    """The reference states the directory may be in after the kill: every unit reported finished applied, and that plus
    the interrupted unit (bulk removals / library-level loops: a prefix of their steps)."""
    program = wl['program']
    units = units_of_program(program)
    done_idx = set(rec['index'] for rec in k['records'])
    ref = c05.make_ref(kind if kind != 'cache' else 'cache')
    if kind == 'deque':
        ref.maxlen = (wl.get('settings') or {}).get('maxlen')
    if kind in ('cache', 'fanout'):
        ref.cull_limit = 10
    # the setup ran with lazy culling as well (same settings), so the reference replays it the same way
    if kind in ('cache', 'fanout'):
        ref.now = SETUP_NOW
    for call in wl['setup']:
        try:
            ref.apply(call)
        except c05.Raise:
            pass
    if kind in ('cache', 'fanout'):
        ref.now = c05.NOW
    inflight = None
    for u in units:
        if u[1] in done_idx:
            apply_unit(ref, program, u)
        elif k['started'] is not None and u[0] <= k['started'] <= u[1]:
            inflight = u
            break
        else:
            break
    allowed = [ref]
    if inflight is not None:
        nxt = ref.copy()
        apply_unit(nxt, program, inflight)
        allowed.append(nxt)
        if kind == 'cache' and inflight[0] == inflight[1]:
            allowed += bulk_prefix_states(ref, program[inflight[0]])
        if kind in ('deque', 'index') and inflight[0] == inflight[1] and program[inflight[0]]['op'] in ('extend', 'update', 'rotate', 'clear', 'extendleft'):
            # library-level loops of single atomic steps: any prefix of the steps
            call = program[inflight[0]]
            seq = [{'op': 'append', 'value': v} for v in call.get('values', [])] if call['op'] == 'extend' else \
                  [{'op': 'setitem', 'key': kk, 'value': vv} for kk, vv in call.get('items', [])] if call['op'] == 'update' else []
            s = ref.copy()
            for c_ in seq:
                s = s.copy()
                s.apply(c_)
                allowed.append(s)
            if call['op'] == 'rotate':
                s = ref.copy()
                try:
                    s.apply({'op': 'pop'})
                    allowed.append(s)
                except c05.Raise:
                    pass
    return allowed


def inspect(directory, kind, wl, k, clock):
    """All post-mortem checks.  k = result of kill_child.  Returns list of (sig, description)."""
    out = []
    allowed = allowed_states(kind, wl, k) if wl.get('prefix_items') is None else None
    # 1. contents through the API of a fresh handle
    try:
        with instr.Installed(clock):
            snap = concdrv.api_snapshot(directory, kind, with_check=False)
    except Exception as e:  # noqa
        return [('unusable_after_kill', 'a fresh handle cannot open/read the directory: %r' % e)], None
    for key, present, v, e_, t_, filed in snap['items']:
        if (present or kind == 'deque') and (v == MISS or (isinstance(v, str) and v.startswith('EXC:'))):
            out.append(('present_key_unreadable', 'key %r is reported present (in / iteration) but reading it yields %r' % (key, v)))
    if allowed is None:
        # culling workloads: the permitted contents are those the implementation itself leaves after the finished units, and after
        # those plus the interrupted unit, when run WITHOUT a kill on a copy of the same directory (see run_cull_workload)
        done_idx = set(rec['index'] for rec in k['records'])
        nfin = 0
        for u in units_of_program(wl['program']):
            if u[1] not in done_idx:
                break
            nfin += 1
        ok_items = wl['prefix_items'][nfin:nfin + (2 if k['started'] is not None else 1)]
        if items_view(snap) not in ok_items and not out:
            out.append(('contents_not_atomic', 'contents after the kill %r are neither those after the finished calls %r nor those after the interrupted call as well %r'
                        % (items_view(snap)[:8], ok_items[0][:8], ok_items[-1][:8])))
    elif not any(c05.final_matches(kind, snap)(s) for s in allowed):
        if not out:
            out.append(('contents_not_atomic', 'contents after the kill %r are neither the state after the finished calls %r nor that plus the interrupted '
                        'call %r' % ([[x[0], x[2]] for x in snap['items']][:8], allowed[0].final_view()[:8], allowed[-1].final_view()[:8])))
    with instr.Installed(clock):
        c = diskcache.Cache(directory, timeout=1)
        try:
            # 2. the library's own check
            ws = lib_check(c)
            bad = [w for w in ws if not issubclass(w.category, (diskcache.UnknownFileWarning, diskcache.EmptyDirWarning))]
            debris = [w for w in ws if issubclass(w.category, diskcache.UnknownFileWarning)]
            for w in bad[:2]:
                msg = str(w.message).replace(directory, '<dir>')
                out.append(('check_reports:' + msg.split(':')[0].replace(' ', '_'), 'check() reports %r' % msg))
            # 3. a write succeeds immediately
            t0 = _time.time()
            try:
                ok = c.set('__probe__', 'p' * 40)
                c.delete('__probe__')
            except Exception as e:  # noqa
                ok = False
                out.append(('write_blocked', 'a write by another process after the kill raised %r' % e))
            if ok is not True and not [s for s, _ in out if s == 'write_blocked']:
                out.append(('write_blocked', 'a write by another process after the kill returned %r' % ok))
            if _time.time() - t0 > 0.9:
                out.append(('write_blocked', 'a write by another process after the kill took %.1f s' % (_time.time() - t0)))
            # 4. repair
            lib_check(c, fix=True)
            ws2 = [w for w in lib_check(c) if STRICT_REPAIR or not issubclass(w.category, diskcache.EmptyDirWarning)]
            if ws2 and not bad:
                out.append(('repair_incomplete', 'after check(fix=True) a second check() still reports %r' % str(ws2[0].message).replace(directory, '<dir>')))
        finally:
            c.close()
    # 5. the repair removed ALL debris: decided on every file and directory under the cache directory, whatever its name, and
    #    without relying on what check() chooses to look at
    if not bad:
        for sig, text in debris_after_repair(directory)[:2]:
            out.append((sig, text))
    return out, {'debris': len(debris), 'snap': snap}


DB_FILES = ('cache.db', 'cache.db-wal', 'cache.db-shm', 'cache.db-journal')


def debris_after_repair(directory, db_dirs=None):
    """"The only permitted debris (unreferenced files, empty directories) is removed by a repair": after check(fix=True) EVERY
    file below the cache directory is the database (with its SQLite companions) or the value file of a stored row, and every
    directory holds something.  db_dirs: the directories that hold a database (the shards of a FanoutCache; default: the
    directory itself).  Returns [(sig, text)]."""
    import sqlite3
    db_dirs = [directory] if db_dirs is None else list(db_dirs)
    referenced = set()
    for sd in db_dirs:
        try:
            con = sqlite3.connect(os.path.join(sd, 'cache.db'))
            try:
                for (fn,) in con.execute('SELECT filename FROM Cache WHERE filename IS NOT NULL').fetchall():
                    referenced.add(os.path.normpath(os.path.join(sd, fn)))
            finally:
                con.close()
        except sqlite3.Error as e:
            return [('unusable_after_kill', 'the database of %s cannot be read after the repair: %r' % (sd, e))]
    out = []
    for dp, dn, fn in os.walk(directory):
        for f in sorted(fn):
            p = os.path.normpath(os.path.join(dp, f))
            if dp in db_dirs and f in DB_FILES:
                continue
            if p not in referenced:
                out.append(('debris_survives_repair', 'after check(fix=True) the file %s (%d bytes), which no stored item refers to, is still '
                            'there' % (os.path.relpath(p, directory), os.path.getsize(p))))
        if dp != directory and dp not in db_dirs and not dn and not fn:
            out.append(('debris_survives_repair:empty_dir', 'after check(fix=True) the empty directory %s is still there' % os.path.relpath(dp, directory)))
    return out


def classify(viol, wl, k):
    """(Until the repair recorded under C06-F1 / C07-F1 this attributed a committed row without its file, after a kill inside an
    open block that had already removed the file, to that defect.  Nothing is re-attributed any more.)"""
    return viol


# ---------------------------------------------------------------------------
# containers built on Cache: a process can be killed inside a FanoutCache (any shard count), a DjangoCache, or a Deque / Index obtained
# from a FanoutCache.  The property makes no exception for them: what the kill leaves must be the permitted debris only, and a repair --
# the one THAT container offers (FanoutCache.check(fix=True) over its shards; the FanoutCache behind a DjangoCache; the cache of the Deque /
# Index) -- must remove it.  cont = {'kind': 'fanout' | 'django' | 'fanout-deque' | 'fanout-index', 'shards': n, 'maxlen': None | n}

CONT_NAME = 'jobs/q1'
CONTAINERS = [{'kind': 'fanout', 'shards': 1}, {'kind': 'fanout', 'shards': 2}, {'kind': 'fanout', 'shards': 3}, {'kind': 'fanout', 'shards': 5},
              {'kind': 'django', 'shards': 2}, {'kind': 'django', 'shards': 3},
              {'kind': 'fanout-deque', 'shards': 2}, {'kind': 'fanout-index', 'shards': 2}]
CONT_INTERP = {'fanout': 'fanout', 'django': 'fanout', 'fanout-deque': 'deque', 'fanout-index': 'index'}


def cont_label(cont):
    return '%s(shards=%d)' % (cont['kind'], cont.get('shards', 2))


def _django_class():
    from django.conf import settings as dj_settings
    if not dj_settings.configured:
        dj_settings.configure()
    from diskcache.djangocache import DjangoCache
    return DjangoCache


class DjangoAdapter:
    """A DjangoCache behind the call vocabulary of concdrv.apply_call(kind='fanout'): expire= is the backend's timeout= (None = never),
    keys go through make_key (so the stored key of 'k' is ':1:k')."""

    def __init__(self, dj):
        self.dj = dj

    def set(self, key, value, expire=None, read=False, tag=None, retry=False):
        return self.dj.set(key, value, timeout=expire, read=read, tag=tag, retry=retry)

    def add(self, key, value, expire=None, read=False, tag=None, retry=False):
        return self.dj.add(key, value, timeout=expire, read=read, tag=tag, retry=retry)

    def incr(self, key, delta=1, default=0, retry=False):
        return self.dj.incr(key, delta, default=default, retry=retry)

    def decr(self, key, delta=1, default=0, retry=False):
        return self.dj.decr(key, delta, default=default, retry=retry)

    def get(self, key, default=None, retry=False, **kw):
        return self.dj.get(key, default=default, retry=retry)

    def pop(self, key, default=None, retry=False):
        return self.dj.pop(key, default=default, retry=retry)

    def delete(self, key, retry=False):
        return self.dj.delete(key, retry=retry)

    def touch(self, key, expire=None, retry=False):
        return self.dj.touch(key, timeout=expire, retry=retry)


class Opened:
    """A container opened on a directory: .obj runs the program, .kind is the call vocabulary (concdrv.apply_call), .caches are all the
    Cache objects behind it (shards, and the cache of the Deque / Index), .repair(fix) is the container's own check."""

    def __init__(self, cont, directory, timeout):
        kind, shards = cont['kind'], cont.get('shards', 2)
        self.cont, self.kind = cont, CONT_INTERP[kind]
        if kind == 'django':
            dj = _django_class()(directory, {'SHARDS': shards, 'DATABASE_TIMEOUT': timeout, 'OPTIONS': dict(SETTINGS)})
            self.fanout, self.obj, self.sub = dj._cache, DjangoAdapter(dj), None
            self.key = lambda k: dj.make_key(k)
        else:
            self.fanout = diskcache.FanoutCache(directory, shards=shards, timeout=timeout, **SETTINGS)
            self.key = lambda k: k
            if kind == 'fanout':
                self.obj, self.sub = self.fanout, None
            else:
                self.obj = self.fanout.deque(CONT_NAME, maxlen=cont.get('maxlen')) if kind == 'fanout-deque' else self.fanout.index(CONT_NAME)
                self.sub = self.obj.cache
                if self.sub.disk_min_file_size != SETTINGS['disk_min_file_size']:
                    # FanoutCache.deque / index take no settings: the file threshold of the workloads is stored in the sub-cache's
                    # Settings table when the directory is prepared (every later handle reads it from there)
                    self.sub.reset('disk_min_file_size', SETTINGS['disk_min_file_size'])
        self.caches = list(self.fanout._shards) + ([self.sub] if self.sub is not None else [])

    def db_dirs(self):
        return [c.directory for c in self.caches]

    def repair(self, fix):
        """The container's own check: FanoutCache.check over the shards (also the FanoutCache a DjangoCache is built on), and the check
        of the cache behind a Deque / Index obtained from it."""
        with warnings.catch_warnings():
            warnings.simplefilter('always')
            ws = list(self.fanout.check(fix=fix))
            if self.sub is not None:
                ws += list(self.sub.check(fix=fix))
        return ws

    def close(self):
        for c in self.caches:
            try:
                c.close()
            except Exception:  # noqa
                pass


def kill_container(directory, cont, calls, kill_n=None, now=c05.NOW, timeout=5, wall_limit=60.0, stream=None):
    """concdrv.kill_child for a container of this section: ONE forked child opens it on `directory` (untraced), runs `calls` under a
    Tracer and ends with os._exit(137) before its event number kill_n (None: runs to completion).  stream = (chunks, die_at): the
    value '<stream>' of a call is a DyingStream handed over with read=True (the process ends inside its read() number die_at).
    Same result dictionary as kill_child."""
    rfd, wfd = os.pipe()
    sys.stdout.flush()
    sys.stderr.flush()
    pid = os.fork()
    if pid == 0:
        code = 1
        try:
            os.close(rfd)
            clock = instr.Clock(now)
            count = [0]
            send = concdrv._send

            def before(ev):
                n = count[0]
                if kill_n is not None and n == kill_n:
                    send(wfd, {'kill': n, 'ev': ev.short()})
                    os._exit(137)
                count[0] += 1
                send(wfd, {'ev': ev.short()})
            import sched
            tracer = sched.Tracer(before=before, clock=clock)
            with instr.Installed(clock), tracer:
                clock.on_sleep = lambda dt: _time.sleep(0.001)
                o = Opened(cont, directory, timeout)
                for c in o.caches:
                    c._con          # the opening PRAGMAs of this thread's connection are not events
                clock.on_sleep = None
                if stream is not None:
                    call = calls[-1]
                    for c_ in calls[:-1]:
                        concdrv.apply_call(o.obj, c_, o.kind)
                    s = DyingStream(stream[0], stream[1])
                    if call['op'] == 'push':
                        o.obj.push(s, read=True)
                    else:
                        getattr(o.obj, call['op'])(call['key'], s, read=True)
                else:
                    def on_start(j, call, depth):
                        if call.get('op') == 'iter_open' and call.get('view'):
                            it.obj = ViewOf(o.obj, call['view'])        # the iterator of index.keys() / .values() / .items()
                        send(wfd, {'start': j, 'depth': depth, 'e0': count[0]})

                    def on_done(rec):
                        it.obj = o.obj
                        send(wfd, {'rec': {a: b for a, b in rec.items() if a != 'call'}})
                    it = concdrv.Interp(0, o.obj, o.kind, calls, lambda: count[0], on_done=on_done, on_start=on_start)
                    tracer.enable(True)
                    it.run()
                    tracer.enable(False)
                send(wfd, {'done': True, 'nevents': count[0]})
                o.close()
            code = 0
        except BaseException:  # noqa
            try:
                import traceback
                concdrv._send(wfd, {'fatal': traceback.format_exc()[-1500:]})
            except Exception:  # noqa
                pass
        finally:
            os._exit(code)
    os.close(wfd)
    rd = concdrv._LineReader(rfd)
    msgs = []
    t0 = _time.time()
    while True:
        m = rd.read_msg(timeout=5.0)
        if m is None:
            if rd.eof:
                break
            if _time.time() - t0 > wall_limit:
                try:
                    os.kill(pid, signal.SIGKILL)
                except OSError:
                    pass
                msgs.append({'fatal': 'child exceeded wall limit'})
                break
            continue
        msgs.append(m)
    os.close(rfd)
    _, status = os.waitpid(pid, 0)
    out = {'events': [], 'records': [], 'started': None, 'started_depth': 0, 'killed': False, 'done': False, 'status': status, 'fatal': None,
           'nevents': None}
    for m in msgs:
        if 'ev' in m and 'kill' not in m:
            out['events'].append(m['ev'])
        elif 'kill' in m:
            out['killed'] = True
            out['kill_event'] = m['ev']
        elif 'rec' in m:
            out['records'].append(m['rec'])
            out['started'] = None
        elif 'start' in m:
            out['started'], out['started_depth'], out['started_e0'] = m['start'], m['depth'], m.get('e0')
        elif 'done' in m:
            out['done'], out['nevents'] = True, m['nevents']
        elif 'fatal' in m:
            out['fatal'] = m['fatal']
    return out


LAST_TORN = {}      # details of the last state recognised by torn_between_shard_commits (read by fanout_block_witness)


def torn_between_shard_commits(o, ikind, shards, wl, k, snap, allowed):
    """The recorded finding C07-F2 (same root cause as C06-F6: FanoutCache.transact commits its shard transactions one after the other; there
    is no atomic commit across SQLite databases), recognised EXACTLY: the container is a FanoutCache / DjangoCache with several shards, the
    interrupted unit is a transaction block, the kill fell after a COMMIT of that block's end had executed and before its last one, and
    every shard BY ITSELF holds either what it held before the block or what it holds after it (at least one of each).  Anything else
    stays `contents_not_atomic`.  Returns the description or None."""
    if ikind != 'fanout' or shards < 2 or k.get('started') is None:
        return None
    program = wl['program']
    units = [u for u in units_of_program(program) if u[0] <= k['started'] <= u[1]]
    if not units or program[units[0][0]].get('op') != 'begin_block':
        return None
    ev = k.get('events') or []
    e0 = k.get('started_e0')
    inside = ev[e0:] if isinstance(e0, int) else ev
    commits = [e for e in inside if str(e).split()[0] == 'sql:COMMIT' or e == 'sql:COMMIT']
    if not commits:
        return None       # the kill must fall between two COMMITs of the block's end: after the first of them (the calls inside a block commit
        #                   nothing) -- before the next COMMIT itself or before one of the file removals a committed shard transaction makes
        #                   on its way out -- and, since a shard still holds the state BEFORE the block (below), before the last one

    def shard_of(key):
        return o.fanout._hash(key) % shards

    def by_shard(pairs):
        d = {}
        for key, v in pairs:
            d.setdefault(shard_of(key), set()).add((repr(key), repr(v)))
        return d
    try:
        got = by_shard((x[0], x[2]) for x in snap['items'] if x[1])
        before = by_shard((x[0], x[2]) for x in allowed[0].final_view() if x[1])
        after = by_shard((x[0], x[2]) for x in allowed[-1].final_view() if x[1])
    except Exception:  # noqa  (a key the routing cannot hash)
        return None
    choice = []
    for i in range(shards):
        g, b_, a_ = got.get(i, set()), before.get(i, set()), after.get(i, set())
        if g == a_ and g != b_:
            choice.append('after')
        elif g == b_ and g != a_:
            choice.append('before')
        elif g == b_ == a_:
            choice.append('same')
        else:
            return None
    if 'after' in choice and 'before' in choice:
        LAST_TORN.clear()
        LAST_TORN.update({'shards': shards, 'commits_done': len(commits), 'choice': choice})
        return ('a transaction block over %d shards was cut by the kill between the COMMITs of its shard transactions: shards %r hold the state '
                'after the block, shards %r the state before it (contents %r)' % (
                    shards, [i for i, c in enumerate(choice) if c == 'after'], [i for i, c in enumerate(choice) if c == 'before'],
                    [[x[0], x[2]] for x in snap['items']][:8]))
    return None


def inspect_container(directory, cont, wl, k, clock):
    """The post-mortem checks of `inspect` for a container of this section, made through THAT container: contents through a fresh handle,
    the container's check() reports nothing but unknown files / empty directories, a write through the container succeeds at once, the
    container's check(fix=True) followed by its check() is clean, and afterwards every file and directory below the container's directory is
    accounted for.  Signatures carry the container kind.  Returns ([(sig, text)], info)."""
    out = []
    kind, shards = cont['kind'], cont.get('shards', 2)
    ikind = CONT_INTERP[kind]
    try:
        with instr.Installed(clock):
            o = Opened(cont, directory, 1)
    except Exception as e:  # noqa
        return [('unusable_after_kill:' + kind, 'the %s cannot be opened on the directory after the kill: %r' % (cont_label(cont), e))], None
    bad, debris, snap = [], [], None
    try:
        # the reference speaks of the keys as they are stored (a DjangoCache stores make_key(key))
        def mapped(calls):
            return [dict(c, key=o.key(c['key'])) if 'key' in c else c for c in calls]
        rwl = dict(wl, setup=mapped(wl['setup']), program=mapped(wl['program']), settings={'maxlen': cont.get('maxlen')})
        allowed = allowed_states(ikind, rwl, k)
        try:
            with instr.Installed(clock):
                snap = concdrv.api_snapshot(directory, 'fanout', shards=shards) if ikind == 'fanout' else concdrv.api_snapshot(o.sub.directory, ikind)
        except Exception as e:  # noqa
            return [('unusable_after_kill:' + kind, 'a fresh handle cannot read the directory: %r' % e)], None
        for key, present, v, e_, t_, filed in snap['items']:
            if (present or ikind == 'deque') and (v == MISS or (isinstance(v, str) and v.startswith('EXC:'))):
                out.append(('present_key_unreadable', 'key %r is reported present (in / iteration) but reading it yields %r' % (key, v)))
        if not any(c05.final_matches(ikind, snap)(s) for s in allowed) and not out:
            torn = torn_between_shard_commits(o, ikind, shards, wl, k, snap, allowed)
            if torn:
                out.append(('fanout_block_torn_by_kill', torn))
            else:
                out.append(('contents_not_atomic', 'contents after the kill %r are neither the state after the finished calls %r nor that plus the interrupted '
                            'call %r' % ([[x[0], x[2]] for x in snap['items']][:8], allowed[0].final_view()[:8], allowed[-1].final_view()[:8])))
        with instr.Installed(clock):
            ws = o.repair(False)
            bad = [w for w in ws if not issubclass(w.category, (diskcache.UnknownFileWarning, diskcache.EmptyDirWarning))]
            debris = [w for w in ws if issubclass(w.category, diskcache.UnknownFileWarning)]
            for w in bad[:2]:
                msg = str(w.message).replace(directory, '<dir>')
                out.append(('check_reports:' + msg.split(':')[0].replace(' ', '_'), 'check() reports %r' % msg))
            # a write through the container succeeds at once (several keys, so that every shard is likely to be written)
            slowest, ok = 0.0, True
            try:
                target = o.obj if ikind == 'fanout' else o.sub
                for j in range(2 * shards if ikind == 'fanout' else 1):
                    for call in (lambda: target.set('__probe%d__' % j, 'p' * 40), lambda: target.delete('__probe%d__' % j)):
                        t0 = _time.time()
                        r_ = call()
                        slowest = max(slowest, _time.time() - t0)
                        ok = ok and r_ is True
            except Exception as e:  # noqa
                ok = repr(e)
            if ok is not True or slowest > 0.9:
                out.append(('write_blocked', 'writes through the %s after the kill returned %r (slowest call %.1f s; the handle waits 1 s for a lock)'
                            % (cont_label(cont), ok, slowest)))
            # the container's own repair
            o.repair(True)
            ws2 = o.repair(False)
            if ws2 and not bad:
                out.append(('repair_incomplete', 'after %s.check(fix=True) its check() still reports %r' % (
                    'the FanoutCache behind the DjangoCache' if kind == 'django' else ('FanoutCache' if o.sub is None else 'FanoutCache / ' + kind[7:] + '.cache'),
                    str(ws2[0].message).replace(directory, '<dir>'))))
            dbs = o.db_dirs()
    finally:
        o.close()
    if not bad:
        for sig, text in debris_after_repair(directory, dbs)[:2]:
            out.append((sig, text))
    return [(sig + ':' + kind, '%s [%s]' % (text, cont_label(cont))) for sig, text in out], {'debris': len(debris), 'snap': snap}


def container_workloads(cont):
    """[(name, setup, program)]: a finished call, the call under test on a file-backed value, a later call."""
    kind = cont['kind']
    if kind in ('fanout', 'django'):
        pre = [{'op': 'set', 'key': 'pre', 'value': BIG}]
        post = [{'op': 'set', 'key': 'post', 'value': SMALL}]
        base = [{'op': 'set', 'key': 'k', 'value': BIG}, {'op': 'set', 'key': 'other', 'value': BIG}, {'op': 'set', 'key': 'o2', 'value': 5}]
        cases = [('set-new', [], {'op': 'set', 'key': 'k', 'value': BIG2}), ('add-new', [], {'op': 'add', 'key': 'k', 'value': BIG2}),
                 ('set-replace', base, {'op': 'set', 'key': 'k', 'value': BIG2}), ('pop', base, {'op': 'pop', 'key': 'k'}),
                 ('delete', base, {'op': 'delete', 'key': 'k'}), ('set-file-to-inline', base, {'op': 'set', 'key': 'k', 'value': 7}),
                 ('incr-new', base, {'op': 'incr', 'key': 'n', 'delta': 3}), ('touch', base, {'op': 'touch', 'key': 'k', 'expire': 50})]
        out = [(n, s, pre + [c] + post) for n, s, c in cases]
        if kind == 'fanout':
            out.append(('block', base, pre + in_block([{'op': 'set', 'key': 'k', 'value': BIG2}, {'op': 'incr', 'key': 'n'}]) + post))
            out.append(('setitem-replace', base, pre + [{'op': 'setitem', 'key': 'k', 'value': BIG2}] + post))
            out.append(('block-move', base, pre + in_block([{'op': 'pop', 'key': 'k'}, {'op': 'set', 'key': 'moved', 'value': BIG2}]) + post))
        return out
    if kind == 'fanout-deque':
        dq = [{'op': 'append', 'value': BIG}, {'op': 'append', 'value': BIG2}, {'op': 'append', 'value': 3}]
        return [(n, dq, [{'op': 'append', 'value': 0}, c, {'op': 'append', 'value': 99}]) for n, c in (
            ('append', {'op': 'append', 'value': BIG2}), ('appendleft', {'op': 'appendleft', 'value': BIG2}), ('popleft', {'op': 'popleft'}),
            ('pop', {'op': 'pop'}), ('setitem', {'op': 'setitem', 'index': 0, 'value': BIG2}), ('rotate', {'op': 'rotate', 'steps': 1}))]
    ix = [{'op': 'setitem', 'key': 'a', 'value': BIG}, {'op': 'setitem', 'key': 'b', 'value': BIG2}]
    return [(n, ix, [{'op': 'setitem', 'key': 'pre', 'value': 1}, c, {'op': 'setitem', 'key': 'post', 'value': 2}]) for n, c in (
        ('setitem-new', {'op': 'setitem', 'key': 'c', 'value': BIG2}), ('setitem-replace', {'op': 'setitem', 'key': 'a', 'value': BIG2}),
        ('popitem-first', {'op': 'popitem', 'last': False}), ('pop', {'op': 'pop', 'key': 'b'}),
        ('setdefault', {'op': 'setdefault', 'key': 'c', 'default': BIG2}), ('delitem', {'op': 'delitem', 'key': 'a'}))]


def container_template(ctx, cont, setup):
    d = concdrv.scratch(ctx, 'c07ct')
    k = kill_container(d, cont, setup, kill_n=None, now=SETUP_NOW, timeout=60)
    if k['fatal'] or not k['done']:
        raise RuntimeError('setup of a %s workload failed: %r' % (cont_label(cont), k['fatal']))
    return d


def container_kill_case(ctx, cont, wl, tmpl, kn):
    d = concdrv.scratch(ctx, 'c07c')
    shutil.rmtree(d)
    shutil.copytree(tmpl, d)
    k = kill_container(d, cont, wl['program'], kill_n=kn)
    if k['fatal'] or not k['killed']:
        return [('child_failed', 'child of %s kill %d: %r' % (wl['name'], kn, k['fatal']))], None, k, d
    viol, info = inspect_container(d, cont, wl, k, instr.Clock(c05.NOW))
    return viol, info, k, d


def container_kills(ctx, res, stats, thorough, deadline=None):
    """Crash enumeration for the containers built on Cache.  quick: every container kind, the shard counts rotated by the seed, a storing
    workload of a file-backed value and one other workload each, every kill point; thorough: every container x every workload."""
    rng = random.Random(ctx.seed * 104729 + 11)
    st = stats.setdefault('container_kills', {})
    if thorough:
        plan = [(cont, w) for cont in CONTAINERS for w in container_workloads(cont)]
    else:
        fan = [c for c in CONTAINERS if c['kind'] == 'fanout']
        dj = [c for c in CONTAINERS if c['kind'] == 'django']
        conts = [fan[(ctx.seed + 1) % len(fan)], fan[(ctx.seed + 2) % len(fan)], dj[ctx.seed % len(dj)]] + [c for c in CONTAINERS if c['kind'].startswith('fanout-')]
        plan = []
        for cont in conts:
            wls = container_workloads(cont)
            storing = [w for w in wls if w[0] in ('set-new', 'add-new', 'append', 'appendleft', 'setitem-new', 'setdefault')]
            first = rng.choice(storing)
            plan.append((cont, first))
            if cont['kind'] in ('fanout', 'django'):
                plan.append((cont, rng.choice([w for w in wls if w is not first])))
    run_container_plan(ctx, res, stats, st, plan, deadline)


def run_container_plan(ctx, res, stats, st, plan, deadline=None):
    """every kill point of every (container, workload) of the plan, inspected through that container"""
    for cont, (name, setup, program) in plan:
        wl = {'name': '%s:%s' % (cont_label(cont), name), 'kind': CONT_INTERP[cont['kind']], 'setup': setup, 'program': program, 'settings': SETTINGS}
        tmpl = container_template(ctx, cont, setup)
        d0 = concdrv.scratch(ctx, 'c07c')
        shutil.rmtree(d0)
        shutil.copytree(tmpl, d0)
        full = kill_container(d0, cont, program, kill_n=None)
        shutil.rmtree(d0, ignore_errors=True)
        if full['fatal'] or not full['done']:
            res.violations.append(fw.Violation('workload_failed', 'workload %s does not complete without a kill: %r' % (wl['name'], full['fatal']),
                                               {'check': 'container_kill', 'container': cont, 'workload': wl, 'kill_n': None}))
            continue
        n = full['nevents']
        stats['kill_points'][wl['name']] = n
        st[cont_label(cont)] = st.get(cont_label(cont), 0) + n
        for kn in range(n):
            viol, info, k, d = container_kill_case(ctx, cont, wl, tmpl, kn)
            shutil.rmtree(d, ignore_errors=True)
            case = {'check': 'container_kill', 'container': cont, 'workload': wl, 'kill_n': kn, 'kill_event': k.get('kill_event'), 'events_before': k['events'][-12:]}
            stats['kills'] += 1
            if info:
                stats['kills_leaving_debris'] += int(info['debris'] > 0)
            res.count([wl['name'], kn], nontrivial=True)
            for sig, desc in viol[:3]:
                res.violations.append(fw.Violation(sig, '%s [workload %s, killed before event %d/%d = %s]' % (desc, wl['name'], kn, n, k.get('kill_event')), case))
                stats['by_sig'][sig] = stats['by_sig'].get(sig, 0) + 1
            if c05.enough(res, ID, EXPECTED_SIGS):
                break
        shutil.rmtree(tmpl, ignore_errors=True)
        if c05.enough(res, ID, EXPECTED_SIGS) or (deadline is not None and _time.time() > deadline):
            break


def iterator_kills(ctx, res, stats, thorough):
    """Kills while a partly consumed iterator of the container is alive (iter / reversed / iterkeys of a Cache, iter / reversed of a Deque,
    an Index and a FanoutCache, the key / value / item views of an Index, also for the Deque / Index a FanoutCache hands out): the iterator
    takes its first item and is kept, mutating calls complete, then the process is killed -- before every event of those calls, of the call
    after them and of the rest of the iteration.  Same post-mortem as every other kill point: what had completed is fully present.
    quick: every container kind x every way of iterating once, the mutating call and the value kind rotated by the seed; thorough: every
    workload of Cache / Deque / Index and a third (by seed) of those of FanoutCache and its Deque / Index."""
    plain, conts = iterator_workloads(), iterator_container_workloads()
    if not thorough:
        def pick(names):
            """one workload per (kind, how): names = [(kind, how, index in the list)]"""
            groups = {}
            for kind, how, i in names:
                groups.setdefault((kind, how), []).append(i)
            return [g[(ctx.seed * 5 + j * 3) % len(g)] for j, (_, g) in enumerate(sorted(groups.items()))]
        plain = [plain[i] for i in pick([(w['kind'], w['program'][0].get('view') or w['program'][0]['how'], i) for i, w in enumerate(plain)])]
        keep = pick([(cont_label(c), w[2][0].get('view') or w[2][0]['how'], i) for i, (c, w) in enumerate(conts)
                     if c['shards'] == 2 + (ctx.seed % 2) or c['kind'] != 'fanout'])
        conts = [conts[i] for i in keep]
    else:
        conts = [x for i, x in enumerate(conts) if i % 3 == ctx.seed % 3]       # a third of the container workloads by seed; every plain one
    n0 = stats['kills']
    for wl in plain:
        run_workload(ctx, res, stats, wl)
        if c05.enough(res, ID, EXPECTED_SIGS):
            break
    if not c05.enough(res, ID, EXPECTED_SIGS):
        run_container_plan(ctx, res, stats, stats.setdefault('container_kills', {}), conts)
    stats['iterator_kills'] = {'workloads': len(plain) + len(conts), 'kill_points': stats['kills'] - n0,
                               'ways_of_iterating': sorted(set('%s:%s' % (w['kind'], w['program'][0].get('view') or w['program'][0]['how']) for w in plain) |
                                                           set('%s:%s' % (c['kind'], w[2][0].get('view') or w[2][0]['how']) for c, w in conts))}


def _write_lock_free(db_dirs):
    """can another client take the write lock of every database at once?  (a raw connection with timeout 0: BEGIN IMMEDIATE, ROLLBACK)"""
    import sqlite3
    for sd in db_dirs:
        con = sqlite3.connect(os.path.join(sd, 'cache.db'), timeout=0, isolation_level=None)
        try:
            con.execute('BEGIN IMMEDIATE')
            con.execute('ROLLBACK')
        except sqlite3.OperationalError as e:
            return '%s: %s' % (os.path.basename(sd) or sd, e)
        finally:
            con.close()
    return None


def live_iterator_case(case, d):
    """A container holding a few items; an iterator of it (case['how']) takes n items and is kept alive.  While it is alive -- the state a kill
    of this process would freeze -- another client must be able to write AT ONCE (it takes the write lock of every database of the container
    with timeout 0), also after this client has completed a mutating call of its own.  Returns [(sig, text)]."""
    cont, how = case['container'], case['how']
    out = []
    clock = instr.Clock(c05.NOW)
    with instr.Installed(clock):
        if cont['kind'] in ('cache', 'deque', 'index'):
            obj = concdrv.make_object(cont['kind'], d, SETTINGS, timeout=1)
            kind, dbs, closer = cont['kind'], [d], lambda: concdrv.close_object(obj)
        else:
            o = Opened(cont, d, 1)
            obj, kind, dbs, closer = o.obj, o.kind, o.db_dirs(), o.close
        try:
            name, setup, calls = [x for x in iter_calls(cont['kind'], 'file', BIG, BIG2) if x[0] == case['calls']][0]
            for c_ in setup:
                concdrv.apply_call(obj, c_, kind)
            src = ViewOf(obj, how) if how in VIEWS else obj
            it = iter(src) if how in VIEWS + ('iter',) else (reversed(src) if how == 'reversed' else src.iterkeys())
            for _ in range(case.get('n', 1)):
                next(it)
            label = 'an iterator (%s) of a %s that has yielded %d item(s) and is still alive' % (how, cont_label(cont) if 'shards' in cont else cont['kind'], case.get('n', 1))
            busy = _write_lock_free(dbs)
            if busy:
                out.append(('write_blocked_by_live_iterator', '%s: another client cannot take the write lock (%s)' % (label, busy)))
            for c_ in calls:
                if c_['op'] not in concdrv.BLOCK_OPS:
                    concdrv.apply_call(obj, c_, kind)
            busy = _write_lock_free(dbs)
            if busy and not out:
                out.append(('write_blocked_by_live_iterator', '%s, after this client completed %s: another client cannot take the write lock (%s)' % (label, name, busy)))
            del it
        finally:
            closer()
    return [(sig + ':' + cont['kind'], text) for sig, text in out]


def live_iterators(ctx, res, stats):
    n = 0
    for kind in ('cache', 'deque', 'index', 'fanout', 'fanout-deque', 'fanout-index'):
        cont = {'kind': kind} if kind in ('cache', 'deque', 'index') else {'kind': kind, 'shards': 2 + (ctx.seed % 2)}
        names = [x[0] for x in iter_calls(kind, 'file', BIG, BIG2) if x[0] != 'block']
        for j, how in enumerate(ITER_HOWS[kind] + (VIEWS if kind == 'index' else ())):
            case = {'check': 'live_iterator', 'container': cont, 'how': how, 'n': 1 + (ctx.seed + j) % 2, 'calls': names[(ctx.seed + j) % len(names)]}
            d = concdrv.scratch(ctx, 'c07li')
            try:
                viol = live_iterator_case(case, d)
            except Exception as e:  # noqa
                viol = [('live_iterator_failed:' + kind, 'iterating a %s by %s and writing beside it raised %r' % (kind, how, e))]
            shutil.rmtree(d, ignore_errors=True)
            n += 1
            res.count(['live-iterator', case], nontrivial=True)
            for sig, desc in viol[:2]:
                res.violations.append(fw.Violation(sig, desc, case))
                stats['by_sig'][sig] = stats['by_sig'].get(sig, 0) + 1
    stats['live_iterators'] = n


def fanout_block_witness(ctx, res, stats):
    """Directed witness of the recorded finding C07-F2: FanoutCache(shards=2), a transaction block that writes keys of both shards, killed
    before each COMMIT of the block's end (the kill before the SECOND COMMIT falls between the two shard transactions)."""
    cont = {'kind': 'fanout', 'shards': 2}
    name, setup, program = [w for w in container_workloads(cont) if w[0] == 'block'][0]
    wl = {'name': '%s:%s' % (cont_label(cont), name), 'kind': 'fanout', 'setup': setup, 'program': program, 'settings': SETTINGS}
    tmpl = container_template(ctx, cont, setup)
    try:
        d0 = concdrv.scratch(ctx, 'c07c')
        shutil.rmtree(d0)
        shutil.copytree(tmpl, d0)
        full = kill_container(d0, cont, program, kill_n=None)
        shutil.rmtree(d0, ignore_errors=True)
        if full['fatal'] or not full['done']:
            return
        seen = False
        observed = []
        for kn, e in enumerate(full['events']):
            if e != 'sql:COMMIT':
                continue
            LAST_TORN.clear()
            viol, info, k, d = container_kill_case(ctx, cont, wl, tmpl, kn)
            if LAST_TORN:
                observed.append(dict(LAST_TORN))
            shutil.rmtree(d, ignore_errors=True)
            case = {'check': 'container_kill', 'container': cont, 'workload': wl, 'kill_n': kn, 'kill_event': k.get('kill_event'), 'events_before': k['events'][-12:]}
            res.count([wl['name'], 'witness', kn], nontrivial=True)
            for sig, desc in viol[:3]:
                seen = seen or sig.startswith('fanout_block_torn_by_kill')
                res.violations.append(fw.Violation(sig, '%s [workload %s, killed before event %d/%d = %s]' % (desc, wl['name'], kn, full['nevents'], k.get('kill_event')), case))
        stats['fanout_block_witness_seen'] = seen
        # which shards hold the state AFTER the block when k shard COMMITs have executed: the model's answer (model/FanoutBlock.v `committed
        # (fan_commit_order n) k`, the order read off FanoutCache.transact, reversed by the ExitStack) against what the reopened directory shows
        if observed and not ctx.search_mode:
            body = ''.join('Eval vm_compute in map (committed (fan_commit_order %d) %d) (seq 0 %d).\n' % (o_['shards'], o_['commits_done'], o_['shards'])
                           for o_ in observed)
            rc, out = fw.coq_eval('c07fb', body, ['DCPrelude', 'FanoutBase', 'Gen_Fanout', 'Fanout', 'FanoutBlock'])
            lists = fw.parse_eval_lists(out) if rc == 0 else []
            if rc != 0 or len(lists) != len(observed):
                res.disagreements.append(fw.Violation('model-eval', 'evaluation of model/FanoutBlock.v failed: ' + out[-300:], {}, 'correspondence'))
            for o_, term in zip(observed, lists):
                model = [t.strip() == 'true' for t in term.strip().strip('[]').split(';')]
                res.count(['fanout-commit-order', o_['shards'], o_['commits_done']], nontrivial=True)
                ok = len(model) == o_['shards'] and all(c == 'same' or (c == 'after') == m for c, m in zip(o_['choice'], model))
                if ok:
                    res.traces_validated += 1
                else:
                    res.disagreements.append(fw.Violation('fanout_commit_order', 'after %d shard COMMITs the reopened directory shows shards %r (per shard: state after / before '
                                                          'the block), the model says committed = %r' % (o_['commits_done'], o_['choice'], model),
                                                          {'check': 'fanout_commit_order', 'observed': o_, 'model': model}, 'correspondence'))
    finally:
        shutil.rmtree(tmpl, ignore_errors=True)


# ---------------------------------------------------------------------------
# running


# ---------------------------------------------------------------------------
# kills inside a call that CULLS: the store of set / setitem / add / push / an inserting incr removes, in the same transaction,
# (a) up to cull_limit expired rows and (b) under an evicting policy, once the volume exceeds size_limit, live rows.  A kill
# before that transaction's COMMIT must leave every culled item fully present (row AND value file); a kill after it, fully
# absent.  The reference dictionary of c05 knows no eviction, so the permitted contents come from the implementation itself,
# run WITHOUT a kill: contents after the first i top-level units, for every i (on copies of the same directory, same virtual
# clock -- deterministic).  After a kill with i units finished: contents = those after i units, or after i + 1 if one was in
# flight.  Everything else of the post-mortem (present keys readable, check(), a write, repair, debris) is inspect().


def items_view(snap):
    return sorted(([x[0], x[1], x[2], x[3], x[4]] for x in snap['items']), key=repr)


def cull_workloads():
    out = []
    pre = [{'op': 'set', 'key': 'pre', 'value': 1}]
    post = [{'op': 'set', 'key': 'post', 'value': SMALL}]
    live = [{'op': 'set', 'key': 'l%d' % i, 'value': 'L%d' % i + '-' * (12 + i)} for i in range(4)] + [{'op': 'set', 'key': 'li', 'value': 3}]
    dead = [{'op': 'set', 'key': 'dead1', 'value': BIG, 'expire': 50}, {'op': 'set', 'key': 'dead2', 'value': BIG2, 'expire': 40, 'tag': 't'},
            {'op': 'set', 'key': 'dead3', 'value': 4, 'expire': 45}]
    for variant in ('evict', 'expired', 'both'):
        setup = (live if variant != 'expired' else live[:1]) + (dead if variant != 'evict' else [])
        for vname, new in (('inline', 6), ('file', BIG2)):
            calls = [('set', {'op': 'set', 'key': 'k', 'value': new}), ('setitem', {'op': 'setitem', 'key': 'k', 'value': new}),
                     ('set-replace', {'op': 'set', 'key': 'l0', 'value': new}),
                     ('add', {'op': 'add', 'key': 'k', 'value': new}), ('push', {'op': 'push', 'value': new}),
                     ('push-front-prefix', {'op': 'push', 'value': new, 'prefix': 'q', 'side': 'front'})]
            if vname == 'inline':
                calls.append(('incr', {'op': 'incr', 'key': 'k', 'delta': 3}))
            for cname, call in calls:
                for cull_limit in (1, 2, 10):
                    settings = dict(SETTINGS, cull_limit=cull_limit)
                    if variant != 'expired':
                        settings['size_limit'] = 1
                    for block in (False, True):
                        prog = pre + (in_block([call, {'op': 'incr', 'key': 'n'}]) if block else [call]) + post
                        wl = W('cull:%s:%s:%s:c%d%s' % (variant, cname, vname, cull_limit, ':block' if block else ''), 'cache', setup, prog, settings=settings)
                        # the setup removes nothing: no size limit, no lazy culling
                        wl['setup_settings'] = dict(SETTINGS, cull_limit=0)
                        out.append(wl)
    return out


def run_cull_workload(ctx, res, stats, wl, stride=1):
    kind = wl['kind']
    tmpl = prepare_template(ctx, wl)
    clock = instr.Clock(c05.NOW)
    units = units_of_program(wl['program'])
    prefix_items, full = [], None
    for i in range(len(units) + 1):
        d0 = concdrv.scratch(ctx, 'c07')
        shutil.rmtree(d0)
        shutil.copytree(tmpl, d0)
        # (the child opens the directory with the workload's settings also for the empty prefix)
        full = concdrv.kill_child(d0, wl['program'][:units[i - 1][1] + 1] if i else [], kill_n=None, kind=kind, settings=wl['settings'])
        if full['fatal'] or not full['done']:
            res.violations.append(fw.Violation('workload_failed', 'workload %s does not complete without a kill: %r' % (wl['name'], full['fatal']),
                                               {'check': 'cull-kill', 'workload': wl, 'kill_n': None}))
            shutil.rmtree(d0, ignore_errors=True)
            shutil.rmtree(tmpl, ignore_errors=True)
            return
        with instr.Installed(clock):
            prefix_items.append(items_view(concdrv.api_snapshot(d0, kind)))
        shutil.rmtree(d0, ignore_errors=True)
    n = full['nevents']
    wl = dict(wl, prefix_items=prefix_items)
    stats['cull_workloads'] = stats.get('cull_workloads', 0) + 1
    stats['cull_workloads_removing_items'] = stats.get('cull_workloads_removing_items', 0) + int('sql:DELETE' in full['events'])
    for kn in range(0, n, stride):
        d = concdrv.scratch(ctx, 'c07')
        shutil.rmtree(d)
        shutil.copytree(tmpl, d)
        k = concdrv.kill_child(d, wl['program'], kill_n=kn, kind=kind, settings=wl['settings'])
        case = {'check': 'cull-kill', 'workload': {x: y for x, y in wl.items() if x != 'prefix_items'}, 'kill_n': kn, 'kill_event': k.get('kill_event'),
                'events_before': k['events'][-12:]}
        if k['fatal'] or not k['killed']:
            res.violations.append(fw.Violation('child_failed', 'child of %s kill %d: %r' % (wl['name'], kn, k['fatal']), case))
            shutil.rmtree(d, ignore_errors=True)
            continue
        viol, info = inspect(d, kind, wl, k, clock)
        stats['kills'] += 1
        stats['cull_kills'] = stats.get('cull_kills', 0) + 1
        stats['kills_by_event'][k['kill_event']] = stats['kills_by_event'].get(k['kill_event'], 0) + 1
        res.count([wl['name'], kn], nontrivial=True)
        for sig, desc in viol[:3]:
            res.violations.append(fw.Violation(sig, '%s [workload %s, killed before event %d/%d = %s]' % (desc, wl['name'], kn, n, k['kill_event']), case))
            stats['by_sig'][sig] = stats['by_sig'].get(sig, 0) + 1
        shutil.rmtree(d, ignore_errors=True)
        if c05.enough(res, ID, EXPECTED_SIGS):
            break
    shutil.rmtree(tmpl, ignore_errors=True)


def cull_kills(ctx, res, stats, thorough, deadline):
    wls = cull_workloads()
    if not thorough:
        rng = random.Random(ctx.seed * 104729 + 11)
        pick = []
        # every storing method once per variant-independent draw: the (variant, value kind, cull_limit, block) of each is seeded
        for cname in ('set', 'setitem', 'set-replace', 'add', 'push', 'push-front-prefix', 'incr'):
            pick.append(rng.choice([w for w in wls if w['name'].split(':')[2] == cname]))
        # and always: an evicting push / set / add of every kind of value inside and outside a block (cull_limit 2)
        pick += [w for w in wls if w['name'] in ('cull:evict:push:inline:c2', 'cull:both:set:file:c2:block', 'cull:expired:push:file:c2:block', 'cull:evict:add:file:c2')
                 and w not in pick]
        wls = pick
    for wl in wls:
        run_cull_workload(ctx, res, stats, wl)
        if _time.time() > deadline or c05.enough(res, ID, EXPECTED_SIGS):
            stats['cull_stopped_early'] = _time.time() > deadline
            break


def prepare_template(ctx, wl):
    """Directory with the workload's setup applied (by a child process, so the parent holds no connection)."""
    d = concdrv.scratch(ctx, 'c07t')
    k = concdrv.kill_child(d, wl['setup'], kill_n=None, kind=wl['kind'], settings=wl.get('setup_settings') or wl['settings'], timeout=60, now=SETUP_NOW)
    if k['fatal'] or not k['done']:
        raise RuntimeError('setup of %s failed: %r' % (wl['name'], k['fatal']))
    return d


def run_workload(ctx, res, stats, wl, points=None):
    kind = wl['kind']
    tmpl = prepare_template(ctx, wl)
    d0 = concdrv.scratch(ctx, 'c07')
    shutil.rmtree(d0)
    shutil.copytree(tmpl, d0)
    full = concdrv.kill_child(d0, wl['program'], kill_n=None, kind=kind, settings=wl['settings'])
    shutil.rmtree(d0, ignore_errors=True)
    if full['fatal'] or not full['done']:
        res.violations.append(fw.Violation('workload_failed', 'workload %s does not complete without a kill: %r' % (wl['name'], full['fatal']), {'check': 'kill', 'workload': wl, 'kill_n': None}))
        return
    n = full['nevents']
    stats['kill_points'][wl['name']] = n
    stats['workloads'] += 1
    stats['event_kinds'].update(full['events'])
    # sanity of the reference on the uninterrupted run
    clock = instr.Clock(c05.NOW)
    todo = list(range(n)) if points is None else [p for p in points if p < n]
    for kn in todo:
        d = concdrv.scratch(ctx, 'c07')
        shutil.rmtree(d)
        shutil.copytree(tmpl, d)
        k = concdrv.kill_child(d, wl['program'], kill_n=kn, kind=kind, settings=wl['settings'])
        case = {'check': 'kill', 'workload': wl, 'kill_n': kn, 'kill_event': k.get('kill_event'), 'events_before': k['events'][-12:]}
        if k['fatal'] or not k['killed']:
            res.violations.append(fw.Violation('child_failed', 'child of %s kill %d: %r' % (wl['name'], kn, k['fatal']), case))
            continue
        if kind == 'cache' and not ctx.search_mode:
            crash_term(wl, kn, k, d)
        viol, info = inspect(d, kind, wl, k, clock)
        viol = classify(viol, wl, k)
        KILL_RECORDS.append({'workload': wl['name'], 'kind': kind, 'setup': wl['setup'], 'program': wl['program'], 'kill_n': kn,
                             'kill_event': k.get('kill_event'), 'events': k['events'], 'finished': [rec['index'] for rec in k['records']],
                             'in_flight': k['started'], 'started_e0': k.get('started_e0'), 'started_depth': k.get('started_depth', 0), 'contents': [[x[0], x[1], x[2]] for x in info['snap']['items']] if info else None,
                             'unreferenced_files': info['debris'] if info else None})
        stats['kills'] += 1
        stats['kills_by_event'][k['kill_event']] = stats['kills_by_event'].get(k['kill_event'], 0) + 1
        if info:
            stats['kills_leaving_debris'] += int(info['debris'] > 0)
        in_txn = False
        for e in k['events']:
            if e == 'sql:BEGIN':
                in_txn = True
            elif e in ('sql:COMMIT', 'sql:ROLLBACK'):
                in_txn = False
        stats['kills_inside_transaction'] += int(in_txn)
        res.count([wl['name'], kn], nontrivial=True)
        for sig, desc in viol[:3]:
            res.violations.append(fw.Violation(sig, '%s [workload %s, killed before event %d/%d = %s]' % (desc, wl['name'], kn, n, k['kill_event']), case))
            stats['by_sig'][sig] = stats['by_sig'].get(sig, 0) + 1
        if len(res.samples) < 4 and kn == n // 2:
            res.sample({'workload': wl['name'], 'program': wl['program'], 'setup': wl['setup'][:4], 'kill_before_event': kn, 'of': n, 'kill_event': k['kill_event'],
                        'events_before_kill': k['events'][-10:], 'contents_after': [[x[0], x[2]] for x in (info['snap']['items'] if info else [])][:6]})
        shutil.rmtree(d, ignore_errors=True)
        if c05.enough(res, ID, EXPECTED_SIGS):
            break
    shutil.rmtree(tmpl, ignore_errors=True)


OPEN_SETUPS = {'fresh': [], 'populated': [{'op': 'set', 'key': 'old', 'value': BIG}, {'op': 'set', 'key': 'n', 'value': 1}]}
OPEN_PROG = [{'op': 'set', 'key': 'first', 'value': 1}]


def open_kill_template(ctx, kind, shards, setup):
    tmpl = concdrv.scratch(ctx, 'c07o')
    if setup:
        k0 = concdrv.kill_child(tmpl, setup, kill_n=None, kind=kind, settings=SETTINGS, timeout=60, now=SETUP_NOW, shards=shards)
        if k0['fatal'] or not k0['done']:
            raise RuntimeError('open_kills setup failed: %r' % k0['fatal'])
    else:
        shutil.rmtree(tmpl)
    return tmpl


def open_kill_case(ctx, kind, shards, setup, tmpl, kn):
    """Kill the child before its kn-th event counted from the start of OPENING the directory, then use the directory from
    this process.  Returns (problems, kill_child result)."""
    from props import c06
    clock = instr.Clock(c05.NOW)
    d = concdrv.scratch(ctx, 'c07o')
    shutil.rmtree(d)
    if setup:
        shutil.copytree(tmpl, d)
    k = concdrv.kill_child(d, OPEN_PROG, kill_n=kn, kind=kind, settings=SETTINGS, shards=shards, trace_open=True)
    problems = []
    try:
        with instr.Installed(clock):
            c = concdrv.make_object(kind, d, SETTINGS, timeout=1, shards=shards)
            try:
                for key, v in (('after1', 1), ('after2', BIG2), ('after3', 'x')):
                    c.set(key, v, retry=True)
                keys = sorted(c)
                if len(c) != len(keys):
                    problems.append(('open_kill:len_wrong', 'len() == %d but %d keys are stored (%r)' % (len(c), len(keys), keys)))
                for key, v in (('after1', 1), ('after2', BIG2), ('after3', 'x')):
                    if c.get(key) != v:
                        problems.append(('open_kill:write_lost', 'item %r stored after the kill reads %r' % (key, c.get(key))))
                for call in setup:
                    if c.get(call['key']) != call['value']:
                        problems.append(('open_kill:old_item_damaged', 'item %r stored before reads %r' % (call['key'], c.get(call['key']))))
                ws = [w for sh in concdrv.shards_of(c) for w in lib_check(sh)]
                bad = [w for w in ws if not issubclass(w.category, (diskcache.UnknownFileWarning, diskcache.EmptyDirWarning))]
                for w in bad[:1]:
                    problems.append(('open_kill:check_reports', 'check() reports %r' % str(w.message).replace(d, '<dir>')))
            finally:
                concdrv.close_object(c)
        for sig, text in c06.consistency(d, kind, shards)[:2]:
            if sig != 'unknown_file':
                problems.append(('open_kill:' + sig, text))
    except Exception as e:  # noqa
        problems.append(('open_kill:unusable', 'the directory cannot be opened and used after the kill: %r' % e))
    shutil.rmtree(d, ignore_errors=True)
    return problems, k


def open_kills(ctx, res, stats, thorough):
    """The kill lands inside the OPENING of a directory (Cache.__init__ creates tables, triggers and settings with many
    statements): of a directory that does not exist yet, and of one that holds items.  Whatever the kill point, a later
    process must be able to open the directory and use it: what it stores is counted (len == number of keys), the
    counters agree with the rows and the files, check() is silent, and items that were there before are intact."""
    for label, setup in OPEN_SETUPS.items():
        for kind, shards in (('cache', 1), ('fanout', 2)):
            if kind == 'fanout' and not thorough and label == 'populated':
                continue
            tmpl = open_kill_template(ctx, kind, shards, setup)
            d0 = concdrv.scratch(ctx, 'c07o')
            shutil.rmtree(d0)
            if setup:
                shutil.copytree(tmpl, d0)
            full = concdrv.kill_child(d0, OPEN_PROG, kill_n=None, kind=kind, settings=SETTINGS, shards=shards, trace_open=True)
            shutil.rmtree(d0, ignore_errors=True)
            if full['fatal'] or not full['done']:
                res.violations.append(fw.Violation('workload_failed', 'opening a %s %s directory does not complete: %r' % (label, kind, full['fatal']),
                                                   {'check': 'open_kill', 'kind': kind, 'shards': shards, 'label': label, 'kill_n': None}))
                continue
            n = full['nevents']
            stats['kill_points']['open:%s:%s' % (label, kind)] = n
            step = 1 if (thorough or n <= 120) else 2
            for kn in range(0, n, step):
                problems, k = open_kill_case(ctx, kind, shards, setup, tmpl, kn)
                case = {'check': 'open_kill', 'kind': kind, 'shards': shards, 'label': label, 'kill_n': kn, 'kill_event': k.get('kill_event'),
                        'events_before': k['events'][-6:]}
                stats['kills'] += 1
                res.count(['open-kill', label, kind, kn], nontrivial=True)
                for sig, text in problems[:2]:
                    res.violations.append(fw.Violation(sig, '%s [opening a %s %s directory, killed before event %d/%d = %s]' % (text, label, kind, kn, n, k.get('kill_event')), case))
                    stats['by_sig'][sig] = stats['by_sig'].get(sig, 0) + 1
                if c05.enough(res, ID, EXPECTED_SIGS):
                    break
            if os.path.isdir(tmpl):
                shutil.rmtree(tmpl, ignore_errors=True)


class DyingStream:
    """File-like value handed to set / add / push with read=True: delivers its chunks one read() at a time and ends the process
    (os._exit, nothing is flushed or cleaned up) inside read() number `die_at` (1-based; die_at = len(chunks) + 1 is the read that
    would have signalled the end of the stream, i.e. every chunk is written and the file is still open)."""

    def __init__(self, chunks, die_at):
        self.chunks, self.die_at, self.calls = chunks, die_at, 0

    def read(self, size=-1):
        self.calls += 1
        if self.calls == self.die_at:
            os._exit(137)
        return self.chunks[self.calls - 1] if self.calls <= len(self.chunks) else b''


STREAM_CHUNKS = ([b'one-chunk-of-a-stream'], [b'first-chunk-' * 3, b'second-chunk'], [b'a' * 70000, b'b' * 9, b'c' * 4097])


def stream_kill_case(ctx, op, chunks, die_at, replace, cont=None):
    """A child stores 'done' (file-backed), then is killed inside the die_at-th read() of the stream it hands to
    set / add / push (read=True): the value file exists, is partly written and still open.  cont: the container the child works
    through (None: a plain Cache).  Returns (problems, directory)."""
    d = concdrv.scratch(ctx, 'c07r')
    setup = [{'op': 'set', 'key': 'done', 'value': BIG}] + ([{'op': 'set', 'key': 'victim', 'value': BIG2}] if replace else [])
    call = {'op': op, 'key': 'victim', 'value': '<stream>'} if op != 'push' else {'op': 'push', 'value': '<stream>'}
    if cont is not None:
        k = kill_container(d, cont, setup + [call], stream=(chunks, die_at))
        if not (os.WIFEXITED(k['status']) and os.WEXITSTATUS(k['status']) == 137):
            return [('child_failed', 'the child writing a stream ended with status %r (%r) instead of being killed inside read()' % (k['status'], k['fatal']))], d
        wl = W('%s:stream-%s%s' % (cont_label(cont), op, ':replace' if replace else ''), 'fanout', setup, [call])
        viol, info = inspect_container(d, cont, wl, {'records': [], 'started': 0}, instr.Clock(c05.NOW))
        return viol, d
    sys.stdout.flush()
    sys.stderr.flush()
    pid = os.fork()
    if pid == 0:
        code = 1
        try:
            with instr.Installed(instr.Clock(c05.NOW)):
                c = diskcache.Cache(d, timeout=5, **SETTINGS)
                for s in setup:
                    c.set(s['key'], s['value'])
                stream = DyingStream(chunks, die_at)
                if op == 'push':
                    c.push(stream, read=True)
                else:
                    getattr(c, op)('victim', stream, read=True)
            code = 0        # not reached: the stream ends the process
        finally:
            os._exit(code)
    _, status = os.waitpid(pid, 0)
    if not (os.WIFEXITED(status) and os.WEXITSTATUS(status) == 137):
        return [('child_failed', 'the child writing a stream ended with status %r instead of being killed inside read()' % status)], d
    wl = W('cache:stream-%s%s' % (op, ':replace' if replace else ''), 'cache', setup, [call])
    viol, info = inspect(d, 'cache', wl, {'records': [], 'started': 0}, instr.Clock(c05.NOW))
    return viol, d


def stream_kills(ctx, res, stats, conts=(None,)):
    """Kills BETWEEN the write chunks of a value file (file created, some chunks written, not closed): values handed over as
    streams (read=True) of 1-3 chunks, the process dies inside each read() of the stream.  Decided by the same inspection
    as every other kill point (contents, check(), a write, the repair and what is left on disk after it).  conts: the containers
    the writer works through (None = a plain Cache; FanoutCache / DjangoCache: set and add)."""
    for cont in conts:
        for op, replace in (('set', False), ('set', True), ('add', False), ('push', False)):
            if cont is not None and op == 'push':
                continue
            for chunks in STREAM_CHUNKS:
                for die_at in range(1, len(chunks) + 2):
                    viol, d = stream_kill_case(ctx, op, chunks, die_at, replace, cont)
                    case = {'check': 'stream_kill', 'op': op, 'replace': replace, 'chunks': [len(x) for x in chunks], 'nchunks': STREAM_CHUNKS.index(chunks),
                            'die_at': die_at, 'container': cont}
                    stats['kills'] += 1
                    stats['stream_kills'] = stats.get('stream_kills', 0) + 1
                    res.count(['stream-kill', op, replace, case['chunks'], die_at, cont], nontrivial=True)
                    for sig, desc in viol[:3]:
                        res.violations.append(fw.Violation(sig, '%s [%s(read=True) of a stream of %d chunks%s%s, process killed inside read() number %d]' % (
                            desc, op, len(chunks), ' replacing a file-backed value' if replace else '',
                            '' if cont is None else ' through a ' + cont_label(cont), die_at), case))
                        stats['by_sig'][sig] = stats['by_sig'].get(sig, 0) + 1
                    shutil.rmtree(d, ignore_errors=True)
                    if c05.enough(res, ID, EXPECTED_SIGS):
                        return


class Counter(dict):
    def update(self, items):
        for i in items:
            self[i] = self.get(i, 0) + 1


def soak(ctx, res, stats, rounds=40):
    """SIGKILL at a random instant of a child looping over writes (no tracer, real clock): every key must hold a value
    the child wrote for it, at most one step behind/ahead of what the child reported."""
    rng = ctx.rng
    for rnd in range(rounds):
        d = concdrv.scratch(ctx, 'c07s')
        rfd, wfd = os.pipe()
        sys.stdout.flush()
        pid = os.fork()
        if pid == 0:
            try:
                os.close(rfd)
                c = diskcache.Cache(d, timeout=60, disk_min_file_size=8)
                i = 0
                while True:
                    key = 'k%d' % (i % 4)
                    v = ('%06d' % i) + ('#' * 3000 + '\n' + '%' * 3000 if i % 2 else '')
                    os.write(wfd, b's%d\n' % i)
                    if i % 7 == 6:
                        c.pop(key, None)
                    elif i % 11 == 10:
                        with c.transact():
                            c.set(key, v)
                            c.incr('n')
                    else:
                        c.set(key, v)
                    os.write(wfd, b'd%d\n' % i)
                    i += 1
            finally:
                os._exit(1)
        os.close(wfd)
        _time.sleep(0.05 + rng.random() * 0.25)
        os.kill(pid, signal.SIGKILL)
        os.waitpid(pid, 0)
        data = b''
        while True:
            chunk = os.read(rfd, 65536)
            if not chunk:
                break
            data += chunk
        os.close(rfd)
        lines = data.decode().split()
        started = max([int(l[1:]) for l in lines if l.startswith('s')] + [-1])
        done = max([int(l[1:]) for l in lines if l.startswith('d')] + [-1])
        stats['soak_rounds'] = stats.get('soak_rounds', 0) + 1
        stats['soak_ops'] = stats.get('soak_ops', 0) + done + 1
        case = {'check': 'soak', 'round': rnd, 'started': started, 'done': done}
        res.count(['soak', rnd, started], nontrivial=started > done)
        c = diskcache.Cache(d, timeout=1)
        try:
            for j in range(4):
                key = 'k%d' % j
                v = c.get(key)
                present = key in c
                if present and v is None:
                    res.violations.append(fw.Violation('present_key_unreadable', 'soak: %s reported present but unreadable (killed in op %d)' % (key, started), case))
                    continue
                if v is None:
                    continue
                i = int(v[:6])
                tail = v[6:]
                if i % 4 != j or tail != ('#' * 3000 + '\n' + '%' * 3000 if i % 2 else '') or i > started:
                    res.violations.append(fw.Violation('partial_value', 'soak: %s holds a value nobody wrote: %r...' % (key, v[:30]), case))
                # the latest finished write of this key must not be lost (later ops on the key: at most the one in flight)
                latest = max([x for x in range(done + 1) if x % 4 == j] + [-1])
                if latest >= 0 and i < latest and not (latest % 7 == 6):
                    later_pop = any(x % 7 == 6 for x in range(i + 1, started + 1) if x % 4 == j)
                    if not later_pop:
                        res.violations.append(fw.Violation('finished_write_lost', 'soak: %s holds write %d but write %d had been reported finished' % (key, i, latest), case))
            ws = [w for w in lib_check(c) if not issubclass(w.category, (diskcache.UnknownFileWarning, diskcache.EmptyDirWarning))]
            if ws:
                res.violations.append(fw.Violation('check_reports:' + str(ws[0].message).split(':')[0].replace(' ', '_'), 'soak: check() reports %r' % str(ws[0].message)[:100], case))
            t0 = _time.time()
            try:
                okw = c.set('__probe__', 'p' * 40)
            except Exception as e:  # noqa
                okw = repr(e)
            if okw is not True or _time.time() - t0 > 0.9:
                res.violations.append(fw.Violation('write_blocked', 'soak: a write after the kill returned %r after %.1f s' % (okw, _time.time() - t0), case))
            lib_check(c, fix=True)
            ws2 = [w for w in lib_check(c) if not issubclass(w.category, diskcache.EmptyDirWarning)]
            if ws2:
                res.violations.append(fw.Violation('repair_incomplete', 'soak: after check(fix=True) check() reports %r' % str(ws2[0].message)[:100], case))
        finally:
            c.close()
        for sig, text in debris_after_repair(d)[:1]:
            res.violations.append(fw.Violation(sig, 'soak: ' + text, case))
        shutil.rmtree(d, ignore_errors=True)


CONC_PROGRAMS = [
    ([[{'op': 'set', 'key': 'a', 'value': BIG, 'retry': True}, {'op': 'incr', 'key': 'c', 'retry': True}, {'op': 'pop', 'key': 'a', 'retry': True}],
      [{'op': 'incr', 'key': 'c', 'retry': True}, {'op': 'set', 'key': 'b', 'value': BIG2, 'retry': True}, {'op': 'get', 'key': 'a'}]], []),
    ([[{'op': 'set', 'key': 'a', 'value': BIG2, 'retry': True}, {'op': 'delete', 'key': 'b', 'retry': True}],
      [{'op': 'add', 'key': 'a', 'value': 1, 'retry': True}, {'op': 'get', 'key': 'b'}, {'op': 'incr', 'key': 'n', 'retry': True}]],
     [{'op': 'set', 'key': 'a', 'value': BIG}, {'op': 'set', 'key': 'b', 'value': BIG}]),
]


def concurrent_kills(ctx, res, stats, stride):
    """Two PROCESSES under the process scheduler; process 0 is SIGKILLed while parked before its n-th event (possibly
    holding the write lock, with process 1 spinning on BEGIN).  Process 1 must finish all its calls, and the results
    and final contents must be explained with process 0's interrupted call applied or not."""
    for pi, (programs, setup) in enumerate(CONC_PROGRAMS):
        seqs = concdrv.solo_events(ctx, programs, settings=SETTINGS, setup=setup)
        n0 = len(seqs[0])
        for n in range(0, n0, stride):
            lead = min(n, ctx.rng.randrange(0, n + 1) if n else 0)
            schedule = [0] * lead + [1] * ctx.rng.randrange(0, 6) + [0] * n0
            r = concdrv.run_processes(ctx, programs, schedule, settings=SETTINGS, setup=setup, kill_at={0: n}, max_steps=3000)
            case = {'check': 'conc-kill', 'programs': programs, 'setup': setup, 'schedule': r['schedule_used'], 'kill_at': n}
            stats['concurrent_kills'] = stats.get('concurrent_kills', 0) + 1
            res.count(['conc-kill', pi, n, r['schedule_used']], nontrivial=True)
            viol = []
            if r['overflow']:
                viol.append(('survivor_blocked', 'after process 0 was killed before its event %d the other process did not finish within the step budget' % n))
            if r['errors'][1] is not None:
                viol.append(('survivor_failed', 'the surviving process ended with %r' % r['errors'][1]))
            for rec in r['calls'][1]:
                if rec.get('exc') and rec['exc'] not in ('KeyError',):
                    viol.append(('survivor_failed', 'the surviving process: %s raised %s' % (rec['op'], rec['exc'])))
            if not viol:
                try:
                    with instr.Installed(r['clock']):
                        snap = concdrv.api_snapshot(r['dir'], 'cache')
                except Exception as e:  # noqa
                    snap = None
                    viol.append(('unusable_after_kill', 'a fresh handle cannot open/read the directory: %r' % e))
            if not viol:
                acts = c05.actions_of_calls(r['calls'])
                done0 = len([x for x in r['calls'][0] if not x.get('pending')])
                init = c05.make_ref('cache', setup)
                fin = c05.final_matches('cache', snap)
                ok = c05.linearize(acts, init, fin) is not None
                if not ok and done0 < len(programs[0]):
                    call = programs[0][done0]
                    mine = [s for s, (cid, _, _) in enumerate(r['log']) if cid == 0]
                    first = mine[r['calls'][0][-1]['e1']] if r['calls'][0] and r['calls'][0][-1]['e1'] < len(mine) else (mine[0] if not r['calls'][0] and mine else len(r['log']))
                    pend = c05.Action('0.%d' % done0, 0, first, len(r['log']) + 1, [(call, ('ok', None))])
                    ok = c05.linearize(acts + [pend], init, fin, wild=lambda c: c is call) is not None
                if not ok:
                    viol.append(('contents_not_atomic', 'results %r and final contents %r are not explained with the interrupted call applied or not' % (
                        [[rec['op'], rec.get('result', rec.get('exc'))] for recs in r['calls'] for rec in recs], [[x[0], x[2]] for x in snap['items']])))
                for key, present, v, e_, t_, filed in snap['items']:
                    if present and v == MISS:
                        viol.append(('present_key_unreadable', 'key %r is reported present but reading it yields a miss' % key))
            for sig, desc in viol[:2]:
                res.violations.append(fw.Violation(sig, '%s [two processes, process 0 killed before its event %d]' % (desc, n), case))
                stats['by_sig'][sig] = stats['by_sig'].get(sig, 0) + 1
            shutil.rmtree(r['dir'], ignore_errors=True)
            if c05.enough(res, ID, EXPECTED_SIGS):
                return


def new_stats():
    return {'workloads': 0, 'kills': 0, 'kill_points': {}, 'kills_by_event': {}, 'kills_leaving_debris': 0, 'kills_inside_transaction': 0,
            'by_sig': {}, 'event_kinds': Counter()}


CRASH_TERMS = []        # (workload name, kill_n, term, info): see crash_term


def crash_term(wl, kn, k, d):
    """Crash correspondence (coq/model/ConcRun.v crash_check): the machine with the real transaction bodies follows the
    events the child executed, is crashed where the child was killed, and must then have the committed rows, counters
    and files (partial and unreferenced ones included) found in the directory, and the outcomes of the finished calls."""
    import schedcorr
    import seqdrv
    if any(c['op'] in concdrv.BLOCK_OPS or c['op'] in concdrv.ITER_OPS for c in wl['program']) or not schedcorr.supported([wl['program']], wl['setup']):
        return
    try:
        obs = seqdrv.observe(d)
    except Exception:  # noqa  (an unreadable database is reported by inspect)
        return
    term, info = schedcorr.build_crash(k, wl['program'], wl['setup'], wl['settings'], obs, now=c05.NOW, setup_now=SETUP_NOW)
    if term is not None:
        CRASH_TERMS.append((wl['name'], kn, term, info, {'check': 'kill', 'workload': wl, 'kill_n': kn}))


def crash_correspondence(ctx, res):
    import schedcorr
    if not CRASH_TERMS:
        return
    codes, errors = schedcorr.evaluate('c07cr', [t[2] for t in CRASH_TERMS])
    for e in errors[:2]:
        res.disagreements.append(fw.Violation('model-eval', 'crash correspondence could not be evaluated: ' + e[-300:], {}, 'correspondence'))
    bad = [i for i, c in enumerate(codes) if c != -1]
    res.traces_validated += len(CRASH_TERMS) - len(bad)
    res.extra['crash_correspondence'] = {'kill_points_compared_with_the_machine': len(CRASH_TERMS), 'agree': len(CRASH_TERMS) - len(bad),
                                         'workloads': sorted(set(t[0] for t in CRASH_TERMS))}
    for i in bad[:3]:
        name, kn, _, info, case = CRASH_TERMS[i]
        res.disagreements.append(fw.Violation('crash_correspondence', 'machine and implementation differ after a kill (workload %s, killed before event %d): %s'
                                              % (name, kn, schedcorr.explain(codes[i], info)), dict(case, code=codes[i], events=info['events']), 'correspondence'))


def correspondence(ctx, res, kill_records):
    """Trace correspondence for interrupted calls: the events the killed client executed since the start of the call
    (or of the open transaction block) it was in must be a PREFIX of a path of the stage automaton of
    coq/model/ConcTrace.v (`accepts_prefix`), i.e. the kill hit the client in a stage of the micro-step machine, which is
    where `crash` (model/Conc.v) applies and what the crash theorems quantify over.  Calls finished before the kill are
    complete paths (`accepts`)."""
    import tracecorr
    traces = []
    for ri, rec in enumerate(kill_records):
        if rec.get('kind') != 'cache' or rec.get('in_flight') is None:
            continue
        evs = rec['events']
        e0 = rec.get('started_e0')
        if e0 is None:
            continue
        prog = rec['program']
        j = rec['in_flight']
        op = prog[j]['op']
        if op in tracecorr.SKIP_OPS or op in concdrv.ITER_OPS:
            continue
        # the transaction still open at the kill (a block, if the call in flight is inside one)
        open_from = None
        for i, e in enumerate(evs):
            if e == 'sql:BEGIN' and open_from is None:
                open_from = i
            elif e in ('sql:COMMIT', 'sql:ROLLBACK'):
                open_from = None
        in_block = rec.get('started_depth', 0) > 0 or op in concdrv.BLOCK_OPS
        if in_block:
            if open_from is None:
                continue
            part, early = evs[open_from:], True
        else:
            part, early = evs[e0:], False
        tags = tracecorr.tags_from_shorts(part)
        traces.append(((ri, rec['workload'], rec['kill_n'], op, part), tags, early, True))
    bad, errors = tracecorr.check_traces('c07tr', traces)
    for e in errors:
        res.disagreements.append(fw.Violation('model-eval', 'stage automaton evaluation failed: ' + e[-300:], {}, 'correspondence'))
    res.traces_validated += len(traces) - len(bad)
    for t in bad[:3]:
        res.disagreements.append(fw.Violation('stage_order', 'the events of the interrupted %s (workload %s, kill %d) are not a prefix of a path of the stage '
                                              'machine: %s' % (t[0][3], t[0][1], t[0][2], t[0][4]), {'workload': t[0][1], 'kill_n': t[0][2], 'events': t[0][4], 'tags': t[1]},
                                              'correspondence'))


def run(ctx, big=False):
    res = fw.Result()
    del KILL_RECORDS[:]
    del CRASH_TERMS[:]
    res.rule = ('workloads = every mutating Cache method (set/setitem/add/incr/decr/touch/pop/delete/delitem/push/pull/peek/peekitem/clear/evict/'
                'expire/cull, lazy cull by a write) x {inline, file-backed, inline<->file} x {plain, inside a transact block}, bulk removals over '
                '3 pages, Deque and Index operations; each workload = [a finished call, the call under test, a later call]; the child is killed '
                '(os._exit) before its n-th traced event for EVERY n; the parent then reads the directory through a fresh handle.  '
                'After the repair (check(fix=True)) every file and directory below the cache directory is accounted for (database, value file of a row, non-empty directory).  '
                'Culling workloads: set / setitem / replacing set / add / push (both ends, prefix) / inserting incr, plain and inside a transact block, inline and file-backed '
                'new values, on a cache whose stores CULL file-backed items in the same transaction: expired rows, live rows evicted under size_limit=1 (the setup ran '
                'without limit and without culling), or both; cull_limit 1, 2, 10; every kill point; the permitted contents after a kill with i finished units are those '
                'the implementation leaves when run without a kill for i (or, with a unit in flight, i + 1) units on a copy of the same directory; the rest of the '
                'post-mortem is the same (a key reported present is readable, check(), a write, repair, debris).  '
                'Live iterators: an iterator of the container (iter / reversed / iterkeys of a Cache; iter / reversed of a Deque, an Index, a FanoutCache and of '
                'the Deque / Index a FanoutCache hands out; the keys() / values() / items() views of such an Index) takes its first item and is KEPT, then '
                'storing, replacing and removing calls (inline and file-backed values, a transact block) complete, then one more call, then the rest of the '
                'iteration; the process is killed before every event of all of it and the same post-mortem applies (every call that completed while the '
                'iterator was alive is fully present); while such an iterator is alive another connection must get the write lock of every database of '
                'the container at once (timeout 0), before and after a mutating call of the iterating client.  '
                'Streams (read=True, 1-3 chunks) given to set/add/push whose read() number j ends the process, every j.  '
                'Containers: the same enumeration and the same post-mortem for a process killed inside a FanoutCache (shards 1, 2, 3, 5), a DjangoCache '
                '(SHARDS 2, 3; OPTIONS) and a Deque / Index obtained from FanoutCache.deque / .index (file-backed values, every kill point of storing, '
                'replacing and removing calls and of a FanoutCache.transact block; streams given to FanoutCache / DjangoCache set and add): contents through '
                'a fresh handle, the CONTAINER\'s check() (FanoutCache.check over its shards, the FanoutCache behind the DjangoCache, the cache of the '
                'Deque / Index), a write through the container, the container\'s check(fix=True) followed by its check(), then every file and directory '
                'below the container\'s directory accounted for.  '
                'quick = a seeded sample of workloads x all kill points; thorough = all workloads.  non-trivial = every kill point (each is a '
                'distinct (workload, n)).')
    stats = new_stats()
    wls = workloads()
    thorough = (not ctx.quick) or big
    t0 = _time.time()
    deadline = t0 + (210 if ctx.quick and not big else (420 if ctx.quick else 1300))
    if not thorough:
        rng = random.Random(ctx.seed * 7919 + 7)
        must = [w for w in wls if w['name'] in ('cache:set-replace:file', 'cache:pop:file', 'cache:set-replace:file:block', 'index:popitem-first:file',
                                                'cache:delete:file', 'deque:popleft:file', 'cache:add-new:file',
                                                'cache:aborted-block-then-work:base', 'index:aborted-block-then-work:exc')]
        rest = [w for w in wls if w not in must and 'pages' not in w['name']]
        rng.shuffle(rest)
        sel = must + rest[:50]
        # always: removals of file-backed values INSIDE a block (pop; the pull behind Deque.popleft; Index del) -- the file must outlive a kill
        # that lands before the block's COMMIT.  Appended after the sample so that the sample itself is what it was.
        sel += [w for w in wls if w['name'] in ('cache:pop:file:block', 'deque:block:file', 'index:block:file', 'cache:pull:file:block') and w not in sel]
    else:
        sel = wls
    stats['workloads_available'] = len(wls)
    for wl in sel:
        points = None
        if 'pages' in wl['name'] and not (thorough and not ctx.quick):
            points = list(range(0, 400, 3))
        run_workload(ctx, res, stats, wl, points)
        if _time.time() > deadline or c05.enough(res, ID, EXPECTED_SIGS):
            stats['stopped_early'] = True
            break
    if not c05.enough(res, ID, EXPECTED_SIGS):
        cull_kills(ctx, res, stats, thorough and not big, _time.time() + (40 if not thorough else 600))
    if not c05.enough(res, ID, EXPECTED_SIGS):
        iterator_kills(ctx, res, stats, thorough and not big)
    if not c05.enough(res, ID, EXPECTED_SIGS):
        live_iterators(ctx, res, stats)
    if not c05.enough(res, ID, EXPECTED_SIGS):
        stream_kills(ctx, res, stats)
    if not c05.enough(res, ID, EXPECTED_SIGS):
        open_kills(ctx, res, stats, thorough)
    if not c05.enough(res, ID, EXPECTED_SIGS):
        concurrent_kills(ctx, res, stats, stride=3 if not thorough else 1)
    if not c05.enough(res, ID, EXPECTED_SIGS):
        fanout_block_witness(ctx, res, stats)
    if not c05.enough(res, ID, EXPECTED_SIGS):
        # the containers built on Cache (FanoutCache with several shard counts, DjangoCache, Deque / Index obtained from a FanoutCache)
        container_kills(ctx, res, stats, thorough and not big, deadline=t0 + (260 if ctx.quick and not big else (480 if ctx.quick else 1500)))
    if not c05.enough(res, ID, EXPECTED_SIGS):
        fan = [c for c in CONTAINERS if c['kind'] == 'fanout']
        dj = [c for c in CONTAINERS if c['kind'] == 'django']
        stream_kills(ctx, res, stats, conts=[c for c in CONTAINERS if c['kind'] in ('fanout', 'django')] if thorough and not big
                     else [fan[(ctx.seed + 1) % len(fan)], dj[(ctx.seed + 1) % len(dj)]])
    if not ctx.quick and not big and not c05.enough(res, ID, EXPECTED_SIGS):
        soak(ctx, res, stats)
    res.witnessed['block_crash_lost_file'] = stats['by_sig'].get('block_crash_lost_file', 0) > 0
    res.extra.update({
        'workloads_run': stats['workloads'], 'workloads_available': stats['workloads_available'], 'kill_points_total': stats['kills'],
        'kill_points_per_workload': stats['kill_points'], 'kills_by_event_kind': stats['kills_by_event'],
        'kills_inside_an_open_transaction': stats['kills_inside_transaction'], 'kills_leaving_unreferenced_files': stats['kills_leaving_debris'],
        'two_process_kill_runs': stats.get('concurrent_kills', 0), 'kills_beside_a_live_iterator': stats.get('iterator_kills', {}),
        'live_iterators_probed_for_the_write_lock': stats.get('live_iterators', 0), 'violations_by_sig': stats['by_sig'], 'exhaustive': bool(thorough and not stats.get('stopped_early')),
        'culling_kills': {k: v for k, v in stats.items() if k.startswith('cull_')},
        'soak': {k: v for k, v in stats.items() if k.startswith('soak_')}})
    res.extra_private = {'kill_records': KILL_RECORDS}
    if not ctx.search_mode:
        correspondence(ctx, res, KILL_RECORDS)
        crash_correspondence(ctx, res)
    return res


def search(ctx, broken):
    return run(ctx, big=True)


def replay(payload):
    case = payload.get('case', {})
    if case.get('check') == 'conc-kill':
        ctx = fw.Ctx('C07', 'quick', 1)
        try:
            r = concdrv.run_processes(ctx, case['programs'], case['schedule'], settings=SETTINGS, setup=case['setup'], kill_at={0: case['kill_at']}, max_steps=3000)
            print('log:', ' '.join('%d:%s' % (c, w) for c, w, _ in r['log']))
            print('results:', [[rec['client'], rec['op'], rec.get('result', rec.get('exc'))] for recs in r['calls'] for rec in recs], 'errors:', r['errors'], 'overflow:', r['overflow'])
            with instr.Installed(r['clock']):
                snap = concdrv.api_snapshot(r['dir'], 'cache', with_check=True)
            print('contents:', snap['items'], 'check():', snap['check'])
            ok = not r['overflow'] and r['errors'][1] is None and not any(x[1] and x[2] == MISS for x in snap['items'])
            return ok
        finally:
            ctx.cleanup()
    if case.get('check') == 'container_kill':
        ctx = fw.Ctx('C07', 'quick', 1)
        try:
            cont, wl = case['container'], case['workload']
            tmpl = container_template(ctx, cont, wl['setup'])
            viol, info, k, d = container_kill_case(ctx, cont, wl, tmpl, case['kill_n'])
            print('%s, workload %s: %s' % (cont_label(cont), wl['name'], wl['program']))
            print('killed before event %s (%s); events executed: %s' % (case['kill_n'], k.get('kill_event'), ' '.join(k['events'])))
            print('finished calls:', [(r['index'], r['op'], r.get('result', r.get('exc'))) for r in k['records']], 'in flight:', k['started'])
            if info and info.get('snap'):
                print('contents after the kill:', [[x[0], x[1], x[2]] for x in info['snap']['items']])
            print('left in the directory after the container\'s check(fix=True):', sorted(os.path.relpath(os.path.join(dp, f), d) for dp, _, fn in os.walk(d) for f in fn))
            print('monitor:', viol)
            return not viol
        finally:
            ctx.cleanup()
    if case.get('check') == 'live_iterator':
        import tempfile
        d = tempfile.mkdtemp(prefix='c07li-')
        try:
            viol = live_iterator_case(case, os.path.join(d, 'c'))
        finally:
            shutil.rmtree(d, ignore_errors=True)
        print('a %s iterated by %s (%d item(s) taken, iterator kept), then %s by the same client; another client takes the write lock with timeout 0 before and after'
              % (case['container']['kind'], case['how'], case.get('n', 1), case['calls']))
        print('monitor:', viol)
        return not viol
    if case.get('check') == 'stream_kill':
        ctx = fw.Ctx('C07', 'quick', 1)
        try:
            viol, d = stream_kill_case(ctx, case['op'], STREAM_CHUNKS[case['nchunks']], case['die_at'], case['replace'], case.get('container'))
            print('%s(read=True)%s of a stream with chunks of %s bytes, process killed inside read() number %d' % (
                case['op'], '' if not case.get('container') else ' through a ' + cont_label(case['container']), case['chunks'], case['die_at']))
            print('left in the directory after check(fix=True):', sorted(os.path.relpath(os.path.join(dp, f), d) for dp, _, fn in os.walk(d) for f in fn))
            print('monitor:', viol)
            return not viol
        finally:
            ctx.cleanup()
    if case.get('check') == 'open_kill':
        ctx = fw.Ctx('C07', 'quick', 1)
        try:
            setup = OPEN_SETUPS[case['label']]
            tmpl = open_kill_template(ctx, case['kind'], case.get('shards', 1), setup)
            problems, k = open_kill_case(ctx, case['kind'], case.get('shards', 1), setup, tmpl, case['kill_n'])
            print('opening a %s %s directory, killed before event %s (%s); events executed: %s' % (case['label'], case['kind'], case['kill_n'], k.get('kill_event'), ' '.join(k['events'])))
            print('monitor:', problems)
            return not problems
        finally:
            ctx.cleanup()
    if case.get('check') == 'cull-kill':
        ctx = fw.Ctx('C07', 'quick', 1)
        try:
            res, stats = fw.Result(), new_stats()
            wl = case['workload']
            print('workload %s (settings %s; setup %s): %s' % (wl['name'], wl['settings'], wl['setup'], wl['program']))
            run_cull_workload(ctx, res, stats, wl)
            for v in res.violations:
                print('monitor:', v.sig, v.desc)
            return not res.violations
        finally:
            ctx.cleanup()
    if case.get('check') != 'kill':
        print(payload)
        return True
    ctx = fw.Ctx('C07', 'quick', 1)
    try:
        wl = case['workload']
        tmpl = prepare_template(ctx, wl)
        k = concdrv.kill_child(tmpl, wl['program'], kill_n=case['kill_n'], kind=wl['kind'], settings=wl['settings'])
        print('workload %s: %s' % (wl['name'], wl['program']))
        print('killed before event %s (%s); events executed: %s' % (case['kill_n'], k.get('kill_event'), ' '.join(k['events'])))
        print('finished calls:', [(r['index'], r['op'], r.get('result', r.get('exc'))) for r in k['records']], 'in flight:', k['started'])
        viol, info = inspect(tmpl, wl['kind'], wl, k, instr.Clock(c05.NOW))
        viol = classify(viol, wl, k)
        if info:
            print('contents after the kill:', [[x[0], x[1], x[2]] for x in info['snap']['items']])
        print('monitor:', viol)
        return not viol
    finally:
        ctx.cleanup()
