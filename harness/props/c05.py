"""C05 -- every single operation is atomic under concurrent threads and processes.

Implementation side (this file):
  * programs of 2-4 clients x 1-3 calls over 2 keys, inline and file-backed values, run under the deterministic
    scheduler (concdrv.run_program: threads with their own Cache / one shared Cache; concdrv.run_processes: forked
    processes) along random and systematically enumerated schedules;
  * MONITOR (independent of the Coq model): Wing-Gong linearizability search of the per-call results against a
    plain-Python reference dictionary-with-expiry (RefCache below, written from the property text and Appendix B of
    DESIGN.md), respecting real-time precedence (A before B iff A's last event precedes B's first event) and ending
    in the observed final contents.  Nothing is tolerated: a lookup (get / in / []) that overlaps the replacement of
    the value by another client must return the old or the new value (a lookup that overlaps a removal of the key may
    of course miss: the key is absent afterwards, so that IS an order of the two calls);
  * direct monitors: one winner among concurrent add / pop / delete, no lost incr, every value a lookup returns is
    a value that was written for that key (no partial or mixed value);
  * thorough: free-running soak with real threads and processes (no scheduler, timeout 60): only outcomes that are
    impossible under every linearization are flagged.
  * trace_records: every call's event sequence, for the integrator's trace correspondence (TRACE_RECORDS /
    res.extra_private['trace_records']).

The reference models (RefCache, RefDeque, RefIndex) and `linearize` are reused by C06 and C07.
"""
import json
import os
import shutil
import signal
import sys
import tempfile
import threading
import time as _time

import concdrv
import fw
import instr
from concdrv import MISS
from instr import diskcache

ID = 'C05'
COQ_PROP = 'C05'
LEVEL = 'proof'
TRANSLATE = ['sql', 'disk', 'format', 'fanout', 'persistent']      # format: Cache.__init__ (a handle opened while others write)
TRUSTED = [
    'SQLite serialises BEGIN IMMEDIATE ... COMMIT, WAL readers see the last committed snapshot, CPython thread-local connections behave as '
    'separate connections, processes behave like threads with their own objects: exercised by the schedule driver of this check, not proved',
    'harness/sched.py + harness/concdrv.py: one traced event per granted step, the step granted before the event executes; events on a fresh '
    'private value file (create/write/close) are treated as commuting with other clients in the systematic enumeration',
    'the Python reference dictionary (harness/props/c05.py RefCache) as the reading of the property text',
    'overlaps inside the pickling of a key or of a VALUE (key_pickling_overlap, suspend=value) are produced with real threads gated by events in the pickling hook of a component of the key / value; they are '
    'decided by the monitor only (the machine of Conc.v starts a call at its first SQLite statement)',
]
ASSUMPTIONS = [
    'the clock is frozen during a run (no expiry instant passes inside a program); items are stored with ttl None, +100 s, 0 or -1 s',
    'size_limit is out of reach, so the only lazy removal is of expired items (cull_limit 10)',
    'iteration is a lock-free multi-statement read (MAX(rowid), then pages): it is checked like every other call; a torn iteration is '
    'reported with its own signature',
]

NOW = 1000.0
SETTINGS = {'disk_min_file_size': 8}
TRACE_RECORDS = []          # filled on every run: see trace_record()
WRITE_OPS = ('set', 'setitem', 'add', 'incr', 'decr', 'pop', 'delete', 'delitem', 'touch', 'clear', 'evict', 'expire', 'cull',
             'push', 'pull', 'peek', 'peekitem')
LOOKUPS = ('get', 'contains', 'getitem')


# ---------------------------------------------------------------------------
# reference models (plain Python, sequential)


class Raise(Exception):
    def __init__(self, name):
        Exception.__init__(self, name)
        self.name = name


class RefCache:
    """Ordered dictionary with expiry.  Items [key, value, expire_time, tag] in insertion order.  `now` is frozen.
    Lazy removal: a successful set/add and an inserting incr remove up to cull_limit items whose time has passed."""

    def __init__(self, items=None, now=NOW, cull_limit=10, unordered=False):
        self.items = [list(i) for i in (items or [])]
        self.now = now
        self.cull_limit = cull_limit
        self.unordered = unordered

    def copy(self):
        c = type(self)(self.items, self.now, self.cull_limit, self.unordered)
        return c

    def key(self):
        return tuple((repr(k), repr(v), e, repr(t)) for k, v, e, t in self.items)

    # -- helpers
    def _find(self, k):
        for i, it in enumerate(self.items):
            if it[0] == k and type(it[0]) is type(k):
                return i
        return None

    def _live(self, it):
        return it[2] is None or it[2] > self.now

    def _cull(self):
        if self.cull_limit == 0:
            return
        dead = sorted((it[2], i) for i, it in enumerate(self.items) if it[2] is not None and it[2] < self.now)
        gone = set(i for _, i in dead[:self.cull_limit])
        self.items = [it for i, it in enumerate(self.items) if i not in gone]

    def _exp(self, call):
        e = call.get('expire')
        return None if e is None else self.now + e

    def _store(self, k, v, e, t):
        i = self._find(k)
        if i is None:
            self.items.append([k, v, e, t])
        else:
            self.items[i] = [k, v, e, t]

    def _queue(self, prefix):
        if prefix is None:
            return [(it[0], i) for i, it in enumerate(self.items)
                    if type(it[0]) is int and 0 < it[0] < 999999999999999]
        lo, hi = prefix + '-000000000000000', prefix + '-999999999999999'
        return [(it[0], i) for i, it in enumerate(self.items) if type(it[0]) is str and lo < it[0] < hi]

    # -- the operations
    def apply(self, call):
        """Returns the JSON-able result; raises Raise(class name) for an exception."""
        op = call['op']
        g = call.get
        k = g('key')
        if op == 'reopen':
            return 'opened'
        if op in ('set', 'add') and isinstance(g('tag'), (list, dict)):
            raise Raise('ProgrammingError')         # a tag SQLite cannot bind: the call raises inside its transaction, nothing is stored
        if op in ('set', 'setitem'):
            self._store(k, call['value'], self._exp(call) if op == 'set' else None, g('tag') if op == 'set' else None)
            self._cull()
            return True if op == 'set' else None
        if op == 'add':
            i = self._find(k)
            if i is not None and self._live(self.items[i]):
                return False
            self._store(k, call['value'], self._exp(call), g('tag'))
            self._cull()
            return True
        if op == 'touch':
            i = self._find(k)
            if i is not None and self._live(self.items[i]):
                self.items[i][2] = self._exp(call)
                return True
            return False
        if op in ('incr', 'decr'):
            delta = g('delta', 1) * (1 if op == 'incr' else -1)
            default = g('default', 0)
            i = self._find(k)
            if i is None or not self._live(self.items[i]):
                if default is None:
                    raise Raise('KeyError')
                self._store(k, default + delta, None, None)
                self._cull()
                return default + delta
            v = self.items[i][1]
            if type(v) not in (int, float):
                raise Raise('TypeError')
            self.items[i][1] = v + delta
            return v + delta
        if op in ('get', 'getitem'):
            i = self._find(k)
            if i is None or not self._live(self.items[i]):
                if op == 'getitem':
                    raise Raise('KeyError')
                return MISS
            it = self.items[i]
            return [it[1], None if it[2] is None else 'E', it[3]] if g('meta') else it[1]
        if op == 'contains':
            i = self._find(k)
            return i is not None and self._live(self.items[i])
        if op == 'pop':
            i = self._find(k)
            if i is None or not self._live(self.items[i]):
                return MISS
            return self.items.pop(i)[1]
        if op in ('delete', 'delitem'):
            i = self._find(k)
            if i is None or not self._live(self.items[i]):
                if op == 'delitem':
                    raise Raise('KeyError')
                return False
            self.items.pop(i)
            return True if op == 'delete' else None
        if op == 'len':
            return len(self.items)
        if op == 'iter':
            return [it[0] for it in self.items]
        if op == 'reversed':
            return [it[0] for it in reversed(self.items)]
        if op == 'iterkeys':
            ks = sorted((it[0] for it in self.items), key=lambda x: (isinstance(x, str), x))
            return ks[::-1] if g('reverse') else ks
        if op == 'clear':
            n = len(self.items)
            self.items = []
            return n
        if op == 'evict':
            t = g('tag')
            n = len(self.items)
            self.items = [it for it in self.items if t is None or it[3] != t]
            return n - len(self.items)
        if op in ('expire', 'cull'):
            n = len(self.items)
            self.items = [it for it in self.items if not (it[2] is not None and 0 <= it[2] < self.now)]
            return n - len(self.items)
        if op == 'push':
            q = self._queue(g('prefix'))
            side = g('side', 'back')
            if q:
                ext = max(q)[0] if side == 'back' else min(q)[0]
                num = ext if g('prefix') is None else int(ext[ext.rfind('-') + 1:])
                num += 1 if side == 'back' else -1
            else:
                num = 500000000000000
            key = num if g('prefix') is None else '{0}-{1:015d}'.format(g('prefix'), num)
            self.items.append([key, call['value'], self._exp(call), g('tag')])
            self._cull()
            return key
        if op in ('pull', 'peek'):
            side = g('side', 'front')
            while True:
                q = self._queue(g('prefix'))
                if not q:
                    return MISS
                key, i = min(q) if side == 'front' else max(q)
                it = self.items[i]
                dead = not self._live(it)
                if op == 'pull' or dead:
                    self.items.pop(i)
                if dead:
                    continue
                return [key, it[1]]
        if op == 'peekitem':
            while True:
                if not self.items:
                    raise Raise('KeyError')
                i = len(self.items) - 1 if g('last', True) else 0
                it = self.items[i]
                if not self._live(it):
                    self.items.pop(i)
                    continue
                return [it[0], it[1]]
        raise ValueError('reference: unknown op %r' % op)

    def final_view(self):
        """[(key, visible, value or None, expire_time, tag)] in iteration order."""
        return [[it[0], self._live(it), it[1] if self._live(it) else None, it[2], it[3]] for it in self.items]


class RefDeque:
    """collections.deque semantics (maxlen: a full deque discards from the other end, atomically with the push)."""

    def __init__(self, items=None, maxlen=None):
        self.items = list(items or [])
        self.maxlen = maxlen

    def copy(self):
        return RefDeque(self.items, self.maxlen)

    def key(self):
        return tuple(repr(x) for x in self.items)

    def apply(self, call):
        op = call['op']
        d = self.items
        if op == 'append':
            d.append(call['value'])
            if self.maxlen is not None and len(d) > self.maxlen:
                d.pop(0)
            return None
        if op == 'appendleft':
            d.insert(0, call['value'])
            if self.maxlen is not None and len(d) > self.maxlen:
                d.pop()
            return None
        if op == 'extend':
            for v in call['values']:
                self.apply({'op': 'append', 'value': v})
            return None
        if op == 'extendleft':
            for v in call['values']:
                self.apply({'op': 'appendleft', 'value': v})
            return None
        if op in ('pop', 'popleft', 'peek', 'peekleft'):
            if not d:
                raise Raise('IndexError')
            i = -1 if op in ('pop', 'peek') else 0
            return d.pop(i) if op in ('pop', 'popleft') else d[i]
        if op == 'len':
            return len(d)
        if op == 'iter':
            return list(d)
        if op == 'reversed':
            return list(reversed(d))
        if op in ('getitem', 'setitem', 'delitem'):
            i = call['index']
            if not -len(d) <= i < len(d):
                raise Raise('IndexError')
            if op == 'getitem':
                return d[i]
            if op == 'setitem':
                d[i] = call['value']
            else:
                del d[i]
            return None
        if op == 'clear':
            del d[:]
            return None
        if op == 'rotate':
            if d:
                s = call.get('steps', 1) % len(d)
                self.items = d[-s:] + d[:-s] if s else d
            return None
        if op == 'reverse':
            d.reverse()
            return None
        if op == 'remove':
            if call['value'] not in d:
                raise Raise('ValueError')
            d.remove(call['value'])
            return None
        if op == 'count':
            return d.count(call['value'])
        raise ValueError('reference deque: unknown op %r' % op)

    def final_view(self):
        return list(self.items)


class RefIndex:
    """Insertion-ordered dictionary (collections.OrderedDict semantics; replacing a value keeps the position)."""

    def __init__(self, items=None):
        self.c = RefCache(items, cull_limit=0)

    def copy(self):
        r = RefIndex()
        r.c = self.c.copy()
        return r

    def key(self):
        return self.c.key()

    def apply(self, call):
        op = call['op']
        c = self.c
        if op in ('setitem', 'getitem', 'delitem', 'contains', 'len', 'iter', 'reversed', 'get', 'push', 'pull', 'peekitem'):
            r = c.apply(call)
            if op == 'clear':
                return None
            return r
        if op == 'clear':
            c.apply(call)
            return None
        if op == 'pop':
            r = c.apply({'op': 'pop', 'key': call['key']})
            if r == MISS:
                if 'default' in call:
                    return call['default']
                raise Raise('KeyError')
            return r
        if op == 'popitem':
            k, v = c.apply({'op': 'peekitem', 'last': call.get('last', True)})
            c.apply({'op': 'delitem', 'key': k})
            return [k, v]
        if op == 'setdefault':
            r = c.apply({'op': 'get', 'key': call['key']})
            if r != MISS:
                return r
            c.apply({'op': 'add', 'key': call['key'], 'value': call.get('default')})
            return call.get('default')
        if op == 'update':
            for k, v in call['items']:
                c.apply({'op': 'setitem', 'key': k, 'value': v})
            return None
        if op == 'items':
            return [[it[0], it[1]] for it in c.items]
        raise ValueError('reference index: unknown op %r' % op)

    def final_view(self):
        return [[it[0], it[1]] for it in self.c.items]


def make_ref(kind, setup=None):
    ref = {'cache': RefCache, 'fanout': lambda: RefCache(unordered=True), 'deque': RefDeque, 'index': RefIndex}[kind]()
    for call in setup or []:
        try:
            ref.apply(call)
        except Raise:
            pass
    return ref


def ref_result(ref, call):
    """('ok', result) or ('exc', class name)."""
    try:
        return ('ok', ref.apply(call))
    except Raise as e:
        return ('exc', e.name)


def observed_of(rec):
    if rec.get('exc'):
        return ('exc', 'ProgrammingError' if rec['exc'] in ('ProgrammingError', 'InterfaceError') else rec['exc'])
    r = rec.get('result')
    if rec.get('op') == 'get' and rec.get('call', {}).get('meta') and isinstance(r, list) and len(r) == 3:
        # get(expire_time=True, tag=True): value, whether it has an expiry (the instant depends on the clock reading of the set), tag
        r = [r[0], None if r[1] is None else 'E', r[2]]
    return ('ok', r)


# ---------------------------------------------------------------------------
# linearizability (Wing & Gong search with memoisation)


class Action:
    """One atomic unit to be linearized: a single call, or a whole transact block (steps = its inner calls).
    abort=True: the block's effects are discarded (but its inner results must be explained by the in-block state)."""

    def __init__(self, aid, client, first, last, steps, abort=False, label=None):
        self.aid, self.client, self.first, self.last = aid, client, first, last
        self.steps = steps              # [(call, observed)]
        self.abort = abort
        self.label = label or '+'.join(c['op'] for c, _ in steps)
        self.keys = set()
        self.writes = False
        for c, _ in steps:
            if c['op'] in WRITE_OPS:
                self.writes = True
                self.keys.add(repr(c.get('key')))
                if c['op'] in ('clear', 'evict', 'expire', 'cull', 'push', 'pull', 'peek', 'peekitem'):
                    self.keys.add('*')


def overlaps(a, b):
    return not (a.last < b.first or b.last < a.first)


def same(a, b, unordered=False):
    if unordered and isinstance(a, list) and isinstance(b, list):
        return sorted(map(repr, a)) == sorted(map(repr, b))
    return a == b and type(a) is type(b) or (a == b and isinstance(a, (int, float)) and isinstance(b, (int, float))
                                              and not isinstance(a, bool) and not isinstance(b, bool))


def linearize(actions, init, final_ok=None, wild=(), max_nodes=200000):
    """Search an order of `actions` that respects real-time precedence, explains every observed result by the
    reference `init` (a Ref* object) and ends in a state accepted by final_ok(state).
    wild: operation names (or a predicate on calls) whose results are not compared (used only to classify a failure).
    Returns the order (list of action ids) or None.  Every result must be explained exactly: there is no tolerated anomaly
    (until the repair recorded under C12 in known_findings.txt a lookup overlapping another client's write of the same key
    was allowed to miss)."""
    n = len(actions)
    idx = {a.aid: a for a in actions}
    preds = {a.aid: set(b.aid for b in actions if b is not a and b.last < a.first) for a in actions}
    unordered = getattr(init, 'unordered', False)
    is_wild = wild if callable(wild) else (lambda c: c['op'] in wild)
    memo = set()
    nodes = [0]

    def step(a, st):
        """Apply action a to a copy of st.  Returns the new state or None."""
        s2 = st.copy()
        for call, obs in a.steps:
            if obs == ('exc', 'Timeout'):
                continue            # no effect; contention is checked separately
            r = ref_result(s2, call)
            if is_wild(call):
                continue
            if r[0] == obs[0] and (same(r[1], obs[1], unordered) if r[0] == 'ok' else r[1] == obs[1]):
                continue
            return None
        return st if a.abort else s2

    def rec(done, st, order):
        nodes[0] += 1
        if nodes[0] > max_nodes:
            return None
        if len(done) == n:
            if final_ok is None or final_ok(st):
                return list(order)
            return None
        key = (frozenset(done), st.key())
        if key in memo:
            return None
        for a in actions:
            if a.aid in done or not preds[a.aid] <= done:
                continue
            s2 = step(a, st)
            if s2 is None:
                continue
            done.add(a.aid)
            order.append(a.aid)
            out = rec(done, s2, order)
            if out is not None:
                return out
            order.pop()
            done.discard(a.aid)
        memo.add(key)
        return None

    return rec(set(), init, [])


def actions_of_calls(calls):
    """One Action per completed top-level call of a run_program result (no blocks)."""
    acts = []
    for recs in calls:
        for r in recs:
            if r.get('skipped') or r.get('pending') or r['op'] in concdrv.BLOCK_OPS or r['op'] in concdrv.ITER_OPS:
                continue            # (a suspended iteration is not one atomic read: finding C05-F1; the calls made while it is suspended are checked)
            if r.get('first') is None:
                continue
            acts.append(Action('%d.%d' % (r['client'], r['index']), r['client'], r['first'], r['last'], [(r['call'], observed_of(r))]))
    return acts


def final_matches(kind, snap, ignore_values=()):
    """Predicate on the reference's final state: equals the observed final contents (api_snapshot).
    ignore_values: keys whose value / visibility is not compared (used only to classify a failure)."""
    obs = snap['items']
    if kind == 'deque':
        obs = sorted(obs, key=lambda x: x[0])

    def ok(st):
        if kind in ('cache', 'fanout'):
            view = st.final_view()
            if len(view) != len(obs):
                return False
            pairs = zip(view, obs) if kind == 'cache' else zip(sorted(view, key=repr), sorted(obs, key=repr))
            for (k, vis, v, e, t), (ok_, present, ov, oe, ot, _filed) in pairs:
                if k != ok_ or e != oe or t != ot:
                    return False
                if k in ignore_values:
                    continue
                if vis != present or (vis and not same(v, ov)):
                    return False
            return True
        if kind == 'deque':
            view = st.final_view()
            return len(view) == len(obs) and all(x[0] in ignore_values or v == x[2] for v, x in zip(view, obs))
        if kind == 'index':
            view = st.final_view()
            return len(view) == len(obs) and all(k == x[0] and (k in ignore_values or v == x[2]) for (k, v), x in zip(view, obs))
        return False
    return ok


# ---------------------------------------------------------------------------
# the monitor for one run


def written_values(programs, setup):
    """key -> set of reprs of values ever written for it; keys that receive incr/decr."""
    vals, counters = {}, set()
    for call in list(setup or []) + [c for p in programs for c in p]:
        if call['op'] in ('set', 'add', 'setitem'):
            vals.setdefault(repr(call['key']), set()).add(repr(call['value']))
        if call['op'] in ('incr', 'decr'):
            counters.add(repr(call['key']))
    return vals, counters


def check_run(r, programs, setup, kind='cache', stats=None, init=None):
    """Returns a list of (sig, description).  r = result of run_program / run_processes."""
    out = []
    if r['overflow']:
        return [('step_budget_overflow', 'the schedule did not terminate within the step budget (a client never got the lock?)')]
    for i, e in enumerate(r['errors']):
        if e is not None:
            out.append(('client_error', 'client %d died with %s' % (i, e)))
    for recs in r['calls']:
        for rec in recs:
            if rec.get('exc') and rec['exc'] not in ('Timeout', 'KeyError', 'TypeError', 'IndexError', 'ValueError'):
                out.append(('unexpected_exception:%s' % rec['exc'], 'client %d call %d (%s) raised %s' % (rec['client'], rec['index'], rec['op'], rec['exc'])))
    if out:
        return out
    # a Timeout needs contention: somebody else held the write lock at one of the call's BEGIN attempts
    locks = concdrv.lock_intervals(r['log'])
    for recs in r['calls']:
        for rec in recs:
            if rec.get('exc') == 'Timeout':
                held = any(c != rec['client'] and b < rec['last'] and rec['first'] < e + 1 for c, b, e, _ in locks)
                if not held:
                    out.append(('spurious_timeout', 'client %d call %d (%s) timed out while nobody held the write lock' % (rec['client'], rec['index'], rec['op'])))
    # no partial / mixed value
    vals, counters = written_values(programs, setup)
    for recs in r['calls']:
        for rec in recs:
            if kind in ('cache', 'fanout') and rec['op'] in ('get', 'getitem', 'pop') and 'result' in rec and rec['result'] != MISS:
                k = repr(rec['call'].get('key'))
                v = rec['result']
                if rec['op'] == 'get' and rec['call'].get('meta') and isinstance(v, list) and len(v) == 3:
                    v = v[0]
                if repr(v) in vals.get(k, ()):
                    continue
                if k in counters and type(v) is int:
                    continue
                out.append(('value_never_written', 'client %d %s(%s) returned %r, which nobody wrote for that key' % (rec['client'], rec['op'], k, v)))
    snap = r.get('snapshot')
    if snap is None:
        try:
            with instr.Installed(r['clock']):
                snap = r['snapshot'] = concdrv.api_snapshot(r['dir'], kind)
        except Exception as e:  # noqa
            return out + [('unusable_after_run', 'the directory cannot be opened/read after all clients finished: %r' % e)]
    acts = actions_of_calls(r['calls'])
    init = init if init is not None else make_ref(kind, setup)
    fin = final_matches(kind, snap)
    res = linearize(acts, init, fin)
    if stats is not None:
        # lookups that found their value file gone and looked the row up again (SELECT, failed open, SELECT, ...)
        for recs in r['calls']:
            for rec in recs:
                if rec.get('op') in ('get', 'getitem') and not rec.get('depth') and lookup_selects(rec.get('events', [])) > 1:
                    stats['lookups_that_looked_again'] += 1
    if res is None:
        # name the operation whose results cannot be explained (a description of the failure, not an excuse for it)
        sig = 'not_linearizable'
        if linearize(acts, init, None) is not None:
            sig = 'final_contents_unexplained'
        else:
            for opn in ('iter', 'len', 'get', 'contains', 'incr', 'add', 'pop', 'delete', 'touch', 'set'):
                if any(c['op'] == opn for a in acts for c, _ in a.steps) and linearize(acts, init, fin, wild=(opn,)) is not None:
                    sig = {'iter': 'iter_not_atomic'}.get(opn, 'not_linearizable:%s' % opn)
                    break
        desc = 'no order of the %d completed calls explains their results (%s) and the final contents %s' % (
            len(acts), '; '.join('c%s %s%s -> %s' % (a.aid, a.label, [a.steps[0][0].get('key'), a.steps[0][0].get('value')], a.steps[0][1][1]) for a in acts),
            [[x[0], x[2]] for x in snap['items']])
        out.append((sig, desc))
    return out


def lookup_selects(events):
    """number of SELECT statements a lock-free lookup executed (events: ['sql:SELECT', 'file:open-read', ...] of one call)"""
    if any(e in ('sql:BEGIN', 'sql:COMMIT', 'sql:ROLLBACK') for e in events):
        return 0
    return sum(1 for e in events if e == 'sql:SELECT')


def trace_record(r, programs, schedule, setup, mode, settings, kind='cache'):
    return {'programs': programs, 'schedule': list(schedule), 'schedule_used': r['schedule_used'], 'setup': setup, 'mode': mode,
            'settings': settings, 'kind': kind,
            'calls': [[{k: v for k, v in rec.items() if k in ('client', 'index', 'op', 'call', 'result', 'exc', 'first', 'last', 'events', 'depth', 'skipped')}
                       for rec in recs] for recs in r['calls']],
            'log': r['log']}


# ---------------------------------------------------------------------------
# generators


def gen_value(rng, tag):
    c = rng.random()
    if c < 0.35:
        return rng.randrange(1, 6)
    if c < 0.55:
        return 'v' + tag                            # inline text (< 8 characters)
    if c < 0.9:
        return 'F' + tag + '-' * 10                 # file-backed text, one chunk
    return 'G' + tag + '=' * 8 + '\n' + '+' * 6     # file-backed text written in two chunks


def gen_call(rng, tag, keys=('a', 'b')):
    op = rng.choices(['set', 'add', 'incr', 'get', 'pop', 'delete', 'touch', 'contains', 'len', 'iter', 'decr'],
                     [24, 12, 14, 18, 8, 8, 5, 5, 2, 3, 1])[0]
    call = {'op': op}
    if op not in ('len', 'iter'):
        call['key'] = rng.choice(keys)
    if op in ('set', 'add'):
        call['value'] = gen_value(rng, tag)
    if op in ('set', 'add', 'touch'):
        call['expire'] = rng.choices([None, 100, -1, 0], [70, 18, 8, 4])[0]
    if op in ('set', 'add') and rng.random() < 0.3:
        call['tag'] = 'tag' + tag
    if op == 'get' and rng.random() < 0.35:
        call['meta'] = True         # value, expiry and tag must come from ONE item
    if op in ('incr', 'decr'):
        call['delta'] = rng.choice([1, 1, 2, 5])
        call['default'] = rng.choice([0, 0, 10, None])
    if op in ('set', 'add', 'incr', 'decr', 'pop', 'delete', 'touch'):
        call['retry'] = rng.random() < 0.75
    return call


def gen_program(rng, nclients=None):
    n = nclients or rng.choices([2, 3, 4], [55, 30, 15])[0]
    progs = [[gen_call(rng, '%d%d' % (i, j)) for j in range(rng.choices([1, 2, 3], [30, 40, 30])[0])] for i in range(n)]
    for i in range(n):
        if rng.random() < 0.08:
            progs[i].insert(rng.randrange(len(progs[i]) + 1), {'op': 'reopen'})
        if rng.random() < 0.12:
            # the client's calls are made from inside the body of `for key in cache:` (the iterator stays suspended meanwhile)
            progs[i] = [{'op': 'iter_open', 'n': 1, 'how': rng.choice(['iter', 'iter', 'reversed', 'iterkeys'])}] + progs[i] + [{'op': 'iter_rest'}]
    setup = []
    for k in ('a', 'b'):
        c = rng.random()
        if c < 0.25:
            setup.append({'op': 'set', 'key': k, 'value': rng.randrange(1, 4)})
        elif c < 0.55:
            setup.append({'op': 'set', 'key': k, 'value': 'S' + k + '#' * 12})
        elif c < 0.65:
            setup.append({'op': 'set', 'key': k, 'value': 's' + k})
    return progs, setup


def gen_schedule(rng, programs):
    total = [14 * len(p) + 4 for p in programs]
    if rng.random() < 0.5:
        return concdrv.random_schedule(rng, total, slack=0)
    # coarser: runs of 1..6 steps
    out = []
    left = list(total)
    while any(left):
        c = rng.choice([i for i, k in enumerate(left) if k])
        k = min(left[c], rng.randrange(1, 7))
        out += [c] * k
        left[c] -= k
    return out


BIG1 = 'OLD' + 'o' * 20
BIG2 = 'NEW' + 'n' * 20


def corpus():
    """Hand-picked programs: (name, programs, setup, direct expectation)."""
    t = True
    return [
        ('add_race3', [[{'op': 'add', 'key': 'a', 'value': 'v%d' % i, 'retry': t}] for i in range(3)], [], 'one_add'),
        ('add_race_file', [[{'op': 'add', 'key': 'a', 'value': 'F%d' % i + '-' * 12, 'retry': t}] for i in range(2)], [], 'one_add'),
        ('incr_race3', [[{'op': 'incr', 'key': 'a', 'retry': t}] for _ in range(3)], [], 'sum_incr'),
        ('incr_decr', [[{'op': 'incr', 'key': 'a', 'delta': 5, 'retry': t}, {'op': 'incr', 'key': 'a', 'retry': t}],
                       [{'op': 'decr', 'key': 'a', 'delta': 2, 'retry': t}]], [{'op': 'set', 'key': 'a', 'value': 10}], 'sum_incr'),
        ('pop_race', [[{'op': 'pop', 'key': 'a', 'retry': t}], [{'op': 'pop', 'key': 'a', 'retry': t}]],
         [{'op': 'set', 'key': 'a', 'value': BIG1}], 'one_removal'),
        ('pop_delete_race', [[{'op': 'pop', 'key': 'a', 'retry': t}], [{'op': 'delete', 'key': 'a', 'retry': t}], [{'op': 'delete', 'key': 'a', 'retry': t}]],
         [{'op': 'set', 'key': 'a', 'value': 7}], 'one_removal'),
        ('reader_vs_replace_file', [[{'op': 'get', 'key': 'a'}], [{'op': 'set', 'key': 'a', 'value': BIG2, 'retry': t}]],
         [{'op': 'set', 'key': 'a', 'value': BIG1}], 'reader'),
        ('reader_vs_delete_file', [[{'op': 'get', 'key': 'a'}, {'op': 'contains', 'key': 'a'}], [{'op': 'delete', 'key': 'a', 'retry': t}]],
         [{'op': 'set', 'key': 'a', 'value': BIG1}], 'reader'),
        ('set_set_file', [[{'op': 'set', 'key': 'a', 'value': BIG1, 'retry': t}], [{'op': 'set', 'key': 'a', 'value': BIG2, 'retry': t}], [{'op': 'get', 'key': 'a'}]], [], None),
        # value, expiry and tag returned by one lookup must belong to ONE item (the old one or the new one)
        ('meta_reader_vs_set_inline', [[{'op': 'get', 'key': 'a', 'meta': True}, {'op': 'get', 'key': 'a', 'meta': True}],
                                       [{'op': 'set', 'key': 'a', 'value': 'new', 'tag': 'tnew', 'expire': 100, 'retry': t}]],
         [{'op': 'set', 'key': 'a', 'value': 'old'}], None),
        ('meta_reader_vs_set_file', [[{'op': 'get', 'key': 'a', 'meta': True}, {'op': 'get', 'key': 'a', 'meta': True}],
                                     [{'op': 'set', 'key': 'a', 'value': BIG2, 'tag': 'tnew', 'retry': t}]],
         [{'op': 'set', 'key': 'a', 'value': BIG1, 'tag': 'told', 'expire': 100}], None),
        # a client opens a fresh handle (Cache.__init__ re-applies the stored settings) while others insert and remove items:
        # the counters behind len() must still agree with the keys
        ('open_while_writing', [[{'op': 'reopen'}, {'op': 'len'}, {'op': 'get', 'key': 'a'}],
                                [{'op': 'set', 'key': 'c', 'value': 1, 'retry': t}, {'op': 'delete', 'key': 'a', 'retry': t},
                                 {'op': 'set', 'key': 'd', 'value': BIG1, 'retry': t}, {'op': 'len'}]],
         [{'op': 'set', 'key': 'a', 'value': 1}, {'op': 'set', 'key': 'b', 'value': BIG2}], None),
        ('timeout_noeffect', [[{'op': 'set', 'key': 'a', 'value': BIG1, 'retry': False}], [{'op': 'set', 'key': 'a', 'value': BIG2, 'retry': False}]], [], None),
    ]


# the schedule of the former finding D12 / C12-F1 (known_findings.txt, fixed: property=C12): reader SELECT; writer store + BEGIN +
# UPDATE + COMMIT + remove; reader open.  The open fails; the lookup must look the row up again and return the NEW value.
D12_SCHEDULE = [0] + [1] * 40 + [0] * 10


ITER_WITNESS = ([[{'op': 'set', 'key': 'b', 'value': 2, 'retry': True}, {'op': 'delete', 'key': 'a', 'retry': True}], [{'op': 'iter'}]],
                [{'op': 'set', 'key': 'a', 'value': 1}], [1] + [0] * 40 + [1] * 5)


def direct_check(kind_, r, programs, setup):
    """The property's named corollaries, decided directly from the results."""
    flat = [rec for recs in r['calls'] for rec in recs]
    out = []
    if kind_ == 'one_add':
        wins = [rec for rec in flat if rec['op'] == 'add' and rec.get('result') is True]
        if len(wins) != 1:
            out.append(('add_winners', '%d concurrent add calls of one absent key returned True' % len(wins)))
    elif kind_ == 'sum_incr':
        base = setup[0]['value'] if setup else 0
        total = base + sum((c.get('delta', 1) * (1 if c['op'] == 'incr' else -1)) for p in programs for c in p)
        with instr.Installed(r['clock']):
            snap = r.setdefault('snapshot', concdrv.api_snapshot(r['dir']))
        got = [x[2] for x in snap['items'] if x[0] == 'a']
        if got != [total]:
            out.append(('lost_update', 'increments sum to %r but the counter holds %r' % (total, got)))
        seen = sorted(rec['result'] for rec in flat if 'result' in rec)
        if len(set(seen)) != len(seen):
            out.append(('lost_update', 'two incr/decr calls returned the same value: %r' % seen))
    elif kind_ == 'one_removal':
        wins = [rec for rec in flat if (rec['op'] == 'pop' and rec.get('result') != MISS) or (rec['op'] == 'delete' and rec.get('result') is True)]
        if len(wins) != 1:
            out.append(('removal_winners', '%d concurrent pop/delete calls of one item succeeded' % len(wins)))
    elif kind_ == 'reader':
        for rec in flat:
            if rec['op'] == 'get' and rec.get('result') not in (MISS, BIG1, BIG2):
                out.append(('value_never_written', 'reader saw %r' % (rec.get('result'),)))
    elif kind_ == 'reader_present':
        # the key is present in every committed state (its value is only ever replaced): the lookup must find the old or the new value
        for rec in flat:
            if rec['op'] == 'get' and rec.get('result') not in (BIG1, BIG2):
                out.append(('present_key_not_found', 'the key is present throughout (its value is replaced, never removed) but the lookup of client %d '
                            'returned %r; its events: %s' % (rec['client'], rec.get('result', rec.get('exc')), rec.get('events'))))
    return out


# ---------------------------------------------------------------------------
# running


def new_stats():
    return {'runs': 0, 'contended': 0, 'lookups_that_looked_again': 0, 'timeouts': 0, 'overflow': 0, 'by_clients': {}, 'by_calls': {},
            'by_mode': {}, 'ops': {}, 'file_backed_runs': 0, 'schedules_enumerated': 0, 'programs_enumerated': 0, 'exhaustive_programs': 0,
            'max_steps_seen': 0}


def is_filed(v):
    return isinstance(v, str) and len(v) >= SETTINGS['disk_min_file_size']


class SharedDirDisk(diskcache.Disk):
    """A Disk with its own file layout (the documented way to customise it): every value file lives in ONE sub-directory, so the
    creation of a file by one client and the pruning of the momentarily empty directory by another client's removal can meet."""

    def filename(self, key=diskcache.UNKNOWN, value=diskcache.UNKNOWN):
        name = os.path.join('shared', os.urandom(8).hex() + '.val')
        return name, os.path.join(self._directory, name)


def one_case(ctx, res, stats, programs, setup, schedule, mode, label, driver='thread', expect=None, record=True, settings=None):
    settings = settings or SETTINGS
    if driver == 'process':
        r = concdrv.run_processes(ctx, programs, schedule, settings=settings, setup=setup, max_steps=6000, sleep_advances=False)
    else:
        # (the clock is frozen: a handle opened while another client holds the lock retries its settings statements with sleeps)
        r = concdrv.run_program(ctx, programs, schedule, mode=mode, settings=settings, setup=setup, max_steps=6000, sleep_advances=False)
    case = {'check': 'schedule', 'label': label, 'programs': programs, 'setup': setup, 'schedule': r['schedule_used'], 'mode': mode,
            'driver': driver, 'settings': {k: (v if not isinstance(v, type) else v.__name__) for k, v in settings.items()}, 'expect': expect}
    stats['runs'] += 1
    stats['by_mode'][driver + ':' + mode] = stats['by_mode'].get(driver + ':' + mode, 0) + 1
    stats['by_clients'][str(len(programs))] = stats['by_clients'].get(str(len(programs)), 0) + 1
    ncalls = sum(len(p) for p in programs)
    stats['by_calls'][str(ncalls)] = stats['by_calls'].get(str(ncalls), 0) + 1
    stats['max_steps_seen'] = max(stats['max_steps_seen'], r['steps'])
    for p in programs:
        for c in p:
            stats['ops'][c['op']] = stats['ops'].get(c['op'], 0) + 1
    contended = r['begin_failures'] > 0
    stats['contended'] += int(contended)
    stats['timeouts'] += sum(1 for recs in r['calls'] for rec in recs if rec.get('exc') == 'Timeout')
    filed = any(is_filed(c.get('value')) for c in list(setup) + [c for p in programs for c in p])
    stats['file_backed_runs'] += int(filed)
    if r['overflow']:
        stats['overflow'] += 1
    viol = check_run(r, programs, setup, 'cache', stats)
    if expect and (not viol or expect == 'reader_present'):
        viol += direct_check(expect, r, programs, setup)
    # non-trivial = at least two clients' calls overlap in time
    acts = actions_of_calls(r['calls'])
    overlap = any(overlaps(a, b) for a in acts for b in acts if a.client < b.client)
    res.count([programs, setup, r['schedule_used'], mode, driver], nontrivial=overlap)
    if record:
        TRACE_RECORDS.append(trace_record(r, programs, schedule, setup, mode, SETTINGS))
    for sig, desc in viol[:3]:
        res.violations.append(fw.Violation(sig, '%s [%s, %s/%s, %d steps]' % (desc, label, driver, mode, r['steps']), case))
    if len(res.samples) < 3 and overlap and contended:
        res.sample({'programs': programs, 'setup': setup, 'mode': mode, 'schedule_used': r['schedule_used'][:60],
                    'results': [[[rec['op'], rec.get('result', rec.get('exc')), rec['first'], rec['last']] for rec in recs] for recs in r['calls']],
                    'final': [[x[0], x[2]] for x in r['snapshot']['items']] if r.get('snapshot') else None})
    shutil.rmtree(r['dir'], ignore_errors=True)
    return viol


EXPECTED_SIGS = ('iter_not_atomic',)


def enough(res, prop=None, expected=EXPECTED_SIGS):
    """A failing input has been found: stop exploring (keeps a broken tree from costing the whole budget).
    Signatures of recorded findings (known_findings.txt) and of the findings this module classifies do not count."""
    known = fw.load_known(prop or ID)[0]
    return len([v for v in res.violations if v.sig not in known and v.sig not in expected]) >= 4


def run_corpus(ctx, res, stats, per_program, exhaustive_limit):
    # regression input (former finding D12 / C12-F1), first: under the D12 schedule the reader's open falls after the writer's removal of
    # the old file; the lookup must look the row up again and return the new value.  Reported under the raw signatures of the monitors.
    d12_regression(ctx, res, stats)
    for name, programs, setup, expect in corpus():
        seqs = concdrv.solo_events(ctx, programs, settings=SETTINGS, setup=setup)
        units = [concdrv.units_of(s) for s in seqs]
        scheds, exh, total = concdrv.enumerate_schedules([len(s) for s in seqs], exhaustive_limit if exhaustive_limit else per_program,
                                                         rng=ctx.rng, units=units)
        if not exh:
            scheds = scheds[:per_program]
        stats['programs_enumerated'] += 1
        stats['exhaustive_programs'] += int(exh)
        for k, sc in enumerate(scheds):
            mode = 'own' if k % 3 else 'shared'
            stats['schedules_enumerated'] += 1
            one_case(ctx, res, stats, programs, setup, sc, mode, 'corpus:' + name, expect=expect, record=k < 5)
            if enough(res):
                return
            if ctx.deadline and _time.time() > ctx.deadline - 120:
                break           # slow file system: keep time for the other phases
    # a value file is created in a sub-directory that another client's removal prunes at that very moment (all files of this Disk share
    # one sub-directory): the store must still succeed (Disk._write creates the directory again and retries)
    settings = dict(SETTINGS, disk=SharedDirDisk)
    for wr in ('set', 'add'):
        programs = [[{'op': wr, 'key': 'a', 'value': BIG1, 'retry': True}, {'op': 'get', 'key': 'a'}],
                    [{'op': 'delete', 'key': 'b', 'retry': True}, {'op': 'get', 'key': 'a'}]]
        setup = [{'op': 'set', 'key': 'b', 'value': BIG2}]
        seqs = concdrv.solo_events(ctx, programs, settings=settings, setup=setup)
        for i in range(0, len(seqs[0]) + 1):
            one_case(ctx, res, stats, programs, setup, [0] * i + [1] * 200 + [0] * 200, 'own', 'corpus:dir-race:%s:%d' % (wr, i), record=False, settings=settings)
            if enough(res):
                return
    # lookups and writes made from inside the body of `for key in cache:` while another client completes writes in between
    for how in ('iter', 'reversed', 'iterkeys'):
        programs = [[{'op': 'iter_open', 'n': 1, 'how': how}, {'op': 'get', 'key': 'x'}, {'op': 'get', 'key': 'big'}, {'op': 'contains', 'key': 'c'},
                     {'op': 'get', 'key': 'c'}, {'op': 'incr', 'key': 'n', 'retry': False}, {'op': 'iter_rest'}],
                    [{'op': 'set', 'key': 'x', 'value': 'new', 'retry': True}, {'op': 'set', 'key': 'big', 'value': BIG2, 'retry': True},
                     {'op': 'incr', 'key': 'c', 'retry': True}]]
        setup = [{'op': 'set', 'key': 'p', 'value': 0}, {'op': 'set', 'key': 'q', 'value': 0}, {'op': 'set', 'key': 'x', 'value': 'old'},
                 {'op': 'set', 'key': 'big', 'value': BIG1}]
        for k in (1, 2, 3, 4, 6):
            for mode in ('own', 'shared'):
                one_case(ctx, res, stats, programs, setup, [0] * k + [1] * 200 + [0] * 200, mode, 'corpus:inside-loop:%s:%d' % (how, k), record=False)
                if enough(res):
                    return
    # witness of the torn iteration (finding iter_not_atomic): MAX(rowid) read, then b inserted and a deleted, then the page read
    programs, setup, schedule = ITER_WITNESS
    v = one_case(ctx, res, stats, programs, setup, schedule, 'own', 'corpus:iter-witness')
    res.witnessed['iter_not_atomic'] = any(sig == 'iter_not_atomic' for sig, _ in v)
    try:
        rec = [r_ for r_ in TRACE_RECORDS[-1]['calls'][1] if r_['op'] == 'iter'][0]
        stats['iter_witness'] = {'result': rec.get('result'), 'events': [e for e in TRACE_RECORDS[-1].get('events', []) if e[0] == 1][:6]}
    except Exception:  # noqa
        stats['iter_witness'] = None


def d12_regression(ctx, res, stats):
    name, programs, setup, _ = [c for c in corpus() if c[0] == 'reader_vs_replace_file'][0]
    info = {}
    for mode in ('own', 'shared'):
        before = len(TRACE_RECORDS)
        one_case(ctx, res, stats, programs, setup, D12_SCHEDULE, mode, 'corpus:D12-schedule', expect='reader_present')
        t = TRACE_RECORDS[before] if len(TRACE_RECORDS) > before else None
        rec = t['calls'][0][0] if t and t['calls'][0] else {}
        evs = [e for e in rec.get('events', []) if e.split(':')[0] in ('sql', 'file')]
        # did the schedule put the writer's removal between the reader's SELECT and its open?  (first open not followed by a read)
        failed_open = any(e == 'file:open-read' and (i + 1 == len(evs) or evs[i + 1] != 'file:read') for i, e in enumerate(evs))
        info[mode] = {'reader_events': evs, 'reader_result': 'new value' if rec.get('result') == BIG2 else ('old value' if rec.get('result') == BIG1 else repr(rec.get('result', rec.get('exc')))),
                      'first_open_failed': failed_open, 'selects': lookup_selects(evs)}
    stats['d12_regression'] = info


def run_random(ctx, res, stats, npairs, modes, drivers=('thread',)):
    for k in range(npairs):
        programs, setup = gen_program(ctx.rng)
        schedule = gen_schedule(ctx.rng, programs)
        driver = drivers[k % len(drivers)]
        mode = modes[k % len(modes)] if driver == 'thread' else 'own'
        one_case(ctx, res, stats, programs, setup, schedule, mode, 'random:%d' % k, driver=driver)
        if (ctx.deadline and _time.time() > ctx.deadline) or enough(res):
            break


def run_enumerated(ctx, res, stats, nprograms, limit):
    """all schedules (up to the reduction of concdrv.units_of) of small two-client programs"""
    done = 0
    tries = 0
    while done < nprograms and tries < nprograms * 20:
        tries += 1
        programs, setup = gen_program(ctx.rng, nclients=2)
        programs = [p[:2] for p in programs]
        if sum(len(p) for p in programs) > 3:
            programs[1] = programs[1][:1]
        if not any(c['op'] in WRITE_OPS for p in programs for c in p):
            continue
        for p in programs:
            for c in p:
                if 'retry' in c:
                    c['retry'] = True
        seqs = concdrv.solo_events(ctx, programs, settings=SETTINGS, setup=setup)
        units = [concdrv.units_of(s) for s in seqs]
        scheds, exh, total = concdrv.enumerate_schedules([len(s) for s in seqs], limit, rng=ctx.rng, units=units)
        done += 1
        stats['programs_enumerated'] += 1
        stats['exhaustive_programs'] += int(exh)
        for k, sc in enumerate(scheds):
            stats['schedules_enumerated'] += 1
            one_case(ctx, res, stats, programs, setup, sc, 'own' if k % 2 else 'shared', 'enum:%d' % done, record=k < 3)
            if enough(res):
                return
            if ctx.deadline and _time.time() > ctx.deadline - 60:
                break
        if ctx.deadline and _time.time() > ctx.deadline - 60:
            break


# ---------------------------------------------------------------------------
# free-running soak (thorough): real threads and processes, no scheduler, real clock, timeout 60


SOAK_BIG = ['A' * 3000 + '\n' + 'a' * 3000, 'B' * 5000 + '\n' + 'b' * 100, 'C' * 1200]


def soak_worker(directory, wid, nrounds, npop, out_path):
    """Runs in a thread or in a forked process.  Writes its ledger as JSON to out_path."""
    import json
    c = diskcache.Cache(directory, timeout=60)
    led = {'wid': wid, 'incr_ok': 0, 'add_wins': [], 'pops': [], 'reads': [], 'errors': []}
    try:
        for rnd in range(nrounds):
            try:
                c.incr('ctr')
                led['incr_ok'] += 1
            except Exception as e:  # noqa
                led['errors'].append('incr:' + type(e).__name__)
            try:
                if c.add('add-%d' % rnd, 'w%d' % wid + '.' * (20 if rnd % 2 else 0)):
                    led['add_wins'].append(rnd)
            except Exception as e:  # noqa
                led['errors'].append('add:' + type(e).__name__)
            k = (rnd * 7 + wid) % npop
            try:
                v = c.pop('pop-%d' % k, default=None)
                if v is not None:
                    led['pops'].append([k, v])
            except Exception as e:  # noqa
                led['errors'].append('pop:' + type(e).__name__)
            try:
                if wid % 2 == 0:
                    c.set('big', SOAK_BIG[(rnd + wid) % len(SOAK_BIG)])
                v = c.get('big')
                if v is not None and v not in SOAK_BIG:
                    led['reads'].append([len(v), v[:20]])
            except Exception as e:  # noqa
                led['errors'].append('big:' + type(e).__name__)
    finally:
        c.close()
        with open(out_path, 'w') as f:
            json.dump(led, f)


def soak(ctx, res, stats, nproc=3, nthreads=3, nrounds=150, npop=60):
    import json
    d = concdrv.scratch(ctx, 'soak')
    c = diskcache.Cache(d, timeout=60, disk_min_file_size=8)
    for k in range(npop):
        c.set('pop-%d' % k, 'P%d' % k + '#' * (30 if k % 2 else 0))
    c.close()
    outs = []
    pids = []
    wid = 0
    sys.stdout.flush()
    for p in range(nproc):
        paths = [os.path.join(ctx.tmp, 'soak-%d-%d.json' % (p, t)) for t in range(nthreads)]
        wids = list(range(wid, wid + nthreads))
        wid += nthreads
        outs += paths
        pid = os.fork()
        if pid == 0:
            code = 1
            try:
                ths = [threading.Thread(target=soak_worker, args=(d, w, nrounds, npop, pth)) for w, pth in zip(wids, paths)]
                for t in ths:
                    t.start()
                for t in ths:
                    t.join()
                code = 0
            finally:
                os._exit(code)
        pids.append(pid)
    for pid in pids:
        os.waitpid(pid, 0)
    leds = []
    for pth in outs:
        try:
            with open(pth) as f:
                leds.append(json.load(f))
        except (OSError, ValueError):
            res.violations.append(fw.Violation('soak_worker_died', 'a soak worker left no ledger', {'check': 'soak'}))
    c = diskcache.Cache(d, timeout=60)
    total = sum(l['incr_ok'] for l in leds)
    case = {'check': 'soak', 'nproc': nproc, 'nthreads': nthreads, 'nrounds': nrounds}
    res.count(['soak', nproc, nthreads, nrounds], nontrivial=True)
    stats['soak_workers'] = len(leds)
    stats['soak_incr_total'] = total
    if c.get('ctr') != total:
        res.violations.append(fw.Violation('lost_update', 'soak: %d successful incr calls but the counter holds %r' % (total, c.get('ctr')), case))
    for rnd in range(nrounds):
        winners = [l['wid'] for l in leds if rnd in l['add_wins']]
        if len(winners) != 1:
            res.violations.append(fw.Violation('add_winners', 'soak: add of key add-%d succeeded for %d callers' % (rnd, len(winners)), case))
            break
        v = c.get('add-%d' % rnd)
        if v is None or not v.startswith('w%d.' % winners[0]) and v != 'w%d' % winners[0]:
            res.violations.append(fw.Violation('value_never_written', 'soak: add-%d holds %r, winner was %d' % (rnd, v, winners[0]), case))
            break
    popped = {}
    for l in leds:
        for k, v in l['pops']:
            popped.setdefault(k, []).append(v)
    for k, vs in popped.items():
        if len(vs) > 1:
            res.violations.append(fw.Violation('removal_winners', 'soak: pop-%d was popped %d times' % (k, len(vs)), case))
            break
        if vs[0] != 'P%d' % k + '#' * (30 if k % 2 else 0):
            res.violations.append(fw.Violation('value_never_written', 'soak: pop-%d returned %r' % (k, vs[0][:30]), case))
            break
    for k in range(npop):
        if k not in popped and ('pop-%d' % k) not in c:
            res.violations.append(fw.Violation('removal_winners', 'soak: pop-%d vanished but nobody received it' % k, case))
            break
    for l in leds:
        if l['reads']:
            res.violations.append(fw.Violation('value_never_written', 'soak: a reader saw a partial/mixed big value: %r' % l['reads'][:2], case))
            break
        if l['errors']:
            res.violations.append(fw.Violation('soak_error', 'soak: worker %d errors %r' % (l['wid'], l['errors'][:3]), case))
            break
    stats['soak_pops'] = len(popped)
    import warnings
    with warnings.catch_warnings():
        warnings.simplefilter('always')
        ws = [str(w.message) for w in c.check() if not issubclass(w.category, diskcache.EmptyDirWarning)]
    if ws:
        res.violations.append(fw.Violation('soak_check_warns', 'soak: check() after quiescence reports %r' % ws[:2], case))
    c.close()


RULE = ('programs of 2-4 clients x 1-3 calls from {set, add, incr, decr, get, pop, delete, touch, contains, len, iter} over keys a, b with '
        'inline (int, short text) and file-backed (text >= 8 characters, one or two write chunks) values, ttl in {None, 100, 0, -1}, '
        'retry on/off, 0-2 preset items; each run under the deterministic scheduler (threads with own Cache objects, threads sharing one '
        'Cache, forked processes) along a random fine- or coarse-grained schedule, plus hand-picked races whose schedules are enumerated; '
        'monitor = linearizability search against the Python reference dictionary with real-time precedence and the observed final contents; '
        'nothing is tolerated: a lookup overlapping another client\'s replacement of the value returns the old or the new value (regression '
        'input: the schedule reader SELECT; writer store, BEGIN, UPDATE, COMMIT, remove; reader open).  '
        'Fresh interpreters (started from scratch with different PYTHONHASHSEED, nothing inherited) on one FanoutCache / Cache directory with text '
        'keys: run one after the other their calls give the results of a dictionary; run at the same time every increment of a shared counter is '
        'counted once and every key is added by exactly one of them.  '
        'Calls that overlap inside the PICKLING of a key (where the scheduler has no switch point): real threads sharing one Cache / FanoutCache (1, 2 '
        'shards) / Index, each with its own key that must be pickled (5 shapes around a component whose __reduce__ / __reduce_ex__ / __getstate__ waits '
        'on an event) and reusing its key object; A\'s set / get / delete / pop / add / incr is suspended inside the pickling of its key while B runs 1-3 '
        'complete calls, or both are suspended and released in either order; afterwards each thread\'s calls with its own key object and the contents '
        'must be those of a dictionary (the keys differ, so every result is determined).  The same with VALUES suspended inside their pickling: every '
        'stored value is a structure (6 shapes, inline-sized and file-backed) around such a component; A\'s set / add / push / Index []= is suspended inside '
        'the pickling of its value while B stores its own pickled values (set / add / push, 1-3 calls, also get / pop) under its own key / queue, or both '
        'are suspended and released in either order; afterwards each key (queue) holds the values stored under it.  '
        'non-trivial = calls of at least two clients overlap in time; distinct = distinct (program, setup, executed schedule, mode).')


# ---------------------------------------------------------------------------
# clients that are separate interpreters started from scratch (not forked: nothing is inherited, hash seeds differ), on one directory

FRESH_CHILD = r"""
import sys, json, os, time
sys.path.insert(0, sys.argv[1])
import diskcache
from diskcache import core
assert os.path.realpath(os.path.dirname(os.path.dirname(core.__file__))) == os.path.realpath(sys.argv[1]), core.__file__
kind, directory, shards, who, gate = sys.argv[2], sys.argv[3], int(sys.argv[4]), sys.argv[5], sys.argv[6]
calls = json.loads(sys.stdin.read())
if kind == 'fanout':
    c = diskcache.FanoutCache(directory, shards=shards, timeout=60, eviction_policy='none')
else:
    c = diskcache.Cache(directory, timeout=60, eviction_policy='none')
if gate:
    open(gate + '.' + who, 'w').close()
    t0 = time.time()
    while not os.path.exists(gate + '.go') and time.time() - t0 < 60:
        time.sleep(0.002)
out = []
for call in calls:
    op, k = call['op'], call.get('key')
    try:
        if op == 'add':
            r = c.add(k, call['value'], retry=True)
        elif op == 'set':
            r = c.set(k, call['value'], retry=True)
        elif op == 'get':
            r = c.get(k, default='DEFAULT', retry=True)
        elif op == 'incr':
            r = c.incr(k, retry=True)
        elif op == 'pop':
            r = c.pop(k, default='DEFAULT', retry=True)
        elif op == 'delete':
            r = c.delete(k, retry=True)
        elif op == 'contains':
            r = k in c
        elif op == 'len':
            r = len(c)
        out.append(['ok', r])
    except Exception as e:
        out.append(['exc', type(e).__name__])
c.close()
print(json.dumps(out))
"""
FRESH_SEEDS = ['1', '2', '4294967295']


def fresh_spawn(kind, directory, shards, who, seed, calls, gate=''):
    import subprocess
    env = dict(os.environ)
    env.update({'PYTHONHASHSEED': seed, 'PYTHONPATH': fw.REPO, 'PYTHONDONTWRITEBYTECODE': '1'})
    p = subprocess.Popen([fw.PY, '-c', FRESH_CHILD, fw.REPO, kind, directory, str(shards), who, gate], stdin=subprocess.PIPE,
                         stdout=subprocess.PIPE, stderr=subprocess.PIPE, text=True, env=env)
    p.stdin.write(json.dumps(calls))
    p.stdin.close()
    return p


def fresh_collect(p):
    out = p.stdout.read()
    err = p.stderr.read()
    if p.wait(timeout=300) != 0:
        raise RuntimeError('child interpreter failed: ' + err[-800:])
    return json.loads(out.strip().splitlines()[-1])


def fresh_ref_apply(state, call):
    """the reference for these calls (no expiry, no tags): a dictionary"""
    op, k = call['op'], call.get('key')
    if op == 'add':
        if k in state:
            return False
        state[k] = call['value']
        return True
    if op == 'set':
        state[k] = call['value']
        return True
    if op == 'get':
        return state.get(k, 'DEFAULT')
    if op == 'incr':
        state[k] = state.get(k, 0) + 1
        return state[k]
    if op == 'pop':
        return state.pop(k, 'DEFAULT')
    if op == 'delete':
        return state.pop(k, None) is not None
    if op == 'contains':
        return k in state
    if op == 'len':
        return len(state)


def fresh_programs(rng, nkeys):
    keys = ['key-%d' % i for i in range(nkeys)] + ['k', 'schlüssel', 'K' * 40]
    prog = []
    for k in keys:
        prog.append({'op': 'add', 'key': k, 'value': 'first'})
    prog += [{'op': 'incr', 'key': 'counter'} for _ in range(5)]
    prog.append({'op': 'set', 'key': 'shared', 'value': 'X' * 30})
    second = [{'op': 'add', 'key': k, 'value': 'second'} for k in keys]
    second += [{'op': 'incr', 'key': 'counter'} for _ in range(5)]
    second += [{'op': 'get', 'key': 'shared'}, {'op': 'contains', 'key': keys[0]}, {'op': 'len'}]
    second += [{'op': rng.choice(['pop', 'delete', 'get']), 'key': rng.choice(keys)} for _ in range(8)]
    third = [{'op': 'get', 'key': k} for k in keys] + [{'op': 'get', 'key': 'counter'}, {'op': 'len'}]
    return [prog, second, third]


def fresh_sequential_case(ctx, kind, shards, programs, seeds):
    """each interpreter runs after the one before has exited: the results are those of the calls in that order on a dictionary"""
    d = ctx.scratch('c05fp')
    problems = []
    try:
        state = {}
        for who, (prog, seed) in enumerate(zip(programs, seeds)):
            got = fresh_collect(fresh_spawn(kind, d, shards, 'p%d' % who, seed, prog))
            for i, (call, g) in enumerate(zip(prog, got)):
                want = ['ok', fresh_ref_apply(state, call)]
                if g != want:
                    problems.append(('fresh_process_result:%s' % call['op'],
                                     '%s (%d shards): interpreter %d (hash seed %s), started after the ones before had exited, call %d %s returned %r, '
                                     'a dictionary gives %r' % (kind, shards, who, seed, i, {k: v for k, v in call.items()}, g, want)))
                    return problems
    finally:
        shutil.rmtree(d, ignore_errors=True)
    return problems


def fresh_concurrent_case(ctx, kind, shards, nproc, nincr, nadd, seeds):
    """interpreters running at the same time: every increment counted once, every key added by exactly one of them"""
    d = ctx.scratch('c05fc')
    gate = os.path.join(d, 'gate')
    problems = []
    try:
        os.makedirs(d, exist_ok=True)
        calls = []
        for i in range(max(nincr, nadd)):
            if i < nincr:
                calls.append({'op': 'incr', 'key': 'counter'})
            if i < nadd:
                calls.append({'op': 'add', 'key': 'race-%d' % i, 'value': 'v'})
        procs = [fresh_spawn(kind, d, shards, 'p%d' % w, seeds[w % len(seeds)], calls, gate) for w in range(nproc)]
        t0 = _time.time()
        while not all(os.path.exists(gate + '.p%d' % w) for w in range(nproc)) and _time.time() - t0 < 60:
            _time.sleep(0.005)
        open(gate + '.go', 'w').close()
        outs = [fresh_collect(p) for p in procs]
        incrs = sorted(r[1] for o in outs for c, r in zip(calls, o) if c['op'] == 'incr' and r[0] == 'ok')
        errors = [r for o in outs for r in o if r[0] != 'ok']
        if errors:
            problems.append(('fresh_process_error', '%s (%d shards): %d concurrent interpreters: a call raised %s' % (kind, shards, nproc, errors[0][1])))
        elif incrs != list(range(1, nproc * nincr + 1)):
            problems.append(('fresh_process_lost_update', '%s (%d shards): %d interpreters (hash seeds %s) each incremented one counter %d times: the values returned '
                             'are %r..., expected each of 1..%d once' % (kind, shards, nproc, seeds[:nproc], nincr, incrs[:12], nproc * nincr)))
        for i in range(nadd):
            wins = sum(1 for o in outs for c, r in zip(calls, o) if c['op'] == 'add' and c['key'] == 'race-%d' % i and r == ['ok', True])
            if wins != 1 and not errors:
                problems.append(('fresh_process_add_won_%s' % ('twice' if wins > 1 else 'never'), '%s (%d shards): add(%r) by %d concurrent interpreters succeeded %d times'
                                 % (kind, shards, 'race-%d' % i, nproc, wins)))
                break
    finally:
        shutil.rmtree(d, ignore_errors=True)
    return problems


def fresh_interpreters(ctx, res, stats, thorough):
    configs = [('fanout', 8), ('cache', 1)] + ([('fanout', 3), ('fanout', 2), ('fanout', 13)] if thorough else [])
    seen = set()
    n = 0
    for kind, shards in configs:
        seeds = FRESH_SEEDS[ctx.seed % 3:] + FRESH_SEEDS[:ctx.seed % 3]
        programs = fresh_programs(ctx.rng, 32 if kind == 'fanout' else 8)
        case = {'check': 'fresh_sequential', 'kind': kind, 'shards': shards, 'programs': programs, 'seeds': seeds}
        res.count(['fresh-seq', kind, shards, tuple(seeds)], nontrivial=True)
        n += 1
        for sig, desc in fresh_sequential_case(ctx, kind, shards, programs, seeds):
            if sig not in seen:
                seen.add(sig)
                res.violations.append(fw.Violation(sig, desc, case))
        if kind == 'cache' and not thorough:
            continue
        nproc, nincr, nadd = (3, 25, 12) if thorough else (2, 12, 6)
        case = {'check': 'fresh_concurrent', 'kind': kind, 'shards': shards, 'nproc': nproc, 'nincr': nincr, 'nadd': nadd, 'seeds': seeds}
        res.count(['fresh-conc', kind, shards, nproc], nontrivial=True)
        n += 1
        for sig, desc in fresh_concurrent_case(ctx, kind, shards, nproc, nincr, nadd, seeds):
            if sig not in seen:
                seen.add(sig)
                res.violations.append(fw.Violation(sig, desc, case))
    stats['fresh_interpreter_cases'] = n


# ---------------------------------------------------------------------------
# Threads sharing ONE object whose calls overlap INSIDE the pickling of a key.  The deterministic scheduler switches at SQLite / file events
# only; a key is converted before the first of them.  A key component whose pickling hook (__reduce__ / __reduce_ex__ / __getstate__) waits
# on an event is an ordinary picklable key, and lets a real second thread run complete calls at exactly that point.  No timing: every wait
# is on an explicit event, the timeouts only guard against hangs.

class KeyPart:
    """hashable, picklable key component; equal iff same class and name.  Pickling the part NAMED in `armed` waits once at its n-th pickling."""
    armed = {}          # name -> [countdown, reached Event, release Event]
    guard = threading.Lock()

    def __init__(self, name):
        self.name = name

    def _pickling(self):
        with KeyPart.guard:
            g = KeyPart.armed.get(self.name)
            if g is None:
                return
            g[0] -= 1
            if g[0] > 0:
                return
            del KeyPart.armed[self.name]
        g[1].set()
        if not g[2].wait(30):
            raise RuntimeError('harness: the gate of key part %r was never released' % (self.name,))

    def __eq__(self, o):
        return type(o) is type(self) and o.name == self.name

    def __ne__(self, o):
        return not self.__eq__(o)

    def __hash__(self):
        return hash((type(self).__name__, self.name))

    def __repr__(self):
        return '%s(%r)' % (type(self).__name__, self.name)


class KeyPartReduce(KeyPart):
    def __reduce__(self):
        self._pickling()
        return (type(self), (self.name,))


class KeyPartReduceEx(KeyPart):
    def __reduce_ex__(self, protocol):
        self._pickling()
        return (type(self), (self.name,))


class KeyPartState(KeyPart):
    def __getstate__(self):
        self._pickling()
        return {'name': self.name}

    def __setstate__(self, st):
        self.name = st['name']


KP_GATES = {'reduce': KeyPartReduce, 'reduce_ex': KeyPartReduceEx, 'getstate': KeyPartState}
KP_SHAPES = {'tuple_last': lambda q: ('job', q), 'tuple_first': lambda q: (q, 7), 'nested': lambda q: (1, ('n', q), 2.5), 'bare': lambda q: q,
             'frozenset': lambda q: frozenset([q])}
KP_CONTAINERS = ['Cache', 'FanoutCache1', 'FanoutCache2', 'Index']
KP_OPS = {'Cache': ['set', 'get', 'delete', 'pop', 'add', 'incr'], 'FanoutCache': ['set', 'get', 'delete', 'pop', 'add', 'incr'],
          'Index': ['set', 'get', 'delete', 'pop']}
KP_MODES = ['b_complete', 'both_ab', 'both_ba']      # B runs complete calls while A is inside pickling / both inside, A resp. B released first
KP_POSTS = [['get', 'delete', 'get'], ['get', 'pop', 'get'], ['get', 'incr', 'get'], ['delete', 'get'], ['pop', 'get'], ['get', 'set', 'get'],
            ['add', 'get'], ['incr', 'get'], ['get']]
KP_MISS = '<miss>'
# values suspended inside THEIR pickling (p['suspend'] == 'value'): the gated component sits inside the value of a storing call
KV_SHAPES = {'tuple_mid': lambda q, t: (t, q, ['tail', 'of', t]), 'list_first': lambda q, t: [q, t, t], 'dict': lambda q, t: {'part': q, 'text': t},
             'bare': lambda q, t: q, 'nested': lambda q, t: (1, (t, [q]), 2.5), 'tuple_last': lambda q, t: (t, 7, q)}
KV_STORES = {'Cache': ['set', 'add', 'push'], 'FanoutCache': ['set', 'add'], 'Index': ['set', 'push']}
KV_OPS_B = {'Cache': ['set', 'add', 'set', 'get', 'pop'], 'FanoutCache': ['set', 'add', 'set', 'get', 'pop'], 'Index': ['set', 'set', 'get', 'pop']}
_KPQ = '<queue>'
# (Deque.append / appendleft pickle the value INSIDE a transact() block, i.e. under the write lock: a second append cannot run meanwhile, so
# there is nothing to overlap; Deque is not among the containers of this family)


class _KWorker:
    """a persistent thread (its own SQLite connection, the SAME Cache / FanoutCache / Index object)"""

    def __init__(self):
        import queue
        self.q = queue.Queue()
        self.t = threading.Thread(target=self._loop, daemon=True)
        self.t.start()

    def _loop(self):
        while True:
            job = self.q.get()
            if job is None:
                return
            f, box, done = job
            try:
                box['r'] = f()
            except BaseException as e:  # noqa
                box['exc'] = e
            finally:
                done.set()

    def start(self, f):
        box, done = {}, threading.Event()
        self.q.put((f, box, done))
        return box, done

    def stop(self):
        self.q.put(None)
        self.t.join(5)


class KPEnv:
    def __init__(self, directory, container):
        self.container = container
        self.cont = container.rstrip('0123456789')
        kw = dict(disk_min_file_size=8)
        if self.cont == 'Cache':
            self.obj = diskcache.Cache(directory, **kw)
        elif self.cont == 'FanoutCache':
            self.obj = diskcache.FanoutCache(directory, shards=int(container[len('FanoutCache'):]), **kw)
        else:
            self.obj = diskcache.Index.fromcache(diskcache.Cache(directory, **kw))
        self.workers = {'A': _KWorker(), 'B': _KWorker()}
        self.broken = False

    def close(self):
        for w in self.workers.values():
            w.stop()
        try:
            (self.obj.cache if self.cont == 'Index' else self.obj).close()
        except Exception:  # noqa
            pass


def kp_call(cont, o, op, k, v):
    """one call through the shared object, result in the vocabulary of kp_ref"""
    try:
        if op == 'push':
            return isinstance(o.push(v, prefix=k) if cont == 'Index' else o.push(v, prefix=k, retry=True), str)
        if op == 'pull':
            return (o.pull(prefix=k, default=(None, KP_MISS)) if cont == 'Index' else o.pull(prefix=k, default=(None, KP_MISS), retry=True))[1]
        if cont == 'Index':
            if op == 'set':
                o[k] = v
                return True
            if op == 'get':
                return o.get(k, KP_MISS)
            if op == 'delete':
                try:
                    del o[k]
                    return True
                except KeyError:
                    return False
            if op == 'pop':
                return o.pop(k, KP_MISS)
        else:
            if op == 'set':
                return o.set(k, v, retry=True)
            if op == 'add':
                return o.add(k, v, retry=True)
            if op == 'get':
                return o.get(k, default=KP_MISS, retry=True)
            if op == 'delete':
                return o.delete(k, retry=True)
            if op == 'pop':
                return o.pop(k, default=KP_MISS, retry=True)
            if op == 'incr':
                return o.incr(k, v, default=0, retry=True)
        raise ValueError(op)
    except RuntimeError:
        raise
    except Exception as e:  # noqa
        return '<raised %s: %s>' % (type(e).__name__, str(e)[:60])


def kp_ref(d, op, k, v):
    """the reference: a plain dictionary keyed by the key VALUE (KeyPart equality)"""
    if op == 'set':
        d[k] = v
        return True
    if op == 'add':
        if k in d:
            return False
        d[k] = v
        return True
    if op == 'get':
        return d.get(k, KP_MISS)
    if op == 'delete':
        return d.pop(k, KP_MISS) is not KP_MISS
    if op == 'pop':
        return d.pop(k, KP_MISS)
    if op == 'incr':
        d[k] = d.get(k, 0) + v
        return d[k]
    if op == 'push':
        d.setdefault((_KPQ, k), []).append(v)
        return True
    if op == 'pull':
        q = d.get((_KPQ, k), [])
        return q.pop(0) if q else KP_MISS
    raise ValueError(op)


_kp_n = [0]


def pickling_overlap_case(env, p):
    """One scenario on one shared object.  Thread A owns key KA, thread B key KB (different keys that must be pickled, each thread REUSES its
    key object for all its calls).  A's call p['op_a'] is suspended inside the pickling of KA (at the p['nth'] pickling of the component);
    meanwhile B runs its calls p['ops_b'] with KB to completion (mode b_complete) or is suspended inside the pickling of KB as well and the
    two are released in the order given by the mode.  Afterwards, nothing in flight, each thread runs p['post'] with its own key object.
    The keys differ, so every call has exactly one admissible result: that of a dictionary.  -> (problems, info)"""
    _kp_n[0] += 1
    n = _kp_n[0]
    cls = KP_GATES[p['gate']]
    part = {'A': cls('a%d' % n), 'B': cls('b%d' % n)}
    key = {'A': KP_SHAPES[p['shape_a']](part['A']), 'B': KP_SHAPES[p['shape_b']](part['B'])}
    in_value = p.get('suspend') == 'value'
    vpart = {'A': cls('va%d' % n), 'B': cls('vb%d' % n)}      # the components of the VALUES (value mode: these are the gated ones)
    gated = vpart if in_value else part
    if in_value and 'push' in [p['op_a']] + p['ops_b'] + p['post']:
        key = {'A': 'qa%d' % n, 'B': 'qb%d' % n}               # queue calls: each thread has its own queue (prefix)
    what = 'value' if in_value else 'key'
    o, cont = env.obj, env.cont
    ref = {}
    seq = [0]
    log, problems = [], []
    info = {'reached': False}

    def value(who, op):
        seq[0] += 1
        if op == 'incr':
            return 3 + seq[0]
        if in_value:        # every stored value goes through pickling and carries the thread's own component
            text = '%s-value-%d-' % (who, seq[0]) + (('a' if who == 'A' else 'b') * 30 if p['values'] != 'int' else '')
            return KV_SHAPES[p['vshape_a' if who == 'A' else 'vshape_b']](vpart[who], text)
        if p['values'] == 'int':
            return (1000 if who == 'A' else 2000) + seq[0]
        return '%s-value-%d-' % (who, seq[0]) + ('a' if who == 'A' else 'b') * 30        # above the file threshold

    def job(who, ops):
        """-> (thunk running the calls in order on the shared object, list collecting (op, value, result))"""
        plan = [(op, value(who, op)) for op in ops]
        out = []

        def run():
            for op, v in plan:
                out.append((op, v, kp_call(cont, o, op, key[who], v)))
        return run, plan, out

    def settle(who, plan, out, phase):
        """compare the results of one thread's calls with the dictionary"""
        for i, (op, v) in enumerate(plan):
            want = kp_ref(ref, op, key[who], v)
            got = out[i][2] if i < len(out) else '<not executed>'
            log.append('%s %s: %s(%r%s) -> %r' % (phase, who, op, key[who], '' if op in ('get', 'delete', 'pop', 'pull') else ', %r' % (v,), got))
            if not (type(got) is type(want) and got == want) and not problems:
                problems.append(('shared_object_%s_crosstalk:%s:%s' % (what, cont, op),
                                 '%s shared by two threads, keys %r (thread A) and %r (thread B): %s, thread %s: %s with its own key object returned %r, '
                                 'a dictionary gives %r' % (env.container, key['A'], key['B'], phase, who, op, got, want)))

    def sync(who, ops, phase):
        run, plan, out = job(who, ops)
        box, done = env.workers[who].start(run)
        if not done.wait(60):
            env.broken = True
            problems.append(('shared_object_call_hangs', '%s: %s of thread %s did not return within 60 s' % (env.container, ops, who)))
            return False
        if 'exc' in box:
            raise box['exc']
        settle(who, plan, out, phase)
        return True

    def arm(who):
        g = [p['nth'], threading.Event(), threading.Event()]
        with KeyPart.guard:
            KeyPart.armed[gated[who].name] = g
        return g

    def disarm(who):
        with KeyPart.guard:
            KeyPart.armed.pop(gated[who].name, None)

    try:
        if p['preset']:
            if not sync('A', ['set'], 'preset') or not sync('B', ['set'], 'preset'):
                return problems, info
        # the overlap
        ga = arm('A')
        run_a, plan_a, out_a = job('A', [p['op_a']])
        box_a, done_a = env.workers['A'].start(run_a)
        reached_a = ga[1].wait(20)
        if not reached_a:
            disarm('A')
        if p['mode'] == 'b_complete':
            info['reached'] = reached_a
            ok = sync('B', p['ops_b'], 'while A is inside the pickling of its %s' % what)
            ga[2].set()
            if not done_a.wait(60):
                env.broken = True
                problems.append(('shared_object_call_hangs', '%s: %s of thread A did not return within 60 s after its key was pickled' % (env.container, p['op_a'])))
                return problems, info
            if not ok:
                return problems, info
            settle('A', plan_a, out_a, 'suspended call')
        else:
            gb = arm('B')
            run_b, plan_b, out_b = job('B', p['ops_b'])
            box_b, done_b = env.workers['B'].start(run_b)
            reached_b = gb[1].wait(20)
            if not reached_b:
                disarm('B')
            info['reached'] = reached_a and reached_b
            order = [(ga, done_a, 'A'), (gb, done_b, 'B')]
            if p['mode'] == 'both_ba':
                order.reverse()
            for g, done, who in order:
                g[2].set()
                if not done.wait(60):
                    env.broken = True
                    problems.append(('shared_object_call_hangs', '%s: the call of thread %s did not return within 60 s after its key was pickled' % (env.container, who)))
                    ga[2].set()
                    gb[2].set()
                    return problems, info
            for box in (box_a, box_b):
                if 'exc' in box:
                    raise box['exc']
            settle('A', plan_a, out_a, 'suspended call')
            settle('B', plan_b, out_b, 'suspended call')
        if 'exc' in box_a:
            raise box_a['exc']
        # nothing in flight from here on: each thread uses its own key object again
        for who in (('B', 'A') if p['post_first'] == 'B' else ('A', 'B')):
            if not sync(who, p['post'], 'afterwards'):
                return problems, info
        # contents
        if not problems:
            try:
                keys = list(o)
                n_items = len(o)
            except Exception as e:  # noqa
                keys, n_items = ['<raised %r>' % e], -1
            queued = sum(len(q) for k, q in ref.items() if isinstance(k, tuple) and k[:1] == (_KPQ,))
            for k in [k for k in ref if isinstance(k, tuple) and k[:1] == (_KPQ,)]:
                del ref[k]
            if queued:
                pass            # (queue items are addressed by generated keys: their contents were compared by the pulls)
            elif n_items != len(ref) or len(keys) != len(ref) or not all(k in ref for k in keys):
                problems.append(('shared_object_%s_crosstalk:%s:contents' % (what, cont),
                                 '%s shared by two threads, keys %r and %r: afterwards it holds %d items with keys %r, a dictionary holds %r'
                                 % (env.container, key['A'], key['B'], n_items, keys, list(ref))))
    finally:
        disarm('A')
        disarm('B')
        info['log'] = log
        if not env.broken:
            try:
                o.clear()
            except Exception:  # noqa
                pass
    return problems, info


def pickling_overlaps(ctx, res, stats, thorough):
    """Cache, FanoutCache (1 and 2 shards) and Index shared by two threads; every suspended call x every mode systematically, the other
    dimensions (key shapes, pickling hook, which pickling of the call, B's calls, preset entries, what follows, value kind) drawn at random."""
    import random
    rng = random.Random(ctx.seed * 7919 + 11)
    st = stats.setdefault('pickling_overlaps', {'scenarios': 0, 'suspended_inside_pickling': 0})
    rounds = 12 if thorough else 2
    seen = set()
    for container in KP_CONTAINERS:
        env = KPEnv(ctx.scratch('c05kp'), container)
        ops = KP_OPS[env.cont]
        try:
            for rnd in range(rounds):
                for gate in sorted(KP_GATES):
                    for mode in KP_MODES:
                        for op_a in ops:
                            nb = 1 if mode != 'b_complete' else rng.choice([1, 1, 2, 3])
                            post = [x for x in rng.choice(KP_POSTS) if x in ops]
                            ops_b = [rng.choice(ops) for _ in range(nb)]
                            p = {'check': 'key_pickling_overlap', 'container': container, 'gate': gate, 'mode': mode, 'op_a': op_a, 'ops_b': ops_b,
                                 'shape_a': rng.choice(sorted(KP_SHAPES)), 'shape_b': rng.choice(sorted(KP_SHAPES)),
                                 'nth': rng.choice([1, 1, 2]) if env.cont == 'FanoutCache' else 1, 'preset': rng.random() < 0.6, 'post': post or ['get'],
                                 'post_first': rng.choice('AB'), 'values': 'int' if 'incr' in [op_a] + ops_b + post or rng.random() < 0.4 else 'text'}
                            problems, info = pickling_overlap_case(env, p)
                            st['scenarios'] += 1
                            st['suspended_inside_pickling'] += int(bool(info.get('reached')))
                            res.count(['key-pickling-overlap', sorted(p.items())], nontrivial=bool(info.get('reached')))
                            stats['ops'][op_a] = stats['ops'].get(op_a, 0) + 1
                            for sig, desc in problems:
                                if sig not in seen:
                                    seen.add(sig)
                                    res.violations.append(fw.Violation(sig, desc + '   [calls: ' + '; '.join(info.get('log', [])[-12:]) + ']', dict(p)))
                            if env.broken:
                                env.close()
                                env = KPEnv(ctx.scratch('c05kp'), container)
                    if enough(res):
                        return
            # VALUES suspended inside their pickling: every storing call x every mode x every hook
            for rnd in range(rounds):
                for gate in sorted(KP_GATES):
                    for mode in KP_MODES:
                        for op_a in KV_STORES[env.cont]:
                            queue = op_a == 'push'
                            nb = 1 if mode != 'b_complete' else rng.choice([1, 2, 3])
                            ops_b = ['push'] * nb if queue else [rng.choice(KV_STORES[env.cont][:2] if mode != 'b_complete' else KV_OPS_B[env.cont]) for _ in range(nb)]
                            if not queue and mode == 'b_complete' and not any(x in ('set', 'add') for x in ops_b):
                                ops_b[0] = 'set'
                            post = ['pull', 'pull', 'pull', 'pull'] if queue else [x for x in rng.choice(KP_POSTS) if x in ops and x != 'incr']
                            p = {'check': 'key_pickling_overlap', 'suspend': 'value', 'container': container, 'gate': gate, 'mode': mode, 'op_a': op_a,
                                 'ops_b': ops_b, 'shape_a': rng.choice(sorted(KP_SHAPES)), 'shape_b': rng.choice(sorted(KP_SHAPES)),
                                 'vshape_a': rng.choice(sorted(KV_SHAPES)), 'vshape_b': rng.choice(sorted(KV_SHAPES)), 'nth': 1,
                                 'preset': rng.random() < 0.5, 'post': post or ['get'], 'post_first': rng.choice('AB'),
                                 'values': 'int' if rng.random() < 0.4 else 'text'}
                            if queue and p['preset']:
                                p['preset'] = False         # (the preset is a set under the key; queues start empty)
                            problems, info = pickling_overlap_case(env, p)
                            st['scenarios'] += 1
                            st['value_scenarios'] = st.get('value_scenarios', 0) + 1
                            st['suspended_inside_value_pickling'] = st.get('suspended_inside_value_pickling', 0) + int(bool(info.get('reached')))
                            res.count(['value-pickling-overlap', sorted(p.items())], nontrivial=bool(info.get('reached')))
                            stats['ops'][op_a] = stats['ops'].get(op_a, 0) + 1
                            for sig, desc in problems:
                                if sig not in seen:
                                    seen.add(sig)
                                    res.violations.append(fw.Violation(sig, desc + '   [calls: ' + '; '.join(info.get('log', [])[-12:]) + ']', dict(p)))
                            if env.broken:
                                env.close()
                                env = KPEnv(ctx.scratch('c05kp'), container)
                    if enough(res):
                        return
        finally:
            env.close()
    res.sample({'check': 'key_pickling_overlap', 'containers': KP_CONTAINERS, 'scenarios': st['scenarios'],
                'suspended_inside_pickling': st['suspended_inside_pickling']})


def run(ctx, big=False):
    res = fw.Result()
    res.rule = RULE
    del TRACE_RECORDS[:]
    stats = new_stats()
    thorough = (not ctx.quick) or big
    t0 = _time.time()
    if ctx.quick and not big:
        ctx.deadline = t0 + 200
        run_corpus(ctx, res, stats, per_program=80, exhaustive_limit=0)
        run_enumerated(ctx, res, stats, 3, 150)
        run_random(ctx, res, stats, 600, ['own', 'shared'], drivers=('thread', 'thread', 'thread', 'process'))
    else:
        ctx.deadline = t0 + (1300 if not ctx.quick else 420)
        run_corpus(ctx, res, stats, per_program=400, exhaustive_limit=1500)
        run_enumerated(ctx, res, stats, 25 if not ctx.quick else 8, 600 if not ctx.quick else 200)
        run_random(ctx, res, stats, 3000 if not ctx.quick else 800, ['own', 'shared'], drivers=('thread', 'thread', 'process'))
        if not ctx.quick and not enough(res):
            soak(ctx, res, stats)
    ctx.deadline = None
    if not enough(res):
        pickling_overlaps(ctx, res, stats, thorough)
    if not enough(res):
        fresh_interpreters(ctx, res, stats, thorough)
    res.traces_validated = 0
    res.extra.update({'fresh_interpreter_cases': stats.get('fresh_interpreter_cases'), 'pickling_overlaps': stats.get('pickling_overlaps'),
        'runs': stats['runs'], 'programs_by_clients': stats['by_clients'], 'programs_by_calls': stats['by_calls'], 'runs_by_driver_mode': stats['by_mode'],
        'op_histogram': stats['ops'], 'runs_with_contention_reached': stats['contended'], 'calls_that_timed_out': stats['timeouts'],
        'runs_with_file_backed_values': stats['file_backed_runs'], 'lookups_that_looked_again': stats['lookups_that_looked_again'],
        'd12_schedule_regression': stats.get('d12_regression'),
        'schedules_enumerated': stats['schedules_enumerated'], 'programs_enumerated': stats['programs_enumerated'],
        'programs_enumerated_exhaustively': stats['exhaustive_programs'], 'step_budget_overflows': stats['overflow'],
        'longest_run_steps': stats['max_steps_seen'], 'trace_records': len(TRACE_RECORDS),
        'soak': {k: v for k, v in stats.items() if k.startswith('soak_')},
    })
    res.extra_private = {'trace_records': TRACE_RECORDS}
    if not ctx.search_mode:
        correspondence(ctx, res, TRACE_RECORDS)
        schedule_correspondence(ctx, res, 500 if (ctx.quick and not big) else 5000)
        reference_correspondence(ctx, res, 300 if (ctx.quick and not big) else 3000)
        reference_selfcheck(ctx, res, 400 if (ctx.quick and not big) else 4000)
        iteration_model_correspondence(ctx, res, stats)
    return res


def iteration_model_correspondence(ctx, res, stats):
    """The witness schedule of the torn iteration on the model of model/IterConc.v: statement 0 (MAX(rowid)) reads {a}, the page statement
    reads {b} (props/C05.v C05_iteration_one_state_refuted).  The implementation, driven along that schedule, must yield what the model
    yields (nothing), and must have made exactly the two statements the model's `torn_tables` speaks of."""
    w = stats.get('iter_witness')
    if not w:
        return
    rc, out = fw.coq_eval('c05iter', 'Eval vm_compute in (length (keys_of (iter_among_writers 3 torn_tables)), iter_done 3 torn_tables).\n',
                          ['DCPrelude', 'Val', 'DiskBase', 'SqlBase', 'Gen_Disk', 'Disk', 'Gen_Sql', 'Cache', 'IterConc', 'IterConcFacts'])
    flat = ' '.join(out.split())
    res.count(['iter-model-witness'], nontrivial=True)
    if rc != 0 or '= (' not in flat:
        res.disagreements.append(fw.Violation('model-eval', 'evaluation of model/IterConc.v failed: ' + out[-300:], {}, 'correspondence'))
        return
    model_len = int(flat.split('= (')[1].split('%')[0].split(',')[0].strip())
    model_done = 'true' in flat.split('= (')[1].split(')')[0]
    got = w['result']
    if isinstance(got, list) and len(got) == model_len and model_done:
        res.traces_validated += 1
    else:
        res.disagreements.append(fw.Violation('iteration_model', 'along the witness schedule (MAX(rowid) read, then b stored and a deleted, then the page read) '
                                              'the implementation yielded %r, the model yields %d keys (iteration ended: %r)' % (got, model_len, model_done),
                                              {'check': 'iteration_model', 'observed': w}, 'correspondence'))


def reference_correspondence(ctx, res, n):
    """The reference dictionary that decides the linearizability verdicts (RefCache above, written from the property text)
    against the machine of coq/model/Conc.v + Txn.v run with ONE client (ConcRun.seq_check): same outcomes for every call of
    random sequential programs (set/add/incr/decr/get/pop/delete/touch/contains with ttl None, +100 s, 0 and -1 s; inline and
    file-backed values)."""
    import schedcorr
    rng = ctx.rng
    terms, progs = [], []
    ops = {}
    while len(terms) < n:
        prog = []
        for j in range(rng.randrange(4, 13)):
            c = gen_call(rng, 'r%d' % j, keys=('a', 'b', 'c'))
            c.pop('tag', None)
            c.pop('meta', None)
            if c['op'] in schedcorr.OPS:
                prog.append(c)
        prog += [{'op': 'get', 'key': k} for k in ('a', 'b', 'c')]
        ref = RefCache()
        seen = []
        for c in prog:
            ops[c['op']] = ops.get(c['op'], 0) + 1
            kind, r = ref_result(ref, c)
            rec = {'op': c['op'], 'call': c}
            if kind == 'exc':
                rec['exc'] = r
            else:
                rec['result'] = r
            seen.append(schedcorr.seen_term(rec))
        terms.append('seq_check %s %s %s' % (schedcorr.cfg_term(SETTINGS), fw.clist([schedcorr.call_term(c, NOW) for c in prog]), fw.clist(seen)))
        progs.append(prog)
    codes, errors = schedcorr.evaluate('c05ref', terms)
    for e in errors[:2]:
        res.disagreements.append(fw.Violation('model-eval', 'reference correspondence could not be evaluated: ' + e[-300:], {}, 'correspondence'))
    bad = [i for i, c in enumerate(codes) if c != -1]
    res.traces_validated += len(terms) - len(bad)
    res.extra['reference_correspondence'] = {'programs': len(terms), 'agree': len(terms) - len(bad), 'op_histogram': ops}
    for i in bad[:3]:
        res.disagreements.append(fw.Violation('reference_correspondence', 'the reference dictionary and the machine run with one client give different outcomes '
                                              '(code %r) for %s' % (codes[i], progs[i]), {'check': 'reference', 'program': progs[i], 'code': codes[i]}, 'correspondence'))


def reference_selfcheck(ctx, res, n):
    """The small reference Deque / Index of this module (used by the block, kill and bounded-deque monitors of C06, C07, C11)
    against collections.deque(maxlen) and collections.OrderedDict on random sequential programs: same results, same contents."""
    import collections
    rng = ctx.rng
    bad = 0
    for k in range(n):
        maxlen = rng.choice([None, None, 1, 2, 3])
        ref, dq = RefDeque(maxlen=maxlen), collections.deque(maxlen=maxlen)
        trace = []
        for j in range(rng.randrange(3, 14)):
            op = rng.choice(['append', 'append', 'appendleft', 'pop', 'popleft', 'len', 'iter', 'extend', 'extendleft', 'rotate', 'getitem', 'setitem', 'delitem',
                             'clear', 'reverse', 'count', 'remove', 'reversed', 'peek', 'peekleft'])
            call = {'op': op}
            if op in ('append', 'appendleft', 'count', 'remove', 'setitem'):
                call['value'] = rng.randrange(0, 4)
            if op in ('extend', 'extendleft'):
                call['values'] = [rng.randrange(0, 4) for _ in range(rng.randrange(0, 4))]
            if op in ('getitem', 'setitem', 'delitem'):
                call['index'] = rng.randrange(-4, 4)
            if op == 'rotate':
                call['steps'] = rng.randrange(-3, 4)
            trace.append(call)
            got = ref_result(ref, call)
            try:
                if op in ('append', 'appendleft', 'count', 'remove'):
                    want = ('ok', getattr(dq, op)(call['value']))
                elif op in ('extend', 'extendleft'):
                    want = ('ok', getattr(dq, op)(call['values']))
                elif op in ('pop', 'popleft', 'clear', 'reverse'):
                    want = ('ok', getattr(dq, op)())
                elif op == 'peek':
                    want = ('ok', dq[-1])
                elif op == 'peekleft':
                    want = ('ok', dq[0])
                elif op == 'len':
                    want = ('ok', len(dq))
                elif op == 'iter':
                    want = ('ok', list(dq))
                elif op == 'reversed':
                    want = ('ok', list(reversed(dq)))
                elif op == 'rotate':
                    want = ('ok', dq.rotate(call['steps']))
                elif op == 'getitem':
                    want = ('ok', dq[call['index']])
                elif op == 'setitem':
                    dq[call['index']] = call['value']
                    want = ('ok', None)
                else:
                    del dq[call['index']]
                    want = ('ok', None)
            except (IndexError, ValueError) as e:
                want = ('exc', type(e).__name__)
            if got != want or ref.final_view() != list(dq):
                bad += 1
                res.disagreements.append(fw.Violation('reference_selfcheck', 'the reference Deque (maxlen %r) gives %r / %r, collections.deque %r / %r after %s'
                                                      % (maxlen, got, ref.final_view(), want, list(dq), trace), {'check': 'refdeque', 'maxlen': maxlen, 'program': trace}, 'correspondence'))
                break
        ix, od = RefIndex(), collections.OrderedDict()
        trace = []
        for j in range(rng.randrange(3, 14)):
            op = rng.choice(['setitem', 'setitem', 'getitem', 'delitem', 'contains', 'len', 'iter', 'reversed', 'pop', 'popitem', 'setdefault', 'update', 'items', 'clear'])
            call = {'op': op}
            if op in ('setitem', 'getitem', 'delitem', 'contains', 'pop', 'setdefault'):
                call['key'] = rng.choice('abcd')
            if op == 'setitem':
                call['value'] = rng.randrange(0, 9)
            if op == 'pop' and rng.random() < 0.5:
                call['default'] = 'dflt'
            if op == 'setdefault':
                call['default'] = rng.randrange(0, 9)
            if op == 'popitem':
                call['last'] = rng.random() < 0.5
            if op == 'update':
                call['items'] = [[rng.choice('abcd'), rng.randrange(0, 9)] for _ in range(rng.randrange(0, 3))]
            trace.append(call)
            got = ref_result(ix, call)
            try:
                if op == 'setitem':
                    od[call['key']] = call['value']
                    want = ('ok', None)
                elif op == 'getitem':
                    want = ('ok', od[call['key']])
                elif op == 'delitem':
                    del od[call['key']]
                    want = ('ok', None)
                elif op == 'contains':
                    want = ('ok', call['key'] in od)
                elif op == 'len':
                    want = ('ok', len(od))
                elif op == 'iter':
                    want = ('ok', list(od))
                elif op == 'reversed':
                    want = ('ok', list(reversed(od)))
                elif op == 'pop':
                    want = ('ok', od.pop(call['key'], call['default']) if 'default' in call else od.pop(call['key']))
                elif op == 'popitem':
                    want = ('ok', list(od.popitem(last=call['last'])))
                elif op == 'setdefault':
                    want = ('ok', od.setdefault(call['key'], call['default']))
                elif op == 'update':
                    od.update([tuple(x) for x in call['items']])
                    want = ('ok', None)
                elif op == 'items':
                    want = ('ok', [list(x) for x in od.items()])
                else:
                    od.clear()
                    want = ('ok', None)
            except KeyError:
                want = ('exc', 'KeyError')
            if got != want or ix.final_view() != [list(x) for x in od.items()]:
                bad += 1
                res.disagreements.append(fw.Violation('reference_selfcheck', 'the reference Index gives %r / %r, OrderedDict %r / %r after %s'
                                                      % (got, ix.final_view(), want, list(od.items()), trace), {'check': 'refindex', 'program': trace}, 'correspondence'))
                break
        if bad >= 3:
            break
    res.extra['reference_selfcheck'] = {'programs_each': n, 'disagreements': bad}


def schedule_correspondence(ctx, res, n, kind_filter=None):
    """The machine with the real transaction bodies (coq/model/Txn.v) is run under the same schedule as the
    implementation (harness/schedcorr.py, coq/model/ConcRun.v sched_check): every BEGIN must find the lock free
    or busy exactly when the machine says so, every file creation / removal must be the machine's next step,
    every call must return the machine's outcome and the disk must end in the machine's committed state."""
    import schedcorr
    rng = ctx.rng
    terms, infos, cases = [], [], []
    st = {'runs': 0, 'events': 0, 'busy_begins': 0, 'timeouts': 0, 'skipped': {}, 'clients': {}, 'file_events': 0, 'rollbacks': 0}
    named = [(nm, pr, su) for (nm, pr, su, _) in corpus() if schedcorr.supported(pr, su)]
    tries = 0
    while len(terms) < n and tries < 3 * n + 50:
        tries += 1
        if named and rng.random() < 0.15:
            nm, programs, setup = rng.choice(named)
        else:
            programs, setup = gen_program(rng)
            nm = 'random'
        if not schedcorr.supported(programs, setup):
            st['skipped']['unsupported-op'] = st['skipped'].get('unsupported-op', 0) + 1
            continue
        schedule = gen_schedule(rng, programs)
        mode = rng.choice(['own', 'shared'])
        r = concdrv.run_program(ctx, programs, schedule, mode=mode, settings=SETTINGS, setup=setup, max_steps=6000, sleep_advances=False)
        term, info = schedcorr.build(r, programs, setup, SETTINGS)
        shutil.rmtree(r['dir'], ignore_errors=True)
        if term is None:
            st['skipped'][info] = st['skipped'].get(info, 0) + 1
            continue
        st['runs'] += 1
        st['events'] += len(info['events'])
        st['busy_begins'] += sum(1 for (_, t) in info['events'] if t == 'TBeginBusy')
        st['rollbacks'] += sum(1 for (_, t) in info['events'] if t == 'TRollback')
        st['file_events'] += sum(1 for (_, t) in info['events'] if t in ('TCreate', 'TRemove', 'TOpenRead', 'TFetchRead'))
        st['timeouts'] += sum(1 for row in info['seen'] for x in row if x == 'XTimeout')
        st['clients'][str(len(programs))] = st['clients'].get(str(len(programs)), 0) + 1
        terms.append(term)
        infos.append(info)
        cases.append({'check': 'schedule-correspondence', 'label': nm, 'programs': programs, 'setup': setup, 'schedule': r['schedule_used'],
                      'mode': mode, 'settings': SETTINGS})
    codes, errors = schedcorr.evaluate('c05sc', terms)
    for e in errors[:2]:
        res.disagreements.append(fw.Violation('model-eval', 'schedule correspondence could not be evaluated: ' + e[-300:], {}, 'correspondence'))
    bad = [i for i, c in enumerate(codes) if c != -1]
    res.traces_validated += len(terms) - len(bad)
    st['agree'] = len(terms) - len(bad)
    for i in bad[:3]:
        res.disagreements.append(fw.Violation('schedule_correspondence', 'machine and implementation differ under the same schedule: '
                                              + schedcorr.explain(codes[i], infos[i]),
                                              dict(cases[i], events=infos[i]['events'], returned=infos[i]['seen'], code=codes[i]), 'correspondence'))
    res.extra['schedule_correspondence'] = st


def correspondence(ctx, res, trace_records):
    """Trace correspondence with the micro-step machine (coq/model/Conc.v): (a) the event sequence of every
    completed top-level call must be a path of the stage automaton that simulates the machine
    (ConcTrace.accepts; proofs/ConcTraceFacts.step_is_transition), (b) the merged log must respect the lock
    discipline the machine proves (one client between BEGIN and COMMIT/ROLLBACK at a time; table writes only
    inside the writer's own transaction)."""
    import tracecorr
    traces = []
    for ri, rec in enumerate(trace_records):
        if rec.get('kind', 'cache') != 'cache':
            continue
        for recs in rec['calls']:
            for c in recs:
                if c.get('depth', 0) or c.get('op') in tracecorr.SKIP_OPS or 'events' not in c:
                    continue
                if c.get('op') in ('begin_block', 'end_block', 'raise_in_block', 'reopen') or c.get('op') in concdrv.ITER_OPS:
                    continue
                tags = tracecorr.tags_from_shorts(c['events'], timed_out=(c.get('exc') == 'Timeout'))
                traces.append(((ri, c.get('client'), c.get('index'), c.get('op'), c['events']), tags, False))
        for prob in tracecorr.lock_discipline(rec['log'], rec['calls'])[:1]:
            res.disagreements.append(fw.Violation('lock_discipline', prob, {'programs': rec['programs'], 'schedule': rec['schedule_used'][:200],
                                                                           'mode': rec['mode']}, 'correspondence'))
    if len(traces) > 6000:
        traces = ctx.rng.sample(traces, 6000)
    bad, errors = tracecorr.check_traces('c05tr', traces)
    for e in errors:
        res.disagreements.append(fw.Violation('model-eval', 'stage automaton evaluation failed: ' + e[-300:], {}, 'correspondence'))
    res.traces_validated += len(traces) - len(bad)
    for t in bad[:3]:
        res.disagreements.append(fw.Violation('stage_order', 'the event sequence of %s is not a path of the stage machine: %s' % (t[0][3], t[0][4]),
                                              {'record': t[0][0], 'client': t[0][1], 'call': t[0][2], 'events': t[0][4], 'tags': t[1]}, 'correspondence'))


def search(ctx, broken):
    return run(ctx, big=True)


def replay(payload):
    case = payload.get('case', {})
    if case.get('check') in ('fresh_sequential', 'fresh_concurrent'):
        ctx = fw.Ctx('C05', 'quick', 1)
        try:
            if case['check'] == 'fresh_sequential':
                problems = fresh_sequential_case(ctx, case['kind'], case['shards'], case['programs'], case['seeds'])
            else:
                problems = []
                for _ in range(5):      # free-running processes: repeat
                    problems = problems or fresh_concurrent_case(ctx, case['kind'], case['shards'], case['nproc'], case['nincr'], case['nadd'], case['seeds'])
            for sig, desc in problems:
                print(sig, desc)
            return not problems
        finally:
            ctx.cleanup()
    if case.get('check') == 'key_pickling_overlap':
        d = tempfile.mkdtemp(prefix='c05r-')
        env = KPEnv(d, case['container'])
        try:
            problems, info = pickling_overlap_case(env, case)
            print('suspended inside pickling: %s' % info.get('reached'))
            for l in info.get('log', []):
                print('  ' + l)
            for sig, desc in problems:
                print(sig, desc)
            return not problems
        finally:
            env.close()
            shutil.rmtree(d, ignore_errors=True)
    if case.get('check') != 'schedule':
        print(payload)
        return True
    ctx = fw.Ctx('C05', 'quick', 1)
    try:
        res = fw.Result()
        stats = new_stats()
        viol = one_case(ctx, res, stats, case['programs'], case['setup'], case['schedule'], case['mode'], 'replay',
                        driver=case.get('driver', 'thread'), expect=case.get('expect'))
        t = TRACE_RECORDS[-1]
        for recs in t['calls']:
            for rec in recs:
                print('client %d call %d: %s %s -> %s   steps %s..%s' % (rec['client'], rec['index'], rec['op'],
                      {k: v for k, v in rec['call'].items() if k != 'op'}, rec.get('result', rec.get('exc')), rec['first'], rec['last']))
        print('monitor:', viol)
        return not viol
    finally:
        ctx.cleanup()
