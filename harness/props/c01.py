"""C01 -- stored values come back identical, whatever their type, size or storage path."""
import io
import math
import os
import pickle
import sqlite3
import zlib
import json
import time as _time

import fw
import instr
import val
from instr import core, diskcache
from val import Stream, same

ID = 'C01'
COQ_PROP = 'C01'
LEVEL = 'proof'
TRANSLATE = ['disk', 'sql', 'persistent', 'fanout', 'django']      # sql: the paths of Cache.set/add/push and _transact a value travels through; persistent: Deque / Index element access
TRUSTED = [
    'coq/base/Val.v: CPython sqlite3 binding (int64 range, NaN->NULL, lone surrogates rejected) and column decoding; coq/base/DiskBase.v: POSIX text-mode newline semantics of open(); both hand-written, compared with the implementation on every case of this run',
    'codec hypotheses (Section-free, explicit premises of the theorems): pickle.load(pickle.dumps(v, protocol)) = v; json/zlib round trip for JSONDisk; UTF-8 is injective on text without lone surrogates. Checked on every generated value',
]
ASSUMPTIONS = ['file names are fresh (16 random bytes)', 'POSIX (os.linesep == "\\n")',
               'overlapping stores: the model store/fetch is a function of one value; that two stores through one shared Disk object do not '
               'interfere is checked by the overlapping_stores monitor only (threads and re-entrant pickling hooks), not proved',
               'counters: that the number incr / decr returns is the value stored from then on (or the call raises and the previous number stays) is decided by '
               'the counters monitor only; the model store/fetch has no read-modify-write entry point',
               'later lookups: that a lookup is independent of what the caller did to the objects of earlier lookups / stores (the model fetch is a function of the '
               'row and the file alone) is decided by the mutated_results monitor only',
               'rolled-back blocks: that a transact() block left by an exception leaves every stored value (row AND value file) as it was is decided by the '
               'rolled_back_removals monitor only; the model store/fetch has no transaction blocks']

BIG = 2 ** 15


# Picklable values whose CLASS is part of the value: instances of user subclasses of the builtin types the storage layer treats
# specially (str / bytes / int / float) and of the builtin containers.  "An equal value of the same type" means the same class.
class SubStr(str):
    """a str subclass carrying meaning in its type (a markup-safe string, an enum-like token)"""


class SubBytes(bytes):
    pass


class SubInt(int):
    pass


class SubFloat(float):
    pass


class SubTuple(tuple):
    pass


class SubList(list):
    pass


class SubDict(dict):
    pass


class MarkedStr(str):
    """a str subclass with instance state: equal only when text AND mark are equal"""

    def __new__(cls, text='', mark=None):
        self = str.__new__(cls, text)
        self.mark = mark
        return self

    def __eq__(self, o):
        return type(o) is MarkedStr and str.__eq__(self, o) and getattr(o, 'mark', None) == self.mark

    def __ne__(self, o):
        return not self.__eq__(o)

    def __hash__(self):
        return str.__hash__(self)

    def __reduce_ex__(self, protocol):
        return (MarkedStr, (str(self), self.mark))


def subclass_values(m):
    """subclass instances on both sides of the file threshold m (text / blob kept in the row vs. written to a value file)"""
    out = []
    for n in sorted({0, 3, max(0, m - 1), m, m + 1}):
        out.append(SubStr('s' * n))
        out.append(SubBytes(b'\x00\xff' * (n // 2) + b'z' * (n % 2)))
    out += [SubStr('line\r\nbreak\rx' * (m // 14 + 1)), MarkedStr('m' * (m + 1), mark=('k', 1)), MarkedStr('', mark=None),
            SubInt(7), SubInt(-2 ** 63), SubInt(2 ** 64), SubFloat(1.5), SubFloat(-0.0), SubFloat('inf'),
            SubTuple((1, 'a', SubStr('in'))), SubList([1, [2], SubBytes(b'in')]), SubDict({'k': SubInt(1), 'z': None}),
            (SubStr('a' * m), SubBytes(b'b' * m))]
    return out


def values_for(m, thorough):
    """Alphabet of the property's quantifier, lengths around min_file_size m."""
    out = []
    for z in (0, 1, -1, 2 ** 31, -2 ** 31, 2 ** 53, 2 ** 53 + 1, -2 ** 53 - 1, 2 ** 63 - 1, -2 ** 63, 2 ** 63, -2 ** 63 - 1, 2 ** 64, 10 ** 30):
        out.append(z)
    for f in (0.0, -0.0, 1.0, -1.5, float('inf'), float('-inf'), float('nan'), 5e-324, 2.0 ** 53, 2.0 ** 53 + 2, 1e308, 0.1):
        out.append(f)
    chars = ['a', '\r', '\n', '\x00', '\x85', ' ', '\U0001F600', '\ud800']
    lens = sorted(set(max(0, m + d) for d in (-2, -1, 0, 1, 2)) | {0, 3})
    for n in lens:
        out.append('a' * n)
        out.append(bytes([65]) * n)
        if n >= 3:
            for ch in chars[1:]:
                out.append('a' * (n - 3) + 'a' + ch + 'b')
            out.append('a' * (n - 3) + '\r\n' + 'b')
            out.append(bytes(range(256)) * (n // 256) + bytes(range(n % 256)))
            out.append(b'a' * (n - 3) + b'\r\n\x00')
    out += [None, True, False, (), (1, 2.0, 'x', b'y', None), [1, [2, [3]]], {'k': [1, 2], 'z': None},
            frozenset({1, 2}), (float('nan'),), 'x' * 5 + '\r' + 'y' * 5, ('a' * (m + 1),), [b'\r\n' * (m // 2 + 1)]]
    out += subclass_values(m)
    for n in (0, 1, 100, max(0, m - 1), m, m + 1):
        out.append(Stream(bytes((i * 7) % 256 for i in range(n))))
    for n, burst in ((100, 7), (1000, 64), (m + 5, 1)):
        out.append(Stream(bytes((i * 11) % 256 for i in range(n)), burst=burst))     # short-reading raw streams
    for n in (0, 50, m + 3):
        out.append(Stream(bytes((i * 13) % 256 for i in range(n)), osfile=True))     # partly consumed buffered OS files
    if thorough and m == BIG:
        for n in (2 ** 22 - 1, 2 ** 22, 2 ** 22 + 1):
            out.append(Stream(b'\xab' * n))
    return out


def json_ok(v):
    if isinstance(v, Stream):
        return True
    try:
        return val.same(json.loads(json.dumps(v)), v)
    except Exception:
        return False


def classify(v, accessor, file_backed, diskname, got):
    if isinstance(v, float) and v != v:
        return 'nan_to_none'
    if type(v) is str and type(got) is str and '\r' in v and file_backed:
        return 'text_cr_translated'
    if diskname == 'JSONDisk' and isinstance(v, Stream):
        return 'json_stream_plain_get'
    return 'value_altered:%s:%s' % (type(v).__name__, accessor)


_PLAIN_TYPES = (int, float, str, bytes, bool, type(None), tuple, list, dict, set, frozenset, Stream)


def short(v):
    r = repr(v)
    r = r if len(r) < 80 else r[:40] + '...(%d chars)' % len(r)
    if type(v) not in _PLAIN_TYPES and isinstance(v, _PLAIN_TYPES):
        r = '%s(%s)' % (type(v).__name__, r)          # an instance of a subclass of a builtin type: the class is part of the value
    return r


def pickle_hex(v):
    """replayable form of a value: hex of its pickle, zlib-compressed ('z:' prefix) when long; None when still too long"""
    h = pickle.dumps(v, protocol=4)
    if len(h) <= 2000:
        return h.hex()
    z = zlib.compress(h, 9)
    return 'z:' + z.hex() if len(z) <= 4000 else None


def unpickle_hex(h):
    if h.startswith('z:'):
        return pickle.loads(zlib.decompress(bytes.fromhex(h[2:])))
    return pickle.loads(bytes.fromhex(h))


def observe_row(directory, key):
    con = sqlite3.connect(os.path.join(directory, 'cache.db'))
    try:
        rows = con.execute('SELECT size, mode, filename, value FROM Cache WHERE key = ? AND raw = 1', (key,)).fetchall()
    finally:
        con.close()
    return rows[0] if rows else None


def run_config(ctx, res, m, protocol, diskcls, thorough, coqcases, stats):
    d = ctx.scratch('c01')
    diskname = diskcls.__name__
    cache = diskcache.Cache(d, disk=diskcls, disk_min_file_size=m, disk_pickle_protocol=protocol, eviction_policy='none')
    d2 = ctx.scratch('c01dq')
    dq = diskcache.Deque.fromcache(diskcache.Cache(d2, disk=diskcls, disk_min_file_size=m, disk_pickle_protocol=protocol, eviction_policy='none'))
    d3 = ctx.scratch('c01ix')
    ix = diskcache.Index.fromcache(diskcache.Cache(d3, disk=diskcls, disk_min_file_size=m, disk_pickle_protocol=protocol, eviction_policy='none'))
    vals = values_for(m, thorough)
    if not thorough and m == BIG:
        vals = [v for i, v in enumerate(vals) if not isinstance(v, (str, bytes)) or len(v) < 10 or i % 3 == ctx.seed % 3]
    for vi, v in enumerate(vals):
        if diskname == 'JSONDisk' and not json_ok(v):
            continue
        is_stream = isinstance(v, Stream)
        key = 'k%d' % vi
        case = {'check': 'roundtrip', 'disk': diskname, 'min_file_size': m, 'protocol': protocol, 'value': short(v),
                'value_pickle_hex': None if is_stream else pickle_hex(v), 'stream_len': len(v.data) if is_stream else None,
                'stream_osfile': bool(is_stream and v.osfile), 'stream_burst': v.burst if is_stream else 0}

        def put(c, k):
            if is_stream:
                return c.set(k, v.open(), read=True)
            return c.set(k, v)
        try:
            put(cache, key)
            stored = True
        except Exception as e:
            stored = False
            stats['rejected'][type(e).__name__] = stats['rejected'].get(type(e).__name__, 0) + 1
            # rejected with an exception: allowed; the key must not exist afterwards
            if key in cache:
                res.violations.append(fw.Violation('rejected_but_stored', 'store raised %r but the key exists' % e, case))
        want = v.data if is_stream else v
        kind = type(v).__name__
        stats['kinds'][kind] = stats['kinds'].get(kind, 0) + 1
        row = observe_row(d, (diskcls(d).put(key)[0] if diskname == 'JSONDisk' else key)) if stored else None
        file_backed = bool(row and row[2] is not None)
        stats['file_backed'] += int(file_backed)
        res.count(['rt', diskname, m, protocol, short(v)], nontrivial=True)
        got_plain = None
        if stored:
            accessors = []
            accessors.append(('get', lambda: cache.get(key)))
            accessors.append(('getitem', lambda: cache[key]))
            if file_backed and row[1] == 2 and (is_stream or (diskname == 'Disk' and isinstance(v, bytes))):
                def rd():
                    with cache.read(key) as fh:
                        return fh.read()
                accessors.append(('read', rd))

            def viapop():
                put(cache, key + 'p')
                return cache.pop(key + 'p')
            accessors.append(('pop', viapop))

            def viapeekitem():
                put(cache, key + 'z')
                r = cache.peekitem()[1]
                del cache[key + 'z']
                return r
            accessors.append(('peekitem', viapeekitem))

            def viaqueue():
                if is_stream:
                    cache.push(v.open(), prefix='q', read=True)
                else:
                    cache.push(v, prefix='q')
                a = cache.peek(prefix='q')[1]
                b = cache.pull(prefix='q')[1]
                return (a, b)
            accessors.append(('peek+pull', viaqueue))
            if not is_stream and diskname == 'Disk':
                def viadeque():
                    dq.append(v)
                    a = dq[len(dq) - 1]
                    b = dq.pop()
                    return (a, b)
                accessors.append(('deque[]+pop', viadeque))
            if not is_stream:
                def viaindex():
                    ix[key] = v
                    a = ix[key]
                    b = ix.pop(key)
                    return (a, b)
                accessors.append(('index[]+pop', viaindex))
            for name, f in accessors:
                stats['accessor_calls'] += 1
                try:
                    got = f()
                except Exception as e:  # noqa
                    got = ('<raised>', type(e).__name__)
                    ok = False
                else:
                    if isinstance(got, tuple) and name in ('peek+pull', 'deque[]+pop', 'index[]+pop'):
                        ok = all(same(g, want) for g in got)
                    else:
                        ok = same(got, want)
                if name == 'get':
                    got_plain = got
                if not ok:
                    c2 = dict(case)
                    c2.update({'accessor': name, 'got': short(got), 'file_backed': file_backed})
                    res.violations.append(fw.Violation(classify(v, name, file_backed, diskname, got),
                                                       'stored %s came back as %s through %s' % (short(v), short(got), name), c2))
        # correspondence case (Disk only for the row-level comparison; JSONDisk through jstore/jfetch)
        coqcases.append((diskname, m, protocol, v, stored, row, got_plain, d))
        res.sample({'disk': diskname, 'min_file_size': m, 'protocol': protocol, 'value': short(v), 'stored': stored,
                    'row(size,mode,file?)': None if row is None else [row[0], row[1], row[2] is not None]})
    return cache, dq, ix


def file_term(directory, row):
    if row is None or row[2] is None:
        return 'None'
    with open(os.path.join(directory, row[2]), 'rb') as f:
        data = f.read()
    if row[1] == 3:
        return '(Some (FText %s))' % fw.cstr(data.decode('utf-8', 'surrogatepass'))
    return '(Some (FBytes %s))' % fw.cbytes(data)


def coq_check(case, disks):
    diskname, m, protocol, v, stored, row, got, directory = case
    vt = val.py_term(v)
    if diskname == 'JSONDisk' and not isinstance(v, Stream):
        jzb = zlib.compress(json.dumps(v).encode('utf-8'), 1)
        pk = b''
    else:
        jzb = b''
        pk = b'' if isinstance(v, Stream) else pickle.dumps(v, protocol=protocol)
    read = isinstance(v, Stream)
    head = ('let v := %s in let pk := %s in let jzb := %s in '
            'let c := {| pkk := fun _ => []; pkv := fun _ => pk; unpk := fun b => if zlist_eqb b pk then Some v else None |} in '
            'let j := {| jz := fun _ => jzb; unjz := fun b => if %s && zlist_eqb b jzb then Some v else None |} in '
            % (vt, fw.cbytes(pk), fw.cbytes(jzb), fw.cbool(not isinstance(v, Stream))))
    st = 'store c' if diskname == 'Disk' else 'jstore c j'
    fe = 'fetch c' if diskname == 'Disk' else 'jfetch c j'
    if not stored:
        return head + 'match %s %s v %s with StRaise => true | StOk _ => false end' % (st, fw.cz(m), fw.cbool(read))
    if isinstance(got, tuple) and got and got[0] == '<raised>':
        gt = 'FBad'
    elif got is None and v is not None:
        gt = 'FPyNone'
    else:
        gt = '(FVal %s)' % val.py_term(got)
    return head + ('match %s %s v %s with StRaise => false | StOk s => (s_size s =? %s) && (s_mode s =? %s) && '
                   'fcontent_eqb (s_file s) %s && sql_same (s_col s) %s && '
                   'fetched_eqb (%s (s_mode s) (s_file s) (s_col s) false) %s end'
                   % (st, fw.cz(m), fw.cbool(read), fw.cz(row[0]), fw.cz(row[1]), file_term(directory, row),
                      val.sql_term(row[3]), fe, gt))


def correspondence(ctx, res, coqcases, limit_big):
    small, big = [], []
    for c in coqcases:
        v = c[3]
        n = len(v.data) if isinstance(v, Stream) else (len(v) if isinstance(v, (str, bytes)) else 0)
        if n > 70000:
            continue
        (big if n > 4000 else small).append(c)
    if len(big) > limit_big:
        big = ctx.rng.sample(big, limit_big)
    cases = small + big
    checks = [coq_check(c, None) for c in cases]
    imports = ['DCPrelude', 'Val', 'DiskBase', 'Gen_Disk', 'Disk']
    bad, errors = fw.coq_mismatches('c01', imports, '', checks[:len(small)], chunk=100)
    bad2, errors2 = fw.coq_mismatches('c01big', imports, '', checks[len(small):], chunk=1)
    bad += [len(small) + i for i in bad2]
    errors += errors2
    res.traces_validated += len(checks) - len(bad)
    for e in errors:
        res.disagreements.append(fw.Violation('model-eval', 'model evaluation failed: ' + e[-400:], {}, 'correspondence'))
    seen = set()
    for i in bad:
        diskname, m, protocol, v, stored, row, got, _ = cases[i]
        key = (diskname, type(v).__name__, stored)
        if key in seen:
            continue
        seen.add(key)
        res.disagreements.append(fw.Violation(
            'store_fetch', 'model store/fetch disagrees with Disk on %s' % short(v),
            {'disk': diskname, 'min_file_size': m, 'protocol': protocol, 'value': short(v), 'stored': stored,
             'row': None if row is None else [row[0], row[1], row[2] is not None, short(row[3])], 'got': short(got)}, 'correspondence'))
    res.extra['model_cases'] = len(checks)


def faulted_writes(ctx, res, stats):
    """one transient OSError at the k-th write()/close() of a value file: the store must either raise and
    leave the key absent, or succeed and give the identical value back"""
    import sched
    vals = [b'B' * 3000 + b'\n' + b'C' * 3000 + b'\n' + b'tail', 'line one\n' * 300 + 'end', {'k': ['v' * 50] * 40},
            Stream(bytes(range(256)) * 40)]
    for vi, v in enumerate(vals):
        for k in range(1, 5):
            d = ctx.scratch('c01f')
            cache = diskcache.Cache(d, disk_min_file_size=64)
            counter = {'n': 0, 'fired': False}

            def before(ev, k=k, counter=counter):
                if ev.kind == 'file' and ev.what in ('write', 'close') and not counter['fired']:
                    counter['n'] += 1
                    if counter['n'] == k:
                        counter['fired'] = True
                        raise OSError('injected transient fault')
            tr = sched.Tracer(before=before)
            raised = False
            with tr:
                tr.enable(True)
                try:
                    if isinstance(v, Stream):
                        cache.set('k', v.open(), read=True)
                    else:
                        cache.set('k', v)
                except OSError:
                    raised = True
                tr.enable(False)
            want = v.data if isinstance(v, Stream) else v
            stats['faulted_writes'] = stats.get('faulted_writes', 0) + 1
            res.count(['faultwrite', vi, k, raised], nontrivial=counter['fired'])
            try:
                if raised:
                    if 'k' in cache:
                        res.violations.append(fw.Violation('rejected_but_stored', 'a store that raised left the key present',
                                                           {'check': 'faulted_write', 'value': short(v), 'fault_at': k}))
                else:
                    got = cache.get('k')
                    if not same(got, want):
                        res.violations.append(fw.Violation('altered_after_write_fault', 'a transient write error was swallowed and the value came back as %s' % short(got),
                                                           {'check': 'faulted_write', 'value': short(v), 'fault_at': k}))
            except Exception as e:
                res.violations.append(fw.Violation('altered_after_write_fault', 'lookup after a faulted store raised %r' % e,
                                                   {'check': 'faulted_write', 'value': short(v), 'fault_at': k}))
            cache.close()


# ---------------------------------------------------------------------------------------------------------------
# Stores that overlap on ONE shared object (threads sharing a Cache / FanoutCache / Index, or a store issued while
# another value is being pickled): every key must still give back the value that was stored under it.

class _GateBase:
    """A picklable value that runs a one-shot hook while it is being pickled (i.e. inside Disk.store)."""
    hooks = {}

    def __init__(self, tag):
        self.tag = tag

    def _fire(self):
        h = _GateBase.hooks.pop(self.tag, None)
        if h is not None:
            h()

    def __eq__(self, o):
        return type(o) is type(self) and o.tag == self.tag

    def __hash__(self):
        return hash(self.tag)

    def __repr__(self):
        return '%s(%r)' % (type(self).__name__, self.tag)


class GateReduce(_GateBase):
    def __reduce__(self):
        self._fire()
        return (type(self), (self.tag,))


class GateReduceEx(_GateBase):
    def __reduce_ex__(self, protocol):
        self._fire()
        return (type(self), (self.tag,))


class GateState(_GateBase):
    def __getstate__(self):
        self._fire()
        return {'tag': self.tag}

    def __setstate__(self, st):
        self.tag = st['tag']


GATES = {'reduce': GateReduce, 'reduce_ex': GateReduceEx, 'getstate': GateState}

# value of the blocked store, around the gate object g (m = min_file_size of the container)
SHAPES = {
    'bare': lambda g, m: g,
    'list_mid': lambda g, m: ['head' * 10, 1, g, 2.5, 'tail'],
    'dict_last': lambda g, m: {'owner': 'A', 'n': -0.0, 'items': [('a', (1, 2.5, 'x'))], 'g': g},
    'tuple_first': lambda g, m: (g, b'bytes' * 20, None),
    'nested': lambda g, m: {'a': [(1, [g, 2 ** 70])], 'b': 'x' * 100},
    'large_before': lambda g, m: ['x\r\n' * (min(m, BIG) // 3 + 10), g, b'\x00' * 40],
    'twice': lambda g, m: [g, {'again': g}],
}

# value of the store that runs meanwhile (pickled and raw ones)
OTHERS = {
    'none': lambda m: None,
    'tuple': lambda m: (1, 2.0, 'x', b'y', None),
    'dict': lambda m: {'owner': 'B', 'items': [('b', (None, True))], 'n': 2 ** 70},
    'bigint': lambda m: 2 ** 64,
    'list_crlf': lambda m: [b'\r\n' * 50],
    'frozenset': lambda m: frozenset({1, 2}),
    'large_pickle': lambda m: ['y' * (min(m, BIG) + 10)],
    'gate_free': lambda m: [GateReduce('free'), GateState('free')],
    'bool': lambda m: True,
    'str': lambda m: 'plain text \r\n' * 3,
    'bytes': lambda m: b'\x00\xffplain bytes',
    'int': lambda m: 7,
    'float': lambda m: -0.0,
    'nan': lambda m: float('nan'),
}

SHARED_KINDS = ['Cache.set', 'Cache.add', 'Cache.push', 'FanoutCache1.set', 'FanoutCache2.set', 'FanoutCache2.add', 'Index.setitem']


class _Worker:
    """one persistent second thread per shared object (its own SQLite connection, the SAME Cache/Disk object)"""

    def __init__(self):
        import queue
        import threading
        self.q = queue.Queue()
        self.t = threading.Thread(target=self._loop, daemon=True)
        self.t.start()

    def _loop(self):
        while True:
            f = self.q.get()
            if f is None:
                return
            f()

    def submit(self, f):
        self.q.put(f)

    def stop(self):
        self.q.put(None)
        self.t.join(10)


class Shared:
    def __init__(self, directory, kind, m, protocol):
        kw = dict(disk_min_file_size=m, disk_pickle_protocol=protocol, eviction_policy='none')
        cont, self.op = kind.split('.')
        self.kind, self.cont = kind, cont.rstrip('0123456789')
        if cont == 'Cache':
            self.obj = diskcache.Cache(directory, **kw)
        elif cont.startswith('FanoutCache'):
            self.obj = diskcache.FanoutCache(directory, shards=int(cont[len('FanoutCache'):]), **kw)
        else:
            self.obj = diskcache.Index.fromcache(diskcache.Cache(directory, **kw))
        self.worker = _Worker()

    def store(self, k, v):
        o = self.obj
        if self.op == 'set':
            return o.set(k, v, retry=True)
        if self.op == 'add':
            return o.add(k, v, retry=True)
        if self.op == 'push':
            return o.push(v, prefix=k, retry=True)
        o[k] = v
        return True

    def absent(self, k):
        if self.op == 'push':
            return self.obj.peek(prefix=k, default=('<none>', '<none>')) == ('<none>', '<none>')
        return k not in self.obj

    def readers(self, k):
        o = self.obj
        if self.op == 'push':
            return [('peek', lambda: o.peek(prefix=k)[1]), ('pull', lambda: o.pull(prefix=k)[1])]
        if self.cont == 'Index':
            return [('index[]', lambda: o[k]), ('index.get', lambda: o.get(k)), ('index.pop', lambda: o.pop(k))]
        return [('get', lambda: o.get(k)), ('getitem', lambda: o[k]), ('pop', lambda: o.pop(k))]

    def close(self):
        self.worker.stop()
        (self.obj.cache if self.cont == 'Index' else self.obj).close()


_overlap_n = [0]


def overlap_case(env, p, m):
    """One scenario.  The store of value A (shape p['shape'] around a gate of kind p['gate']) is suspended INSIDE the
    pickling of A; meanwhile value B (p['other']) is stored completely through the same object -- by a second thread
    (p['mode'] == 'threads') or by the suspended thread itself (p['mode'] == 'reentrant').  Returns (problems, info)."""
    import threading
    _overlap_n[0] += 1
    n = _overlap_n[0]
    g = GATES[p['gate']]('g%d' % n)
    va = SHAPES[p['shape']](g, m)
    vb = OTHERS[p['other']](m)
    ka, kb = 'a%d' % n, 'b%d' % n
    box = {'fired': False, 'overlapped': False}
    done = threading.Event()

    def b_job():
        try:
            box['b_ret'] = env.store(kb, vb)
        except Exception as e:  # noqa
            box['b_exc'] = e
        finally:
            done.set()

    def hook():
        box['fired'] = True
        if p['mode'] == 'threads':
            env.worker.submit(b_job)
            box['overlapped'] = done.wait(10)
        else:
            b_job()
            box['overlapped'] = True

    _GateBase.hooks[g.tag] = hook
    try:
        box['a_ret'] = env.store(ka, va)
    except Exception as e:  # noqa
        box['a_exc'] = e
    finally:
        _GateBase.hooks.pop(g.tag, None)
    if not box['fired']:
        env.worker.submit(b_job)
    done.wait(60)
    problems = []
    for who, k, v in (('suspended', ka, va), ('meanwhile', kb, vb)):
        exc = box.get(who[0] == 's' and 'a_exc' or 'b_exc')
        ret = box.get(who[0] == 's' and 'a_ret' or 'b_ret')
        if exc is not None or ret is False:
            try:
                if not env.absent(k):
                    problems.append(('rejected_but_stored', 'the %s store raised %r / returned %r but its key exists' % (who, exc, ret)))
            except Exception as e:  # noqa
                problems.append(('rejected_but_stored', 'the %s store raised %r and looking its key up raised %r' % (who, exc, e)))
            continue
        for name, f in env.readers(k):
            try:
                got = f()
                ok = same(got, v)
            except Exception as e:  # noqa
                got, ok = ('<raised>', type(e).__name__, str(e)[:80]), False
            if not ok:
                # control: the same value stored alone (its hook has fired, so nothing overlaps now); if that is altered too, the
                # overlap is not the cause and the case is reported under the signature of the sequential monitor
                try:
                    env.store(k + 'c', v)
                    alone = env.readers(k + 'c')[0][1]()
                    alone_ok = same(alone, v)
                except Exception:  # noqa
                    alone_ok = False
                if not alone_ok:
                    problems.append((classify(v, name, True, 'Disk', got), 'stored %s came back as %s through %s (with or without an overlapping store)'
                                     % (short(v), short(got), name)))
                    break
                problems.append(('store_overlap:%s:%s' % (p['mode'], env.cont),
                                 'the value of the %s store (%s) came back through %s as %s; the other store put %s under a different key of the same %s object'
                                 % (who, short(v), name, short(got), short(vb if who[0] == 's' else va), env.kind)))
                break
    return problems, box


def overlapping_stores(ctx, res, stats, thorough):
    protos = list(range(0, pickle.HIGHEST_PROTOCOL + 1)) if thorough else [0, 2, pickle.HIGHEST_PROTOCOL]
    shapes, gates, others = sorted(SHAPES), sorted(GATES), sorted(OTHERS)
    st = stats.setdefault('overlapping_stores', {'scenarios': 0, 'overlapped': 0, 'gate_not_reached': 0})
    rot = ctx.seed
    for kind in SHARED_KINDS:
        for m in (0, 64, BIG):
            for protocol in protos:
                env = Shared(ctx.scratch('c01sh'), kind, m, protocol)
                try:
                    for si, shape in enumerate(shapes):
                        for gi, gate in enumerate(gates):
                            if thorough:
                                combos = [(mode, o) for mode in ('threads', 'reentrant') for o in others]
                            else:
                                rot += 1
                                combos = [('threads', others[rot % len(others)]), ('reentrant', others[(rot * 5 + 3) % len(others)])]
                            for mode, other in combos:
                                p = {'check': 'overlapping_stores', 'kind': kind, 'min_file_size': m, 'protocol': protocol,
                                     'mode': mode, 'shape': shape, 'gate': gate, 'other': other}
                                problems, box = overlap_case(env, p, m)
                                st['scenarios'] += 1
                                st['overlapped'] += int(bool(box['overlapped']))
                                st['gate_not_reached'] += int(not box['fired'])
                                res.count(['overlap', kind, m, protocol, mode, shape, gate, other], nontrivial=bool(box['overlapped']))
                                for sig, desc in problems:
                                    res.violations.append(fw.Violation(sig, desc, dict(p)))
                finally:
                    env.close()
    res.sample({'check': 'overlapping_stores', 'kinds': SHARED_KINDS, 'scenarios': st['scenarios'], 'overlapped': st['overlapped']})


# ---------------------------------------------------------------------------------------------------------------
# Every storing entry point x every option x every accessor.  The property quantifies over "whatever value is stored ... given as an
# object or as a readable binary stream" and "any accessor": it does not matter WHICH method of WHICH container took the value in.

def _django_cache():
    from django.conf import settings
    if not settings.configured:
        settings.configure()
    from diskcache.djangocache import DjangoCache
    return DjangoCache


def ep_values(m):
    """representative alphabet for the entry-point monitor: every class of value on both sides of the threshold m"""
    out = [0, -1, 2 ** 63 - 1, 2 ** 63, -10 ** 30, -0.0, 1.5, float('inf'), float('nan'), None, True, (), (1, 2.0, 'x', b'y', None),
           [1, [2, [3]]], {'k': [1, 2], 'z': None}, frozenset({1, 2}), ('a' * (m + 1),), [b'\r\n' * (m // 2 + 1)], '\ud800']
    for n in sorted({0, max(0, m - 1), m, m + 1}):
        out.append('a' * n)
        out.append(bytes((i * 5) % 256 for i in range(n)))
    out.append('x' * max(0, m - 2) + '\r\ny\r')
    out.append('\x00\x85' + 'z' * m)
    out += subclass_values(m)
    for n in sorted({0, 1, 100, max(0, m - 1), m, m + 1}):
        out.append(Stream(bytes((i * 7) % 256 for i in range(n))))
    out.append(Stream(bytes((i * 11) % 256 for i in range(m + 5)), burst=7 if m < 100 else 4096))
    return out


def ep_options(i):
    """rotating option combinations of the storing methods (expiry far in the future; tag; waiting for the lock or not)"""
    return {'expire': (None, 3600.0, 86400)[i % 3], 'tag': (None, 'tg')[(i // 3) % 2], 'retry': bool((i // 6) % 2), 'version': (None, 3)[(i // 2) % 2]}


def _handle_value(r):
    """an accessor asked for a read handle returns an open binary file for file-backed binary values, the value itself otherwise"""
    if isinstance(r, io.BufferedReader):
        with r:
            return r.read()
    return r


def _kv(o, k, v, rd, op):
    return dict(expire=op['expire'], read=rd, tag=op['tag'], retry=op['retry'])


def _dj_kw(op, rd):
    return dict(timeout=op['expire'], version=op['version'], read=rd, tag=op['tag'], retry=op['retry'])


class _OnlyValue:
    """default marker that no accessor may return"""

    def __repr__(self):
        return '<missing>'


_MISSING = _OnlyValue()

# storers: name -> (accepts, f(o, k, v, rd, op)); accepts in 'both' (objects and streams), 'plain', 'int'
# readers: (name, f(o, k, op), destructive)
EP_TABLE = {}


def _ep_cache_like(fanout):
    st = {
        'set': ('both', lambda o, k, v, rd, op: o.set(k, v, **_kv(o, k, v, rd, op))),
        'set_positional': ('both', lambda o, k, v, rd, op: o.set(k, v, op['expire'], rd, op['tag'], op['retry'])),
        'add': ('both', lambda o, k, v, rd, op: o.add(k, v, **_kv(o, k, v, rd, op))),
        'add_positional': ('both', lambda o, k, v, rd, op: o.add(k, v, op['expire'], rd, op['tag'], op['retry'])),
        'setitem': ('plain', lambda o, k, v, rd, op: o.__setitem__(k, v)),
        'incr': ('int', lambda o, k, v, rd, op: o.incr(k, v, default=0, retry=op['retry'])),
        'decr': ('int', lambda o, k, v, rd, op: o.decr(k, -v, default=0, retry=op['retry'])),
    }
    rd = [
        ('get', lambda o, k, op: o.get(k, _MISSING), False),
        ('get(read=True)', lambda o, k, op: _handle_value(o.get(k, _MISSING, read=True)), False),
        ('get(expire_time,tag)', lambda o, k, op: o.get(k, _MISSING, expire_time=True, tag=True)[0], False),
        ('get(retry=True)', lambda o, k, op: o.get(k, default=_MISSING, retry=True), False),
        ('getitem', lambda o, k, op: o[k], False),
        ('read', lambda o, k, op: _handle_value(o.read(k)), False),
        ('pop', lambda o, k, op: o.pop(k, _MISSING), True),
        ('pop(expire_time,tag)', lambda o, k, op: o.pop(k, _MISSING, expire_time=True, tag=True)[0], True),
    ]
    if not fanout:
        rd.insert(0, ('peekitem', lambda o, k, op: dict([o.peekitem()])[k], False))
        rd.insert(1, ('peekitem(expire_time,tag)', lambda o, k, op: dict([o.peekitem(expire_time=True, tag=True)[0]])[k], False))
    return {'storers': st, 'readers': rd, 'absent': lambda o, k, op: k not in o,
            'remove': lambda o, k, op: o.pop(k, None)}


EP_TABLE['Cache'] = _ep_cache_like(False)
EP_TABLE['FanoutCache'] = _ep_cache_like(True)
EP_TABLE['Cache.queue'] = {
    'storers': {
        'push': ('both', lambda o, k, v, rd, op: o.push(v, prefix=k, expire=op['expire'], read=rd, tag=op['tag'], retry=op['retry'])),
        'push_front': ('both', lambda o, k, v, rd, op: o.push(v, k, 'front', op['expire'], rd, op['tag'], op['retry'])),
    },
    'readers': [
        ('peek', lambda o, k, op: o.peek(prefix=k, default=(None, _MISSING))[1], False),
        ('peek(back,expire_time,tag)', lambda o, k, op: o.peek(k, (None, _MISSING), 'back', True, True)[0][1], False),
        ('pull', lambda o, k, op: o.pull(prefix=k, default=(None, _MISSING))[1], True),
        ('pull(back,expire_time,tag)', lambda o, k, op: o.pull(k, (None, _MISSING), 'back', True, True)[0][1], True),
    ],
    'absent': lambda o, k, op: o.peek(prefix=k, default=(None, _MISSING))[1] is _MISSING,
    'remove': lambda o, k, op: o.pull(prefix=k),
}
EP_TABLE['DjangoCache'] = {
    'storers': {
        'set': ('both', lambda o, k, v, rd, op: o.set(k, v, **_dj_kw(op, rd))),
        'add': ('both', lambda o, k, v, rd, op: o.add(k, v, **_dj_kw(op, rd))),
        'set_many': ('plain', lambda o, k, v, rd, op: o.set_many({k: v}, timeout=op['expire'], version=op['version'])),
        'get_or_set': ('plain', lambda o, k, v, rd, op: o.get_or_set(k, v, timeout=op['expire'], version=op['version'])),
        'get_or_set(callable)': ('plain', lambda o, k, v, rd, op: o.get_or_set(k, lambda: v, timeout=op['expire'], version=op['version'])),
    },
    'readers': [
        ('get', lambda o, k, op: o.get(k, _MISSING, version=op['version']), False),
        ('get(read=True)', lambda o, k, op: _handle_value(o.get(k, _MISSING, version=op['version'], read=True)), False),
        ('get(expire_time,tag,retry)', lambda o, k, op: o.get(k, _MISSING, op['version'], False, True, True, True)[0], False),
        ('read', lambda o, k, op: _handle_value(o.read(k, version=op['version'])), False),
        ('get_many', lambda o, k, op: o.get_many([k], version=op['version']).get(k, _MISSING), False),
        ('get_or_set(existing)', lambda o, k, op: o.get_or_set(k, _MISSING, version=op['version']), False),
        ('pop', lambda o, k, op: o.pop(k, _MISSING, version=op['version']), True),
        ('pop(expire_time,tag)', lambda o, k, op: o.pop(k, _MISSING, op['version'], True, True)[0], True),
        ('incr_version+get', lambda o, k, op: (o.incr_version(k, version=op['version'] or 1),
                                                o.pop(k, _MISSING, version=(op['version'] or 1) + 1))[1], True),
    ],
    'absent': lambda o, k, op: not o.has_key(k, version=op['version']),
    'remove': lambda o, k, op: o.delete(k, version=op['version']),
}
EP_TABLE['Index'] = {
    'storers': {
        'setitem': ('plain', lambda o, k, v, rd, op: o.__setitem__(k, v)),
        'setdefault': ('plain', lambda o, k, v, rd, op: o.setdefault(k, v)),
        'update': ('plain', lambda o, k, v, rd, op: o.update({k: v})),
        'update(pairs)': ('plain', lambda o, k, v, rd, op: o.update([(k, v)])),
        'fromcache': ('plain', lambda o, k, v, rd, op: type(o).fromcache(o.cache, {k: v})),
    },
    'readers': [
        ('getitem', lambda o, k, op: o[k], False),
        ('get', lambda o, k, op: o.get(k, _MISSING), False),
        ('setdefault(existing)', lambda o, k, op: o.setdefault(k, _MISSING), False),
        ('values', lambda o, k, op: list(o.values())[-1], False),
        ('items', lambda o, k, op: dict(o.items())[k], False),
        ('peekitem', lambda o, k, op: dict([o.peekitem()])[k], False),
        ('pop', lambda o, k, op: o.pop(k, _MISSING), True),
        ('popitem', lambda o, k, op: dict([o.popitem()])[k], True),
    ],
    'absent': lambda o, k, op: k not in o,
    'remove': lambda o, k, op: o.pop(k, None),
}
EP_TABLE['Index.queue'] = {
    'storers': {
        'push': ('plain', lambda o, k, v, rd, op: o.push(v, prefix=k)),
        'push_front': ('plain', lambda o, k, v, rd, op: o.push(v, k, 'front')),
    },
    'readers': [
        ('cache.peek', lambda o, k, op: o.cache.peek(prefix=k, default=(None, _MISSING))[1], False),
        ('pull', lambda o, k, op: o.pull(prefix=k, default=(None, _MISSING))[1], True),
        ('pull(back)', lambda o, k, op: o.pull(k, (None, _MISSING), 'back')[1], True),
    ],
    'absent': lambda o, k, op: o.cache.peek(prefix=k, default=(None, _MISSING))[1] is _MISSING,
    'remove': lambda o, k, op: o.pull(prefix=k),
}


def _dq_setitem(o, k, v, rd, op):
    o.append('placeholder')
    try:
        o[len(o) - 1] = v
    except BaseException:
        o.pop()
        raise


EP_TABLE['Deque'] = {
    # a Deque has no keys: the monitor keeps it empty between cases, so the stored element is the only one
    'storers': {
        'append': ('plain', lambda o, k, v, rd, op: o.append(v)),
        'appendleft': ('plain', lambda o, k, v, rd, op: o.appendleft(v)),
        'extend': ('plain', lambda o, k, v, rd, op: o.extend([v])),
        'extendleft': ('plain', lambda o, k, v, rd, op: o.extendleft(iter([v]))),
        'iadd': ('plain', lambda o, k, v, rd, op: o.__iadd__([v])),
        'setitem': ('plain', _dq_setitem),
        'fromcache': ('plain', lambda o, k, v, rd, op: type(o).fromcache(o.cache, [v])),
    },
    'readers': [
        ('[0]', lambda o, k, op: o[0], False),
        ('[-1]', lambda o, k, op: o[-1], False),
        ('peek', lambda o, k, op: o.peek(), False),
        ('peekleft', lambda o, k, op: o.peekleft(), False),
        ('iter', lambda o, k, op: list(o)[0], False),
        ('reversed', lambda o, k, op: list(reversed(o))[0], False),
        ('copy', lambda o, k, op: _dq_copy_first(o), False),
        ('rotate+[0]', lambda o, k, op: (o.rotate(1), o[0])[1], False),
        ('reverse+[0]', lambda o, k, op: (o.reverse(), o[0])[1], False),
        ('pop', lambda o, k, op: o.pop(), True),
        ('popleft', lambda o, k, op: o.popleft(), True),
    ],
    'absent': lambda o, k, op: len(o) == 0,
    'remove': lambda o, k, op: o.clear(),
}


def _dq_copy_first(o):
    c = o.copy()            # a second handle on the same directory
    try:
        return c[0]
    finally:
        c.cache.close()


def ep_make(ctx_scratch, container, m, protocol):
    """-> (object driven by the table, table name(s), closer)"""
    kw = dict(disk_min_file_size=m, disk_pickle_protocol=protocol, eviction_policy='none')
    if container == 'Cache':
        o = diskcache.Cache(ctx_scratch('c01ep'), **kw)
        return o, ['Cache', 'Cache.queue'], o.close
    if container == 'FanoutCache':
        o = diskcache.FanoutCache(ctx_scratch('c01ep'), shards=3, **kw)
        return o, ['FanoutCache'], o.close
    if container == 'DjangoCache':
        o = _django_cache()(ctx_scratch('c01ep'), {'SHARDS': 2, 'OPTIONS': kw})
        return o, ['DjangoCache'], o.close
    if container == 'Index':
        o = diskcache.Index.fromcache(diskcache.Cache(ctx_scratch('c01ep'), **kw))
        return o, ['Index', 'Index.queue'], o.cache.close
    if container == 'Deque':
        o = diskcache.Deque.fromcache(diskcache.Cache(ctx_scratch('c01ep'), **kw))
        return o, ['Deque'], o.cache.close
    # containers handed out by a FanoutCache / DjangoCache (their settings are the defaults: threshold 32 KiB)
    parent = diskcache.FanoutCache(ctx_scratch('c01ep'), shards=2) if container.startswith('FanoutCache.') else \
        _django_cache()(ctx_scratch('c01ep'), {'SHARDS': 2})
    sub = container.split('.')[1]
    if sub == 'cache':
        o = parent.cache('sub')
        return o, ['Cache', 'Cache.queue'], lambda: (o.close(), parent.close())
    if sub == 'index':
        o = parent.index('sub')
        return o, ['Index', 'Index.queue'], lambda: (o.cache.close(), parent.close())
    o = parent.deque('sub')
    return o, ['Deque'], lambda: (o.cache.close(), parent.close())


EP_CONTAINERS = ['Cache', 'FanoutCache', 'DjangoCache', 'Index', 'Deque']
EP_SUBCONTAINERS = ['FanoutCache.cache', 'FanoutCache.index', 'FanoutCache.deque', 'DjangoCache.cache', 'DjangoCache.index', 'DjangoCache.deque']


EP_COSTLY = {'reverse+[0]', 'copy'}          # accessors that open a further Cache: one case in eight in the quick tier


def ep_case(o, table, storer, reader_names, v, op, key, skip=()):
    """Store v through one entry point, then look it up through the named accessors (all of the table when None, minus `skip`).
    -> list of (sig, description, reader)"""
    t = EP_TABLE[table]
    accepts, put = t['storers'][storer]
    is_stream = isinstance(v, Stream)
    want = v.data if is_stream else v
    problems = []
    nkey = [0]

    def store():
        nkey[0] += 1
        k = '%s.%d' % (key, nkey[0])
        put(o, k, v.open() if is_stream else v, is_stream, op)
        return k

    readers = [r for r in t['readers'] if (reader_names is None and r[0] not in skip) or (reader_names is not None and r[0] in reader_names)]
    k = None
    for name, f, destructive in readers:
        if k is None:
            try:
                k = store()
            except Exception as e:  # noqa -- rejected with an exception: allowed, but then nothing may be there
                kk = '%s.%d' % (key, nkey[0])
                try:
                    if not t['absent'](o, kk, op):
                        problems.append(('rejected_but_stored', 'the store raised %r but the key exists' % e, name))
                        t['remove'](o, kk, op)
                except Exception as e2:  # noqa
                    problems.append(('rejected_but_stored', 'the store raised %r and looking the key up raised %r' % (e, e2), name))
                return problems, 'rejected:' + type(e).__name__
        try:
            got = f(o, k, op)
            ok = same(got, want)
        except Exception as e:  # noqa
            got, ok = ('<raised>', type(e).__name__, str(e)[:80]), False
        if not ok:
            problems.append(('entry_point_altered:%s.%s:%s' % (table, storer, 'stream' if is_stream else type(v).__name__),
                             '%s.%s(%s%s) then %s returned %s' % (table, storer, short(v), ', read=True' if is_stream else '', name, short(got)), name))
        if destructive:
            k = None
    if k is not None:
        try:
            t['remove'](o, k, op)
        except Exception:  # noqa
            pass
    return problems, 'stored'


def ep_accepts(accepts, v):
    if isinstance(v, Stream):
        return accepts == 'both'
    if accepts == 'int':
        return type(v) is int and abs(v) < 2 ** 62
    return True


def entry_points(ctx, res, stats, thorough):
    """Every storing entry point of every container (Cache / FanoutCache / DjangoCache set, add by keyword and by position, []=, incr/decr,
    push at both ends, set_many, get_or_set; Index []=, setdefault, update, fromcache, push; Deque append(left), extend(left), +=, []=,
    fromcache; and the containers a FanoutCache / DjangoCache hands out) x objects and read=True streams x rotating expire / tag / retry /
    version options, then EVERY accessor of that container (with and without its optional parameters): an equal value of the same type."""
    st = stats.setdefault('entry_points', {'cases': 0, 'lookups': 0, 'rejected': {}, 'combos': 0})
    protos = [0, 2, pickle.HIGHEST_PROTOCOL]
    n = 0
    plan = [(c, m) for m in ((0, 8, BIG) if thorough else (8, BIG)) for c in EP_CONTAINERS] + [(c, BIG) for c in EP_SUBCONTAINERS]
    tm = st.setdefault('seconds', {})
    for ci, (container, m) in enumerate(plan):
        protocol = protos[(ci + ctx.seed) % 3]
        t_c = _time.time()
        o, tables, close = ep_make(ctx.scratch, container, m, protocol)
        vals = ep_values(m)
        try:
            for table in tables:
                t = EP_TABLE[table]
                for si, storer in enumerate(sorted(t['storers'])):
                    accepts = t['storers'][storer][0]
                    st['combos'] += 1
                    for vi, v in enumerate(vals):
                        if not ep_accepts(accepts, v):
                            continue
                        if not thorough and m == BIG and not isinstance(v, Stream) and (vi + si + ctx.seed) % (3 if '.' in container else 2):
                            continue        # quick tier: half of the object values per entry point at the 32 KiB threshold (a third for handed-out containers), every stream
                        n += 1
                        oi = n + ctx.seed
                        op = ep_options(oi)
                        skip = () if thorough or (n + ctx.seed) % 8 == 0 else EP_COSTLY
                        problems, outcome = ep_case(o, table, storer, None, v, op, 'e%d' % n, skip)
                        st['cases'] += 1
                        st['lookups'] += len([r for r in t['readers'] if r[0] not in skip])
                        if outcome != 'stored':
                            st['rejected'][outcome] = st['rejected'].get(outcome, 0) + 1
                        res.count(['entry', container, table, storer, m, short(v), isinstance(v, Stream)], nontrivial=outcome == 'stored')
                        for sig, desc, reader in problems:
                            res.violations.append(fw.Violation(sig, desc, {
                                'check': 'entry_point', 'container': container, 'table': table, 'storer': storer, 'reader': reader,
                                'min_file_size': m, 'protocol': protocol, 'value_index': vi, 'value': short(v), 'options_index': oi}))
        finally:
            close()
        tm[container] = round(tm.get(container, 0) + _time.time() - t_c, 1)
    res.sample({'check': 'entry_points', 'containers': EP_CONTAINERS + EP_SUBCONTAINERS, 'cases': st['cases'], 'lookups': st['lookups']})


def same_exact(a, b):
    """same type and same value, sign- and NaN-aware (0.0 is not -0.0, 1 is not 1.0, True is not 1)"""
    if type(a) is not type(b):
        return False
    if isinstance(a, float):
        return (a != a and b != b) or (a == b and math.copysign(1.0, a) == math.copysign(1.0, b))
    if isinstance(a, (tuple, list)):
        return len(a) == len(b) and all(same_exact(x, y) for x, y in zip(a, b))
    return a == b


def overwrites(ctx, res, stats):
    """Whatever value is stored LAST under a key is what every lookup returns -- also when the value stored before compares
    equal to it in Python but is another number: 0.0 / -0.0, 1 / 1.0 / True, 2**53 / float(2**53), and the same inside containers,
    on both sides of the file threshold, through Cache, FanoutCache, Index and Deque element assignment."""
    pairs = [(0.0, -0.0), (-0.0, 0.0), (1, 1.0), (1.0, 1), (True, 1), (1, True), (0, False), (False, 0.0), (2 ** 53, float(2 ** 53)),
             (float(2 ** 53), 2 ** 53), (-1, -1.0), ((1, 2), (1.0, 2)), ((0.0,), (-0.0,)), ('a' * 9, 'a' * 9), (b'x' * 9, b'x' * 9),
             (10 ** 30, float(10 ** 30))]
    n = 0
    for m in (0, 8, BIG):
        d = ctx.scratch('c01ow')
        c = diskcache.Cache(d, disk_min_file_size=m, eviction_policy='none')
        f = diskcache.FanoutCache(ctx.scratch('c01owf'), shards=2, disk_min_file_size=m, eviction_policy='none')
        ix = diskcache.Index.fromcache(diskcache.Cache(ctx.scratch('c01owi'), disk_min_file_size=m, eviction_policy='none'))
        dq = diskcache.Deque.fromcache(diskcache.Cache(ctx.scratch('c01owd'), disk_min_file_size=m, eviction_policy='none'))
        dq.append('slot')
        for i, (v1, v2) in enumerate(pairs):
            for name, put, get in (('Cache.set', lambda v: c.set('k%d' % i, v), lambda: c.get('k%d' % i)),
                                   ('Cache[]', lambda v: c.__setitem__('i%d' % i, v), lambda: c['i%d' % i]),
                                   ('FanoutCache.set', lambda v: f.set('k%d' % i, v), lambda: f.get('k%d' % i)),
                                   ('Index[]', lambda v: ix.__setitem__('k%d' % i, v), lambda: ix['k%d' % i]),
                                   ('Deque[0]', lambda v: dq.__setitem__(0, v), lambda: dq[0])):
                put(v1)
                put(v2)
                got = get()
                n += 1
                res.count(['overwrite', m, name, repr(v1), repr(v2)], nontrivial=True)
                if not same_exact(got, v2):
                    res.violations.append(fw.Violation('overwrite_kept_old_value', '%s: stored %r, then stored %r under the same key; the lookup returns %r (%s)'
                                                       % (name, v1, v2, got, type(got).__name__),
                                                       {'check': 'overwrite', 'min_file_size': m, 'accessor': name, 'first': repr(v1), 'second': repr(v2)}))
        for o in (c, f, ix.cache, dq.cache):
            o.close()
    stats['overwrite_cases'] = n


def retry_after_contention(ctx, res, stats):
    """A store that has to WAIT for the write lock (another connection holds it at the first BEGIN attempt and lets go after k failed
    attempts) stores the value all the same: afterwards every accessor returns it, for inline and file-backed values and streams."""
    import sqlite3
    import sched
    n = 0
    for m in (8, BIG):
        for k in (1, 3):
            for vi, v in enumerate([b'y' * (m + 2), 'z' * (m + 2), ('t', 'u' * (m + 2)), 5, 'sm', Stream(b'0123456789' * (m // 5 + 1))]):
                d = ctx.scratch('c01rc')
                diskcache.Cache(d, disk_min_file_size=m).close()
                holder = sqlite3.connect(os.path.join(d, 'cache.db'), isolation_level=None, timeout=0)
                begins = [0]

                def before(ev):
                    if ev.kind == 'sql' and ev.what == 'BEGIN':
                        begins[0] += 1
                        if begins[0] == k + 1:
                            holder.execute('COMMIT')
                tracer = sched.Tracer(before=before)
                is_stream = isinstance(v, Stream)
                want = v.data if is_stream else v
                try:
                    with tracer:
                        c = diskcache.Cache(d, timeout=0, disk_min_file_size=m)
                        len(c)                              # this thread's connection is open before the lock is taken
                        holder.execute('BEGIN IMMEDIATE')
                        tracer.enable(True)
                        ok = c.set('k', v.open(), read=True, retry=True) if is_stream else c.set('k', v, retry=True)
                        tracer.enable(False)
                    got = c.get('k', default='<missing>')
                    try:
                        got2 = c['k']
                    except KeyError:
                        got2 = '<KeyError>'
                    c.close()
                finally:
                    holder.close()
                n += 1
                res.count(['retry-contention', m, k, vi], nontrivial=True)
                if ok is not True or not same_exact(got, want) or not same_exact(got2, want):
                    res.violations.append(fw.Violation('lost_after_waiting_for_lock', 'set(%s, retry=True) waited through %d failed BEGIN attempts and returned %r; '
                                                       'get returns %s, [] returns %s' % (short(v), k, ok, short(got), short(got2)),
                                                       {'check': 'retry_contention', 'min_file_size': m, 'failed_attempts': k, 'value': short(v)}))
    stats['retry_contention_cases'] = n


# ---------------------------------------------------------------------------------------------------------------
# incr / decr are storing entry points too: the number they return is the value stored from then on.  Counters are walked ACROSS the
# boundaries of the number representations (signed 32 / 53 / 64 bit), in both directions, by small steps and by jumps.

COUNTER_CONTAINERS = ['Cache', 'FanoutCache', 'DjangoCache']
COUNTER_SUBCONTAINERS = ['FanoutCache.cache', 'DjangoCache.cache']


def counter_walks():
    """-> list of (start, [delta, ...]); a positive delta is applied with incr, a negative one alternately with decr(-delta) and incr(delta)"""
    walks = []
    for bits in (31, 53, 63):
        top, bottom = 2 ** bits - 1, -2 ** bits           # the largest / smallest number of that width
        walks.append((top - 2, [1, 1, 1, 1, 1, -1, -1, -1, -1]))          # up across the edge one by one, and back
        walks.append((bottom + 2, [-1, -1, -1, -1, -1, 1, 1, 1, 1]))      # down across the edge, and back
        walks.append((top, [1, -1, 2, -3]))
        walks.append((bottom, [-1, 1, -2, 3]))
        walks.append((0, [top, 1, -1, -top, bottom, -1, 1]))             # jumps from zero onto the edge, then over it
    walks.append((5, [2 ** 64, -2 ** 64, -2 ** 64, 2 ** 64]))
    walks.append((-7, [2 ** 63, 2 ** 63, -2 ** 65, 10 ** 30]))
    walks.append((2 ** 62, [2 ** 62, -2 ** 62, -2 ** 63, -2 ** 62, -1]))
    return walks


def _counter_api(container):
    """-> (table of readers, create(o, k, start, how), step(o, k, d, use_decr))"""
    dj = container == 'DjangoCache'
    if dj:
        def step(o, k, d, use_decr):
            return o.decr(k, -d, version=None) if use_decr else o.incr(k, d, version=None)
    else:
        def step(o, k, d, use_decr):
            return o.decr(k, -d, default=None) if use_decr else o.incr(k, d, default=None)

    def create(o, k, start, how):
        if how == 'set':
            return o.set(k, start)
        if how == 'add':
            return o.add(k, start)
        if how == 'incr':                     # the insert path of incr: default + delta
            return o.incr(k, start - 3, default=3)
        return o.decr(k, 3 - start, default=3)
    return create, step


def counter_walk(o, table, container, start, deltas, how, key):
    """One counter: created with value `start`, then stepped by `deltas`.  After the creation and after every step EVERY non-destructive
    accessor must return the current number -- the one the last call that RETURNED reported, or the previous one when the call raised --
    as an int; the walk ends with a removing accessor.  -> (problems [(sig, desc, step index, reader)], outcomes per step)"""
    t = EP_TABLE[table]
    create, step = _counter_api(container)
    op = {'version': None}
    problems, outcomes = [], []

    def look(cur, i, what, destructive_name=None):
        for name, f, destructive in t['readers']:
            if destructive != (destructive_name is not None) or (destructive and name != destructive_name) or name in EP_COSTLY:
                continue
            try:
                got = f(o, key, op)
                ok = same_exact(got, cur)
            except Exception as e:  # noqa
                got, ok = ('<raised>', type(e).__name__, str(e)[:80]), False
            if not ok:
                problems.append(('counter_altered:%s' % what, '%s counter %s: after %s, %s returned %s (%s), the counter stands at %d'
                                 % (container, key, what_text(i), name, short(got), type(got).__name__, cur), i, name))
                return False
        return True

    def what_text(i):
        if i < 0:
            return 'creation with %d by %s' % (start, how)
        d = deltas[i]
        return 'step %d (%+d, which %s)' % (i, d, outcomes[i])

    try:
        create(o, key, start, how)
    except Exception as e:  # noqa -- a start value the container cannot hold: rejected, nothing may be there
        if not t['absent'](o, key, op):
            problems.append(('rejected_but_stored', 'creating the counter raised %r but the key exists' % e, -1, 'contains'))
            t['remove'](o, key, op)
        return problems, ['create-raised:' + type(e).__name__]
    cur = start
    if not look(cur, -1, 'create:' + how):
        t['remove'](o, key, op)
        return problems, outcomes
    ndecr = 0
    for i, d in enumerate(deltas):
        use_decr = False
        if d < 0:
            ndecr += 1
            use_decr = bool(ndecr % 2)
        try:
            r = step(o, key, d, use_decr)
        except Exception as e:  # noqa -- rejected: the entry is unchanged
            outcomes.append('raised ' + type(e).__name__)
            what = ('decr' if use_decr else 'incr') + '_raised'
        else:
            outcomes.append('returned %s' % short(r))
            what = 'decr' if use_decr else 'incr'
            if not same_exact(r, cur + d):
                problems.append(('counter_wrong_result:' + what, '%s counter %s at %d: %s by %d returned %s (%s)'
                                 % (container, key, cur, what, abs(d), short(r), type(r).__name__), i, 'result'))
                break
            cur = cur + d
        if not look(cur, i, what):
            break
    else:
        names = [n for n, _, destructive in t['readers'] if destructive]
        look(cur, len(deltas) - 1, 'removal', names[(len(deltas) + abs(start)) % len(names)])
    try:
        t['remove'](o, key, op)
    except Exception:  # noqa
        pass
    return problems, outcomes


def counters(ctx, res, stats, thorough):
    """incr / decr as storing entry points (Cache, FanoutCache, DjangoCache and the Cache a FanoutCache / DjangoCache hands out; thresholds 0 / 8 /
    32 KiB): whatever number a counter call returns is what every accessor returns afterwards, with type int; a call that raises leaves the
    previous number.  Counters are created by set / add / incr / decr and walked across +-2^31, +-2^53, +-2^63 and beyond."""
    st = stats.setdefault('counters', {'walks': 0, 'steps': 0, 'steps_rejected': {}})
    plan = [(c, m) for m in (0, 8, BIG) for c in COUNTER_CONTAINERS] + [(c, BIG) for c in COUNTER_SUBCONTAINERS]
    hows = ['set', 'incr', 'add', 'decr']
    n = 0
    for ci, (container, m) in enumerate(plan):
        o, tables, close = ep_make(ctx.scratch, container, m, pickle.HIGHEST_PROTOCOL)
        try:
            for wi, (start, deltas) in enumerate(counter_walks()):
                for how in hows:
                    n += 1
                    problems, outcomes = counter_walk(o, tables[0], container, start, deltas, how, 'ctr%d' % n)
                    st['walks'] += 1
                    st['steps'] += len(outcomes)
                    for oc in outcomes:
                        if oc.startswith('raised') or oc.startswith('create-raised'):
                            st['steps_rejected'][oc] = st['steps_rejected'].get(oc, 0) + 1
                    res.count(['counter', container, m, str(start), [str(d) for d in deltas], how], nontrivial=True)
                    for sig, desc, i, reader in problems:
                        res.violations.append(fw.Violation(sig, desc, {
                            'check': 'counter', 'container': container, 'min_file_size': m, 'start': str(start), 'deltas': [str(d) for d in deltas],
                            'created_by': how, 'step_index': i, 'reader': reader, 'outcomes': outcomes}))
        finally:
            close()
    res.sample({'check': 'counters', 'containers': COUNTER_CONTAINERS + COUNTER_SUBCONTAINERS, 'walks': st['walks'], 'steps': st['steps'],
                'rejected': st['steps_rejected']})


# ---------------------------------------------------------------------------------------------------------------
# "EVERY LATER lookup returns an equal value": what a caller does with the object an earlier lookup (or the store) was given / gave
# back is the caller's business.  Mutable values are stored, looked up, the returned object is changed in place, and looked up again,
# through every accessor, under the same key and under another key that holds an equal value.

class Box:
    """a plain picklable object with attributes; equal when the class and the attributes are equal"""

    def __init__(self, **kw):
        self.__dict__.update(kw)

    def __eq__(self, o):
        return type(o) is Box and self.__dict__ == o.__dict__

    def __ne__(self, o):
        return not self.__eq__(o)

    __hash__ = None

    def __repr__(self):
        return 'Box(%s)' % ', '.join('%s=%r' % kv for kv in sorted(self.__dict__.items()))


_MUT = '<changed by the caller>'


def mutate(x, depth=0):
    """change x in place wherever it can be changed (the top-level object and what it contains) -> True when something was changed"""
    import collections
    changed = False
    if depth > 6:
        return False
    if isinstance(x, list):
        for e in list(x):
            mutate(e, depth + 1)
        x.append(_MUT)
        x.reverse()
        changed = True
    elif isinstance(x, collections.deque):
        for e in list(x):
            mutate(e, depth + 1)
        x.appendleft(_MUT)
        changed = True
    elif isinstance(x, dict):
        for e in list(x.values()):
            mutate(e, depth + 1)
        for k in list(x)[:1]:
            x[k] = _MUT
        x[_MUT] = 1
        changed = True
    elif isinstance(x, set):
        x.add(_MUT)
        changed = True
    elif isinstance(x, bytearray):
        x.extend(b'!')
        x.reverse()
        changed = True
    elif isinstance(x, tuple):
        for e in x:
            changed = mutate(e, depth + 1) or changed
    elif isinstance(x, Box):
        for e in list(x.__dict__.values()):
            mutate(e, depth + 1)
        x.changed = _MUT
        changed = True
    return changed


def mutable_values(m):
    """prototypes (deep-copied for every use) of mutable picklable values; most are far below any file threshold, some cross m"""
    import collections
    return [[0], [], [1, 2], {}, {'a': 1}, {'k': [1, 2], 'z': None}, set(), {1, 2}, bytearray(), bytearray(b'abc'), [[1], [2]],
            ([1], 'x'), {'cfg': {'x': [1]}, 'retries': 3}, SubList([1, [2]]), SubDict({'k': 1}), Box(a=1, items=[1]), Box(),
            collections.deque([1, 2]), collections.OrderedDict([('b', 1), ('a', [2])]), [b'x' * (min(m, 64) + 1)], [None], [''], {'': ''}]


def mutation_case(o, table, storer, proto, op, key, skip=()):
    """Two equal values (separate copies of `proto`) are stored under two keys through one entry point; the caller then changes its own
    objects in place; every non-removing accessor looks up each key (twice the first, once the second), and every object handed back is
    changed in place as soon as it has been compared; at last two removing accessors.  Each lookup must equal the value as it was when
    it was stored.  -> (problems [(sig, desc, reader)], outcome)"""
    import copy
    t = EP_TABLE[table]
    put = t['storers'][storer][1]
    pristine = copy.deepcopy(proto)           # never handed to the library, never changed
    keyed = table not in ('Deque',)
    k1, k2 = (key + '.a', key + '.b') if not table.endswith('.queue') and keyed else (key, key)
    mine = [copy.deepcopy(proto), copy.deepcopy(proto)]
    stored = []
    try:
        for k, v in zip((k1, k2), mine):
            put(o, k, v, False, op)
            stored.append(k)
    except Exception as e:  # noqa -- rejected with an exception: allowed (other monitors look at what is left behind)
        for k in stored:
            try:
                t['remove'](o, k, op)
            except Exception:  # noqa
                pass
        return [], 'rejected:' + type(e).__name__
    for v in mine:
        mutate(v)                              # the objects given to the store are the caller's again
    problems = []
    history = []

    def look(name, f, k):
        try:
            got = f(o, k, op)
            ok = same(got, pristine)
        except Exception as e:  # noqa
            got, ok = ('<raised>', type(e).__name__, str(e)[:80]), False
        history.append('%s(%s)' % (name, 'second key' if k == k2 and k1 != k2 else 'first key' if k1 != k2 else 'element'))
        if not ok:
            problems.append(('lookup_after_caller_mutation:%s' % table,
                             '%s: %s stored through %s under two keys; the caller changed in place the objects it had stored and every object a lookup '
                             'handed back; lookups so far: %s; the last one returned %s, the stored value is %s'
                             % (table, short(pristine), storer, ', '.join(history[-6:]), short(got), short(pristine)), name))
            return False
        mutate(got)
        return True

    readers = [r for r in t['readers'] if r[0] not in skip]
    alive = True
    for name, f, destructive in readers:
        if destructive or not alive:
            continue
        last_only = name.startswith('peekitem') or name in ('values',)       # accessors of the LAST item
        for k in ((k2, k2) if last_only else (k1, k1, k2)):
            if not look(name, f, k):
                alive = False
                break
    removers = [r for r in readers if r[2]]
    left = [k1, k2]
    if alive and removers:
        i = sum(ord(ch) for ch in key) % len(removers)
        for j, k in enumerate((k2, k1)):       # the last item first (popitem / peekitem-style accessors address the end)
            name, f, _ = removers[(i + j) % len(removers)]
            left.remove(k)
            if not look(name, f, k):
                break
    for k in left:
        try:
            t['remove'](o, k, op)
        except Exception:  # noqa
            pass
    return problems, 'stored'


MUT_EXTRA_CONTAINERS = ['Cache/JSONDisk']
JSON_RAW_READERS = ('get(read=True)', 'read')       # a read handle on a JSONDisk value file gives the compressed JSON text, not the value


def mutated_results(ctx, res, stats, thorough):
    """Mutable values (list, dict, set, bytearray, deque, OrderedDict, nested, list / dict subclasses, plain objects) x every container
    (and the containers a FanoutCache / DjangoCache hands out, and a JSONDisk cache) x thresholds x protocols x rotating storing entry
    points and options: see mutation_case."""
    st = stats.setdefault('mutated_results', {'cases': 0, 'rejected': {}})
    protos = [0, 2, pickle.HIGHEST_PROTOCOL] + ([1, 3, 4] if thorough else [])
    plan = [(c, m) for m in ((0, 8, BIG) if thorough else (8, BIG)) for c in EP_CONTAINERS + MUT_EXTRA_CONTAINERS] + [(c, BIG) for c in EP_SUBCONTAINERS]
    n = 0
    for ci, (container, m) in enumerate(plan):
        for protocol in (protos if thorough and container == 'Cache' and m == BIG else [protos[(ci + ctx.seed) % 3]]):
            o, tables, close = mut_make(ctx.scratch, container, m, protocol)
            try:
                for table in tables:
                    t = EP_TABLE[table]
                    storers = [s for s in sorted(t['storers']) if t['storers'][s][0] in ('both', 'plain')]
                    for vi, proto in enumerate(mutable_values(m)):
                        if container == 'Cache/JSONDisk' and not json_ok(proto):
                            continue
                        for storer in (storers if thorough else [storers[(vi + ci + ctx.seed) % len(storers)]]):
                            n += 1
                            oi = n + ctx.seed
                            skip = () if thorough or n % 8 == 0 else EP_COSTLY
                            if container == 'Cache/JSONDisk':
                                skip = tuple(skip) + JSON_RAW_READERS
                            problems, outcome = mutation_case(o, table, storer, proto, ep_options(oi), 'm%d' % n, skip)
                            st['cases'] += 1
                            if outcome != 'stored':
                                st['rejected'][outcome] = st['rejected'].get(outcome, 0) + 1
                            res.count(['mutated', container, table, storer, m, protocol, short(proto)], nontrivial=outcome == 'stored')
                            for sig, desc, reader in problems:
                                res.violations.append(fw.Violation(sig, desc, {
                                    'check': 'mutated_result', 'container': container, 'table': table, 'storer': storer, 'reader': reader,
                                    'min_file_size': m, 'protocol': protocol, 'value_index': vi, 'value': short(proto), 'options_index': oi}))
            finally:
                close()
    res.sample({'check': 'mutated_results', 'cases': st['cases'], 'rejected': st['rejected']})


def mut_make(ctx_scratch, container, m, protocol):
    if container == 'Cache/JSONDisk':
        o = diskcache.Cache(ctx_scratch('c01mj'), disk=diskcache.JSONDisk, disk_min_file_size=m, eviction_policy='none')
        return o, ['Cache', 'Cache.queue'], o.close
    return ep_make(ctx_scratch, container, m, protocol)


# ---------------------------------------------------------------------------------------------------------------
# Later lookups after a transaction block that was ROLLED BACK: what a rolled-back block did never happened, so a value stored before
# the block and removed / pulled / overwritten inside it is still stored afterwards, and every lookup returns it -- whatever its storage
# path (inline, bytes file, text file, pickle file).

class _Boom(Exception):
    pass


RB_CALL_SECONDS = 8          # peek / pull / peekitem retry for ever on a row whose value file is gone: every accessor call is bounded


def _rb_cache(o):
    return {'removers': {
        'pop': lambda o, k, w: o.pop(k),
        'pop(expire_time,tag)': lambda o, k, w: o.pop(k, expire_time=True, tag=True),
        'del': lambda o, k, w: o.__delitem__(k),
        'delete': lambda o, k, w: o.delete(k),
        'pull': lambda o, k, w: o.pull(),
        'pull(back)': lambda o, k, w: o.pull(side='back'),
        'set-other': lambda o, k, w: o.set(k, w),
        'clear': lambda o, k, w: o.clear(),
        'get-only': lambda o, k, w: o.get(k)},
        'readers': [('get', lambda o, k: o.get(k, default=_MISSING)), ('[]', lambda o, k: o[k]), ('peekitem', lambda o, k: o.peekitem()[1]),
                    ('peek', lambda o, k: o.peek(default=(None, _MISSING))[1]), ('get(read=True)', lambda o, k: _handle_value(o.get(k, default=_MISSING, read=True))),
                    ('pull', lambda o, k: o.pull(default=(None, _MISSING))[1])]}


def _rb_deque(o):
    return {'removers': {
        'pop': lambda o, k, w: o.pop(),
        'popleft': lambda o, k, w: o.popleft(),
        'del[0]': lambda o, k, w: o.__delitem__(0),
        '[0]=other': lambda o, k, w: o.__setitem__(0, w),
        'clear': lambda o, k, w: o.clear(),
        'rotate+pop': lambda o, k, w: (o.append(w), o.rotate(1), o.pop(), o.pop())},
        'readers': [('[0]', lambda o, k: o[0]), ('[-1]', lambda o, k: o[-1]), ('peek', lambda o, k: o.peek()), ('peekleft', lambda o, k: o.peekleft()),
                    ('iter', lambda o, k: list(o)[0]), ('pop', lambda o, k: o.pop())]}


def _rb_index(o):
    return {'removers': {
        'pop': lambda o, k, w: o.pop(k),
        'pull': lambda o, k, w: o.pull(),
        'popitem': lambda o, k, w: o.popitem(),
        'popitem(last=False)': lambda o, k, w: o.popitem(last=False),
        'del': lambda o, k, w: o.__delitem__(k),
        '[]=other': lambda o, k, w: o.__setitem__(k, w),
        'clear': lambda o, k, w: o.clear()},
        'readers': [('[]', lambda o, k: o[k]), ('get', lambda o, k: o.get(k, _MISSING)), ('values', lambda o, k: list(o.values())[0]),
                    ('peekitem', lambda o, k: o.peekitem()[1]), ('popitem', lambda o, k: o.popitem()[1])]}


RB_CONTAINERS = {'Cache': _rb_cache, 'FanoutCache': _rb_cache, 'Deque': _rb_deque, 'Index': _rb_index}
RB_SHAPES = ['plain', 'nested', 'after-store']     # the removal alone in the block; inside an inner block that completes; after another store in the block


def rb_values(m):
    """one value per storage path at lengths around the threshold m"""
    out = [5, 'sm', (1, 'two')]
    for n in (m - 1, m, m + 3):
        out += [bytes((i * 7) % 251 for i in range(n)), 'x' * n, 'é' * n]
    out += [('t', 'u' * (m + 2), [1, 2.5]), {'k': list(range(m // 3 + 2))}, ['q' * m, b'r' * m]]
    return out


def rollback_case(mkdir, p):
    """One scenario p = {container, remover, shape, min_file_size, value_index}: the value is stored (Cache: under a queue key, so that
    pull / peek reach it; Deque: appended; Index: under a key), then a transact() block removes / pulls / overwrites it and raises; the
    exception leaves the block (ROLLBACK).  Afterwards every non-removing accessor, then a removing one, must return the stored value.
    -> (problems [(sig, text)], info)"""
    import callguard
    container, m = p['container'], p['min_file_size']
    v = rb_values(m)[p['value_index']]
    other = ('another value', p['value_index'])
    d = mkdir()
    kw = dict(disk_min_file_size=m, eviction_policy='none')
    if container == 'FanoutCache':
        o = diskcache.FanoutCache(d, shards=1, **kw)
        closer = o
    elif container == 'Cache':
        o = closer = diskcache.Cache(d, **kw)
    else:
        closer = diskcache.Cache(d, **kw)
        o = getattr(diskcache, container).fromcache(closer)
    table = RB_CONTAINERS[container](o)
    remover = table['removers'][p['remover']]
    problems = []
    info = {'file_backed': False, 'rolled_back': False}
    try:
        if container == 'Cache':
            key = o.push(v)                         # one item: the queue's only one and the cache's only one
        elif container == 'FanoutCache':
            key = 'k'
            o.set(key, v)
        elif container == 'Deque':
            key = 0
            o.append(v)
        elif p['remover'] == 'pull':
            key = o.push(v)                         # (Index.pull takes queue items)
        else:
            key = 'k'
            o[key] = v
        if container == 'FanoutCache' and p['remover'] in ('pull', 'pull(back)'):
            return [], info                         # (FanoutCache has no queue calls)
        info['file_backed'] = any(f != 'cache.db' and not f.startswith('cache.db-') for _, _, fs in os.walk(d) for f in fs)
        try:
            with o.transact():
                if p['shape'] == 'after-store':
                    if container == 'Deque':
                        o.appendleft(other)
                        o.popleft()
                    elif container == 'Index':
                        o['other-key'] = other
                    else:
                        o.set('other-key', other)
                if p['shape'] == 'nested':
                    with o.transact():
                        remover(o, key, other)
                else:
                    remover(o, key, other)
                raise _Boom()
        except _Boom:
            info['rolled_back'] = True
        except Exception as e:  # noqa
            info['rolled_back'] = True                       # whatever exception leaves the block rolls it back
            info['skipped'] = repr(e)[:80]
        what = ('%s (min_file_size %d): %s stored, then `with transact(): %s%s; raise` -- the exception left the block, the block is rolled back'
                % (container, m, short(v), {'plain': '', 'nested': 'with transact(): ', 'after-store': 'store another key; '}[p['shape']], p['remover']))
        for name, read in table['readers']:
            if container == 'FanoutCache' and name in ('peekitem', 'peek', 'pull'):
                continue
            try:
                with callguard.bounded(RB_CALL_SECONDS, name):
                    got = read(o, key)
            except callguard.CallDidNotReturn:
                problems.append(('call_did_not_return_after_rollback', what + '; afterwards %s did not return within %d s' % (name, RB_CALL_SECONDS)))
                break
            except Exception as e:  # noqa
                problems.append(('lost_after_rollback', what + '; afterwards %s raises %s(%s)' % (name, type(e).__name__, str(e)[:60])))
                break
            if got is _MISSING:
                problems.append(('lost_after_rollback', what + '; afterwards %s reports the key missing' % name))
                break
            if not same(got, v):
                problems.append(('changed_after_rollback', what + '; afterwards %s returns %s' % (name, short(got))))
                break
    finally:
        try:
            closer.close()
        except Exception:  # noqa
            pass
    return problems, info


def rolled_back_removals(ctx, res, stats, thorough):
    st = stats.setdefault('rolled_back_removals', {'cases': 0, 'file_backed': 0, 'skipped': 0})
    seen = set()
    n = 0
    for m in ([8, 64] if not thorough else [1, 8, 64, BIG]):
        nv = len(rb_values(m))
        for container, mk in sorted(RB_CONTAINERS.items()):
            removers = sorted(mk(None)['removers'])
            for ri, remover in enumerate(removers):
                for vi in range(nv):
                    n += 1
                    if not thorough and (n + ctx.seed) % 3 and not (vi >= 3 and (vi + ri) % 4 == 0):
                        continue
                    p = {'check': 'rolled_back_removal', 'container': container, 'remover': remover, 'shape': RB_SHAPES[(n + vi) % 3],
                         'min_file_size': m, 'value_index': vi}
                    problems, info = rollback_case(lambda: ctx.scratch('c01rb'), p)
                    st['cases'] += int(info['rolled_back'])
                    st['file_backed'] += int(info['file_backed'] and info['rolled_back'])
                    st['skipped'] += int('skipped' in info)
                    res.count(['rolled-back', container, remover, p['shape'], m, vi], nontrivial=info['rolled_back'])
                    for sig, text in problems[:1]:
                        if (sig, container) not in seen:
                            seen.add((sig, container))
                            res.violations.append(fw.Violation(sig, text, dict(p)))
                    if sum(1 for s, _ in seen if s.startswith('call_did_not_return')) >= 2:
                        return


def witnesses(res):
    """Replay the witnesses of the findings listed for C01 on the implementation."""
    import tempfile, shutil
    d = tempfile.mkdtemp(prefix='c01wit-')
    try:
        c = diskcache.Cache(d, disk_min_file_size=8)
        c['n'] = float('nan')
        g = c['n']
        res.witnessed['nan_to_none'] = not (isinstance(g, float) and g != g)
        c['t'] = 'aaaaaaaa\r\nbbbb\rc'
        res.witnessed['text_cr_translated'] = c['t'] != 'aaaaaaaa\r\nbbbb\rc'
        c.close()
        d2 = os.path.join(d, 'j')
        j = diskcache.Cache(d2, disk=diskcache.JSONDisk, disk_min_file_size=8)
        j.set('s', io.BytesIO(b'0123456789abcdef'), read=True)
        try:
            r = j.get('s')
            res.witnessed['json_stream_plain_get'] = r != b'0123456789abcdef'
        except Exception:
            res.witnessed['json_stream_plain_get'] = True
        j.close()
    finally:
        shutil.rmtree(d, ignore_errors=True)


def run(ctx, big_budget=False):
    res = fw.Result()
    thorough = not ctx.quick or big_budget
    res.rule = ('every value of the alphabet (ints around 0/2^31/2^53/2^63 and beyond, floats incl. -0.0/inf/nan/subnormal, str over '
                '{a,CR,LF,NUL,U+0085,U+2028,astral,lone surrogate}, bytes, None/bool/containers, streams) at lengths min_file_size+{-2..2} '
                'x min_file_size {0,1,8,32768} x pickle protocols x Disk/JSONDisk, stored and read back through get, [], read, pop, peekitem, '
                'push/peek/pull, Deque [] / pop, Index [] / pop; monitor: same type and equal (NaN- and sign-aware); model store/fetch compared '
                'with the row, the file bytes and the lookup result.  distinct = distinct (disk, threshold, protocol, value).  '
                'Overlapping stores on ONE shared object (Cache set/add/push, FanoutCache with 1 and 2 shards set/add, Index []=): the store of a value '
                '(7 shapes around an object whose __reduce__ / __reduce_ex__ / __getstate__ is suspended in the middle of pickling) overlaps a complete '
                'store of another value (14 pickled and raw ones) under another key, by a second thread sharing the object or re-entrantly from the '
                'pickling hook, x min_file_size {0,64,32768} x protocols; afterwards each key gives back its own value through get/[]/pop/peek/pull.  '
                'The alphabet includes instances of user SUBCLASSES of str / bytes (lengths min_file_size+{-1,0,1}, with and without instance state), int, '
                'float, tuple, list, dict: the class is part of the value.  Entry points: every storing method of every container (Cache / FanoutCache / '
                'DjangoCache set and add by keyword and by position, []=, incr / decr, Cache.push at both ends, DjangoCache set_many / get_or_set; Index []=, '
                'setdefault, update, fromcache, push; Deque append(left), extend(left), +=, []=, fromcache; the cache / index / deque a FanoutCache or '
                'DjangoCache hands out) x objects and read=True streams (incl. short-reading ones) x rotating expire / tag / retry / version options x '
                'min_file_size {8,32768} (thorough: also 0), then EVERY accessor of that container with and without its optional parameters (get, '
                'get(read=True), get(expire_time, tag), [], read, pop, peekitem, peek / pull at both ends, get_many, get_or_set, incr_version; Index get / '
                'values / items / setdefault / popitem; Deque [0] / [-1] / peek(left) / iter / reversed / copy / rotate / reverse / pop(left)): an equal '
                'value of the same type, or the store raised and nothing is there.  Counters: incr / decr are storing entry points whose RESULT is the stored '
                'value: counters of Cache / FanoutCache / DjangoCache (and of the Cache those hand out), thresholds {0,8,32768}, created by set / add / incr / '
                'decr, walked one by one and by jumps across +-2^31, +-2^53, +-2^63 and up to 2^65 / 10^30 in both directions; after every call every '
                'accessor returns, as an int, the number the call returned, or the previous number when the call raised.  Later lookups: 23 mutable values '
                '(list, dict, set, bytearray, deque, OrderedDict, nested ones, list / dict subclasses, plain objects) stored as two separate copies under two '
                'keys (two elements of a Deque / queue) through a rotating storing entry point of every container (also a JSONDisk cache and the containers '
                'a FanoutCache / DjangoCache hands out) x min_file_size {8,32768} (thorough: 0 too) x protocols; the caller then changes its own objects in '
                'place and changes every object a lookup hands back; every non-removing accessor looks up the first key twice and the second once, then two '
                'removing accessors: each result equals the value as it was stored.  Rolled-back blocks: a value of every storage path (inline, bytes / text / '
                'pickle file; lengths min_file_size+{-1,0,3}, min_file_size {8,64} (thorough: 1 and 32768 too)) is stored in a Cache (as a queue item), a '
                'FanoutCache, a Deque or an Index; a transact() block then pops / pulls / deletes / overwrites / clears it (alone, inside an inner block, after '
                'another store) and raises; afterwards every non-removing accessor and then a removing one return the stored value.')
    import time as _t
    t0 = _t.time()
    stats = {'rejected': {}, 'kinds': {}, 'file_backed': 0, 'accessor_calls': 0}
    coqcases = []
    ms = [0, 1, 8, BIG]
    protos = list(range(0, pickle.HIGHEST_PROTOCOL + 1)) if thorough else [0, 2, pickle.HIGHEST_PROTOCOL]
    opened = []
    for m in ms:
        for p in protos:
            if not thorough and m == BIG and p != protos[ctx.seed % len(protos)]:
                continue
            opened.append(run_config(ctx, res, m, p, diskcache.Disk, thorough, coqcases, stats))
        opened.append(run_config(ctx, res, m, pickle.HIGHEST_PROTOCOL, diskcache.JSONDisk, thorough, coqcases, stats))
    import time as _t
    t1 = _t.time()
    if not ctx.search_mode:
        correspondence(ctx, res, coqcases, 10 if ctx.quick else 40)
    res.extra['timing'] = {'impl_s': round(t1 - t0, 1), 'model_s': round(_t.time() - t1, 1)}
    for cache, dq, ix in opened:
        cache.close()
        dq.cache.close()
        ix.cache.close()
    faulted_writes(ctx, res, stats)
    overwrites(ctx, res, stats)
    retry_after_contention(ctx, res, stats)
    t2 = _t.time()
    entry_points(ctx, res, stats, thorough)
    res.extra['timing']['entry_points_s'] = round(_t.time() - t2, 1)
    res.extra['entry_points'] = stats.get('entry_points')
    t2 = _t.time()
    counters(ctx, res, stats, thorough)
    res.extra['timing']['counters_s'] = round(_t.time() - t2, 1)
    res.extra['counters'] = stats.get('counters')
    t2 = _t.time()
    mutated_results(ctx, res, stats, thorough)
    res.extra['timing']['mutated_results_s'] = round(_t.time() - t2, 1)
    res.extra['mutated_results'] = stats.get('mutated_results')
    t2 = _t.time()
    rolled_back_removals(ctx, res, stats, thorough)
    res.extra['timing']['rolled_back_removals_s'] = round(_t.time() - t2, 1)
    res.extra['rolled_back_removals'] = stats.get('rolled_back_removals')
    t2 = _t.time()
    overlapping_stores(ctx, res, stats, thorough)
    res.extra['timing']['overlapping_stores_s'] = round(_t.time() - t2, 1)
    res.extra['overlapping_stores'] = stats.get('overlapping_stores')
    res.extra.update({'overwrite_cases': stats.get('overwrite_cases'), 'retry_contention_cases': stats.get('retry_contention_cases'),
                      'faulted_write_cases': stats.get('faulted_writes', 0), 'rejected_by_exception': stats['rejected'], 'value_kinds': stats['kinds'],
                      'file_backed_cases': stats['file_backed'], 'accessor_calls': stats['accessor_calls']})
    witnesses(res)
    return res


def search(ctx, broken):
    return run(ctx, big_budget=True)


def replay(payload):
    case = payload.get('case', {})
    import tempfile, shutil
    if case.get('check') == 'overlapping_stores':
        d = tempfile.mkdtemp(prefix='c01r-')
        env = Shared(d, case['kind'], case['min_file_size'], case['protocol'])
        try:
            problems, box = overlap_case(env, case, case['min_file_size'])
            print('overlapped=%s' % box['overlapped'])
            for sig, desc in problems:
                print(sig, desc)
            return not problems
        finally:
            env.close()
            shutil.rmtree(d, ignore_errors=True)
    if case.get('check') == 'rolled_back_removal':
        d = tempfile.mkdtemp(prefix='c01r-')
        try:
            problems, info = rollback_case(lambda: tempfile.mkdtemp(prefix='rb-', dir=d), case)
            print(info)
            for sig, desc in problems:
                print(sig, desc)
            return not problems
        finally:
            shutil.rmtree(d, ignore_errors=True)
    if case.get('check') == 'counter':
        d = tempfile.mkdtemp(prefix='c01r-')
        o, tables, close = ep_make(lambda name: tempfile.mkdtemp(prefix=name + '-', dir=d), case['container'], case['min_file_size'], pickle.HIGHEST_PROTOCOL)
        try:
            problems, outcomes = counter_walk(o, tables[0], case['container'], int(case['start']), [int(x) for x in case['deltas']], case['created_by'], 'r')
            print('counter from %s by %s: %s' % (case['start'], case['created_by'], list(zip(case['deltas'], outcomes))))
            for sig, desc, i, reader in problems:
                print(sig, desc)
            return not problems
        finally:
            close()
            shutil.rmtree(d, ignore_errors=True)
    if case.get('check') == 'mutated_result':
        d = tempfile.mkdtemp(prefix='c01r-')
        o, tables, close = mut_make(lambda name: tempfile.mkdtemp(prefix=name + '-', dir=d), case['container'], case['min_file_size'], case['protocol'])
        try:
            proto = mutable_values(case['min_file_size'])[case['value_index']]
            problems, outcome = mutation_case(o, case['table'], case['storer'], proto, ep_options(case['options_index']), 'r',
                                              JSON_RAW_READERS if case['container'] == 'Cache/JSONDisk' else ())
            print('%s.%s(two copies of %s) -> %s' % (case['table'], case['storer'], short(proto), outcome))
            for sig, desc, reader in problems:
                print(sig, desc)
            return not problems
        finally:
            close()
            shutil.rmtree(d, ignore_errors=True)
    if case.get('check') == 'entry_point':
        d = tempfile.mkdtemp(prefix='c01r-')
        o, tables, close = ep_make(lambda name: tempfile.mkdtemp(prefix=name + '-', dir=d), case['container'], case['min_file_size'], case['protocol'])
        try:
            v = ep_values(case['min_file_size'])[case['value_index']]
            problems, outcome = ep_case(o, case['table'], case['storer'], [case['reader']], v, ep_options(case['options_index']), 'r')
            print('%s.%s(%s) -> %s' % (case['table'], case['storer'], short(v), outcome))
            for sig, desc, reader in problems:
                print(sig, desc)
            return not problems
        finally:
            close()
            shutil.rmtree(d, ignore_errors=True)
    d = tempfile.mkdtemp(prefix='c01r-')
    try:
        disk = getattr(diskcache, case.get('disk', 'Disk'))
        c = diskcache.Cache(d, disk=disk, disk_min_file_size=case.get('min_file_size', 0), disk_pickle_protocol=case.get('protocol', 5))
        if case.get('stream_len') is not None:
            data = bytes((i * 7) % 256 for i in range(case['stream_len']))
            c.set('k', Stream(data, burst=case.get('stream_burst', 0), osfile=case.get('stream_osfile', False)).open(), read=True)
            want = data
        else:
            want = unpickle_hex(case['value_pickle_hex'])
            c.set('k', want)
        got = c.get('k')
        print('stored %s, got %s' % (short(want), short(got)))
        c.close()
        return same(got, want)
    finally:
        shutil.rmtree(d, ignore_errors=True)
