"""C01 -- stored values come back identical, whatever their type, size or storage path."""
import io
import math
import os
import pickle
import sqlite3
import zlib
import json

import fw
import instr
import val
from instr import core, diskcache
from val import Stream, same

ID = 'C01'
COQ_PROP = 'C01'
LEVEL = 'proof'
TRANSLATE = ['disk', 'sql', 'persistent']      # sql: the paths of Cache.set/add/push and _transact a value travels through; persistent: Deque / Index element access
TRUSTED = [
    'coq/base/Val.v: CPython sqlite3 binding (int64 range, NaN->NULL, lone surrogates rejected) and column decoding; coq/base/DiskBase.v: POSIX text-mode newline semantics of open(); both hand-written, compared with the implementation on every case of this run',
    'codec hypotheses (Section-free, explicit premises of the theorems): pickle.load(pickle.dumps(v, protocol)) = v; json/zlib round trip for JSONDisk; UTF-8 is injective on text without lone surrogates. Checked on every generated value',
]
ASSUMPTIONS = ['file names are fresh (16 random bytes)', 'POSIX (os.linesep == "\\n")',
               'overlapping stores: the model store/fetch is a function of one value; that two stores through one shared Disk object do not '
               'interfere is checked by the overlapping_stores monitor only (threads and re-entrant pickling hooks), not proved']

BIG = 2 ** 15


def values_for(m, thorough):
    """Alphabet of the property's quantifier, lengths around min_file_size m."""
    out = []
    for z in (0, 1, -1, 2 ** 31, -2 ** 31, 2 ** 53, 2 ** 53 + 1, -2 ** 53 - 1, 2 ** 63 - 1, -2 ** 63, 2 ** 63, -2 ** 63 - 1, 2 ** 64, 10 ** 30):
        out.append(z)
    for f in (0.0, -0.0, 1.0, -1.5, float('inf'), float('-inf'), float('nan'), 5e-324, 2.0 ** 53, 2.0 ** 53 + 2, 1e308, 0.1):
        out.append(f)
    chars = ['a', '\r', '\n', '\x00', '\x85', ' ', '\U0001F600', '\ud800']
    lens = sorted(set(max(0, m + d) for d in (-2, -1, 0, 1, 2)) | {0, 3})
    for n in lens:
        out.append('a' * n)
        out.append(bytes([65]) * n)
        if n >= 3:
            for ch in chars[1:]:
                out.append('a' * (n - 3) + 'a' + ch + 'b')
            out.append('a' * (n - 3) + '\r\n' + 'b')
            out.append(bytes(range(256)) * (n // 256) + bytes(range(n % 256)))
            out.append(b'a' * (n - 3) + b'\r\n\x00')
    out += [None, True, False, (), (1, 2.0, 'x', b'y', None), [1, [2, [3]]], {'k': [1, 2], 'z': None},
            frozenset({1, 2}), (float('nan'),), 'x' * 5 + '\r' + 'y' * 5, ('a' * (m + 1),), [b'\r\n' * (m // 2 + 1)]]
    for n in (0, 1, 100, max(0, m - 1), m, m + 1):
        out.append(Stream(bytes((i * 7) % 256 for i in range(n))))
    for n, burst in ((100, 7), (1000, 64), (m + 5, 1)):
        out.append(Stream(bytes((i * 11) % 256 for i in range(n)), burst=burst))     # short-reading raw streams
    if thorough and m == BIG:
        for n in (2 ** 22 - 1, 2 ** 22, 2 ** 22 + 1):
            out.append(Stream(b'\xab' * n))
    return out


def json_ok(v):
    if isinstance(v, Stream):
        return True
    try:
        return val.same(json.loads(json.dumps(v)), v)
    except Exception:
        return False


def classify(v, accessor, file_backed, diskname, got):
    if isinstance(v, float) and v != v:
        return 'nan_to_none'
    if isinstance(v, str) and '\r' in v and file_backed:
        return 'text_cr_translated'
    if diskname == 'JSONDisk' and isinstance(v, Stream):
        return 'json_stream_plain_get'
    return 'value_altered:%s:%s' % (type(v).__name__, accessor)


def short(v):
    r = repr(v)
    return r if len(r) < 80 else r[:40] + '...(%d chars)' % len(r)


def observe_row(directory, key):
    con = sqlite3.connect(os.path.join(directory, 'cache.db'))
    try:
        rows = con.execute('SELECT size, mode, filename, value FROM Cache WHERE key = ? AND raw = 1', (key,)).fetchall()
    finally:
        con.close()
    return rows[0] if rows else None


def run_config(ctx, res, m, protocol, diskcls, thorough, coqcases, stats):
    d = ctx.scratch('c01')
    diskname = diskcls.__name__
    cache = diskcache.Cache(d, disk=diskcls, disk_min_file_size=m, disk_pickle_protocol=protocol, eviction_policy='none')
    d2 = ctx.scratch('c01dq')
    dq = diskcache.Deque.fromcache(diskcache.Cache(d2, disk=diskcls, disk_min_file_size=m, disk_pickle_protocol=protocol, eviction_policy='none'))
    d3 = ctx.scratch('c01ix')
    ix = diskcache.Index.fromcache(diskcache.Cache(d3, disk=diskcls, disk_min_file_size=m, disk_pickle_protocol=protocol, eviction_policy='none'))
    vals = values_for(m, thorough)
    if not thorough and m == BIG:
        vals = [v for i, v in enumerate(vals) if not isinstance(v, (str, bytes)) or len(v) < 10 or i % 3 == ctx.seed % 3]
    for vi, v in enumerate(vals):
        if diskname == 'JSONDisk' and not json_ok(v):
            continue
        is_stream = isinstance(v, Stream)
        key = 'k%d' % vi
        case = {'check': 'roundtrip', 'disk': diskname, 'min_file_size': m, 'protocol': protocol, 'value': short(v),
                'value_pickle_hex': None if is_stream else pickle.dumps(v, protocol=4).hex()[:4000], 'stream_len': len(v.data) if is_stream else None}

        def put(c, k):
            if is_stream:
                return c.set(k, v.open(), read=True)
            return c.set(k, v)
        try:
            put(cache, key)
            stored = True
        except Exception as e:
            stored = False
            stats['rejected'][type(e).__name__] = stats['rejected'].get(type(e).__name__, 0) + 1
            # rejected with an exception: allowed; the key must not exist afterwards
            if key in cache:
                res.violations.append(fw.Violation('rejected_but_stored', 'store raised %r but the key exists' % e, case))
        want = v.data if is_stream else v
        kind = type(v).__name__
        stats['kinds'][kind] = stats['kinds'].get(kind, 0) + 1
        row = observe_row(d, (diskcls(d).put(key)[0] if diskname == 'JSONDisk' else key)) if stored else None
        file_backed = bool(row and row[2] is not None)
        stats['file_backed'] += int(file_backed)
        res.count(['rt', diskname, m, protocol, short(v)], nontrivial=True)
        got_plain = None
        if stored:
            accessors = []
            accessors.append(('get', lambda: cache.get(key)))
            accessors.append(('getitem', lambda: cache[key]))
            if file_backed and row[1] == 2 and (is_stream or (diskname == 'Disk' and isinstance(v, bytes))):
                def rd():
                    with cache.read(key) as fh:
                        return fh.read()
                accessors.append(('read', rd))

            def viapop():
                put(cache, key + 'p')
                return cache.pop(key + 'p')
            accessors.append(('pop', viapop))

            def viapeekitem():
                put(cache, key + 'z')
                r = cache.peekitem()[1]
                del cache[key + 'z']
                return r
            accessors.append(('peekitem', viapeekitem))

            def viaqueue():
                if is_stream:
                    cache.push(v.open(), prefix='q', read=True)
                else:
                    cache.push(v, prefix='q')
                a = cache.peek(prefix='q')[1]
                b = cache.pull(prefix='q')[1]
                return (a, b)
            accessors.append(('peek+pull', viaqueue))
            if not is_stream and diskname == 'Disk':
                def viadeque():
                    dq.append(v)
                    a = dq[len(dq) - 1]
                    b = dq.pop()
                    return (a, b)
                accessors.append(('deque[]+pop', viadeque))
            if not is_stream:
                def viaindex():
                    ix[key] = v
                    a = ix[key]
                    b = ix.pop(key)
                    return (a, b)
                accessors.append(('index[]+pop', viaindex))
            for name, f in accessors:
                stats['accessor_calls'] += 1
                try:
                    got = f()
                except Exception as e:  # noqa
                    got = ('<raised>', type(e).__name__)
                    ok = False
                else:
                    if isinstance(got, tuple) and name in ('peek+pull', 'deque[]+pop', 'index[]+pop'):
                        ok = all(same(g, want) for g in got)
                    else:
                        ok = same(got, want)
                if name == 'get':
                    got_plain = got
                if not ok:
                    c2 = dict(case)
                    c2.update({'accessor': name, 'got': short(got), 'file_backed': file_backed})
                    res.violations.append(fw.Violation(classify(v, name, file_backed, diskname, got),
                                                       'stored %s came back as %s through %s' % (short(v), short(got), name), c2))
        # correspondence case (Disk only for the row-level comparison; JSONDisk through jstore/jfetch)
        coqcases.append((diskname, m, protocol, v, stored, row, got_plain, d))
        res.sample({'disk': diskname, 'min_file_size': m, 'protocol': protocol, 'value': short(v), 'stored': stored,
                    'row(size,mode,file?)': None if row is None else [row[0], row[1], row[2] is not None]})
    return cache, dq, ix


def file_term(directory, row):
    if row is None or row[2] is None:
        return 'None'
    with open(os.path.join(directory, row[2]), 'rb') as f:
        data = f.read()
    if row[1] == 3:
        return '(Some (FText %s))' % fw.cstr(data.decode('utf-8', 'surrogatepass'))
    return '(Some (FBytes %s))' % fw.cbytes(data)


def coq_check(case, disks):
    diskname, m, protocol, v, stored, row, got, directory = case
    vt = val.py_term(v)
    if diskname == 'JSONDisk' and not isinstance(v, Stream):
        jzb = zlib.compress(json.dumps(v).encode('utf-8'), 1)
        pk = b''
    else:
        jzb = b''
        pk = b'' if isinstance(v, Stream) else pickle.dumps(v, protocol=protocol)
    read = isinstance(v, Stream)
    head = ('let v := %s in let pk := %s in let jzb := %s in '
            'let c := {| pkk := fun _ => []; pkv := fun _ => pk; unpk := fun b => if zlist_eqb b pk then Some v else None |} in '
            'let j := {| jz := fun _ => jzb; unjz := fun b => if %s && zlist_eqb b jzb then Some v else None |} in '
            % (vt, fw.cbytes(pk), fw.cbytes(jzb), fw.cbool(not isinstance(v, Stream))))
    st = 'store c' if diskname == 'Disk' else 'jstore c j'
    fe = 'fetch c' if diskname == 'Disk' else 'jfetch c j'
    if not stored:
        return head + 'match %s %s v %s with StRaise => true | StOk _ => false end' % (st, fw.cz(m), fw.cbool(read))
    if isinstance(got, tuple) and got and got[0] == '<raised>':
        gt = 'FBad'
    elif got is None and v is not None:
        gt = 'FPyNone'
    else:
        gt = '(FVal %s)' % val.py_term(got)
    return head + ('match %s %s v %s with StRaise => false | StOk s => (s_size s =? %s) && (s_mode s =? %s) && '
                   'fcontent_eqb (s_file s) %s && sql_same (s_col s) %s && '
                   'fetched_eqb (%s (s_mode s) (s_file s) (s_col s) false) %s end'
                   % (st, fw.cz(m), fw.cbool(read), fw.cz(row[0]), fw.cz(row[1]), file_term(directory, row),
                      val.sql_term(row[3]), fe, gt))


def correspondence(ctx, res, coqcases, limit_big):
    small, big = [], []
    for c in coqcases:
        v = c[3]
        n = len(v.data) if isinstance(v, Stream) else (len(v) if isinstance(v, (str, bytes)) else 0)
        if n > 70000:
            continue
        (big if n > 4000 else small).append(c)
    if len(big) > limit_big:
        big = ctx.rng.sample(big, limit_big)
    cases = small + big
    checks = [coq_check(c, None) for c in cases]
    imports = ['DCPrelude', 'Val', 'DiskBase', 'Gen_Disk', 'Disk']
    bad, errors = fw.coq_mismatches('c01', imports, '', checks[:len(small)], chunk=100)
    bad2, errors2 = fw.coq_mismatches('c01big', imports, '', checks[len(small):], chunk=1)
    bad += [len(small) + i for i in bad2]
    errors += errors2
    res.traces_validated += len(checks) - len(bad)
    for e in errors:
        res.disagreements.append(fw.Violation('model-eval', 'model evaluation failed: ' + e[-400:], {}, 'correspondence'))
    seen = set()
    for i in bad:
        diskname, m, protocol, v, stored, row, got, _ = cases[i]
        key = (diskname, type(v).__name__, stored)
        if key in seen:
            continue
        seen.add(key)
        res.disagreements.append(fw.Violation(
            'store_fetch', 'model store/fetch disagrees with Disk on %s' % short(v),
            {'disk': diskname, 'min_file_size': m, 'protocol': protocol, 'value': short(v), 'stored': stored,
             'row': None if row is None else [row[0], row[1], row[2] is not None, short(row[3])], 'got': short(got)}, 'correspondence'))
    res.extra['model_cases'] = len(checks)


def faulted_writes(ctx, res, stats):
    """one transient OSError at the k-th write()/close() of a value file: the store must either raise and
    leave the key absent, or succeed and give the identical value back"""
    import sched
    vals = [b'B' * 3000 + b'\n' + b'C' * 3000 + b'\n' + b'tail', 'line one\n' * 300 + 'end', {'k': ['v' * 50] * 40},
            Stream(bytes(range(256)) * 40)]
    for vi, v in enumerate(vals):
        for k in range(1, 5):
            d = ctx.scratch('c01f')
            cache = diskcache.Cache(d, disk_min_file_size=64)
            counter = {'n': 0, 'fired': False}

            def before(ev, k=k, counter=counter):
                if ev.kind == 'file' and ev.what in ('write', 'close') and not counter['fired']:
                    counter['n'] += 1
                    if counter['n'] == k:
                        counter['fired'] = True
                        raise OSError('injected transient fault')
            tr = sched.Tracer(before=before)
            raised = False
            with tr:
                tr.enable(True)
                try:
                    if isinstance(v, Stream):
                        cache.set('k', v.open(), read=True)
                    else:
                        cache.set('k', v)
                except OSError:
                    raised = True
                tr.enable(False)
            want = v.data if isinstance(v, Stream) else v
            stats['faulted_writes'] = stats.get('faulted_writes', 0) + 1
            res.count(['faultwrite', vi, k, raised], nontrivial=counter['fired'])
            try:
                if raised:
                    if 'k' in cache:
                        res.violations.append(fw.Violation('rejected_but_stored', 'a store that raised left the key present',
                                                           {'check': 'faulted_write', 'value': short(v), 'fault_at': k}))
                else:
                    got = cache.get('k')
                    if not same(got, want):
                        res.violations.append(fw.Violation('altered_after_write_fault', 'a transient write error was swallowed and the value came back as %s' % short(got),
                                                           {'check': 'faulted_write', 'value': short(v), 'fault_at': k}))
            except Exception as e:
                res.violations.append(fw.Violation('altered_after_write_fault', 'lookup after a faulted store raised %r' % e,
                                                   {'check': 'faulted_write', 'value': short(v), 'fault_at': k}))
            cache.close()


# ---------------------------------------------------------------------------------------------------------------
# Stores that overlap on ONE shared object (threads sharing a Cache / FanoutCache / Index, or a store issued while
# another value is being pickled): every key must still give back the value that was stored under it.

class _GateBase:
    """A picklable value that runs a one-shot hook while it is being pickled (i.e. inside Disk.store)."""
    hooks = {}

    def __init__(self, tag):
        self.tag = tag

    def _fire(self):
        h = _GateBase.hooks.pop(self.tag, None)
        if h is not None:
            h()

    def __eq__(self, o):
        return type(o) is type(self) and o.tag == self.tag

    def __hash__(self):
        return hash(self.tag)

    def __repr__(self):
        return '%s(%r)' % (type(self).__name__, self.tag)


class GateReduce(_GateBase):
    def __reduce__(self):
        self._fire()
        return (type(self), (self.tag,))


class GateReduceEx(_GateBase):
    def __reduce_ex__(self, protocol):
        self._fire()
        return (type(self), (self.tag,))


class GateState(_GateBase):
    def __getstate__(self):
        self._fire()
        return {'tag': self.tag}

    def __setstate__(self, st):
        self.tag = st['tag']


GATES = {'reduce': GateReduce, 'reduce_ex': GateReduceEx, 'getstate': GateState}

# value of the blocked store, around the gate object g (m = min_file_size of the container)
SHAPES = {
    'bare': lambda g, m: g,
    'list_mid': lambda g, m: ['head' * 10, 1, g, 2.5, 'tail'],
    'dict_last': lambda g, m: {'owner': 'A', 'n': -0.0, 'items': [('a', (1, 2.5, 'x'))], 'g': g},
    'tuple_first': lambda g, m: (g, b'bytes' * 20, None),
    'nested': lambda g, m: {'a': [(1, [g, 2 ** 70])], 'b': 'x' * 100},
    'large_before': lambda g, m: ['x\r\n' * (min(m, BIG) // 3 + 10), g, b'\x00' * 40],
    'twice': lambda g, m: [g, {'again': g}],
}

# value of the store that runs meanwhile (pickled and raw ones)
OTHERS = {
    'none': lambda m: None,
    'tuple': lambda m: (1, 2.0, 'x', b'y', None),
    'dict': lambda m: {'owner': 'B', 'items': [('b', (None, True))], 'n': 2 ** 70},
    'bigint': lambda m: 2 ** 64,
    'list_crlf': lambda m: [b'\r\n' * 50],
    'frozenset': lambda m: frozenset({1, 2}),
    'large_pickle': lambda m: ['y' * (min(m, BIG) + 10)],
    'gate_free': lambda m: [GateReduce('free'), GateState('free')],
    'bool': lambda m: True,
    'str': lambda m: 'plain text \r\n' * 3,
    'bytes': lambda m: b'\x00\xffplain bytes',
    'int': lambda m: 7,
    'float': lambda m: -0.0,
    'nan': lambda m: float('nan'),
}

SHARED_KINDS = ['Cache.set', 'Cache.add', 'Cache.push', 'FanoutCache1.set', 'FanoutCache2.set', 'FanoutCache2.add', 'Index.setitem']


class _Worker:
    """one persistent second thread per shared object (its own SQLite connection, the SAME Cache/Disk object)"""

    def __init__(self):
        import queue
        import threading
        self.q = queue.Queue()
        self.t = threading.Thread(target=self._loop, daemon=True)
        self.t.start()

    def _loop(self):
        while True:
            f = self.q.get()
            if f is None:
                return
            f()

    def submit(self, f):
        self.q.put(f)

    def stop(self):
        self.q.put(None)
        self.t.join(10)


class Shared:
    def __init__(self, directory, kind, m, protocol):
        kw = dict(disk_min_file_size=m, disk_pickle_protocol=protocol, eviction_policy='none')
        cont, self.op = kind.split('.')
        self.kind, self.cont = kind, cont.rstrip('0123456789')
        if cont == 'Cache':
            self.obj = diskcache.Cache(directory, **kw)
        elif cont.startswith('FanoutCache'):
            self.obj = diskcache.FanoutCache(directory, shards=int(cont[len('FanoutCache'):]), **kw)
        else:
            self.obj = diskcache.Index.fromcache(diskcache.Cache(directory, **kw))
        self.worker = _Worker()

    def store(self, k, v):
        o = self.obj
        if self.op == 'set':
            return o.set(k, v, retry=True)
        if self.op == 'add':
            return o.add(k, v, retry=True)
        if self.op == 'push':
            return o.push(v, prefix=k, retry=True)
        o[k] = v
        return True

    def absent(self, k):
        if self.op == 'push':
            return self.obj.peek(prefix=k, default=('<none>', '<none>')) == ('<none>', '<none>')
        return k not in self.obj

    def readers(self, k):
        o = self.obj
        if self.op == 'push':
            return [('peek', lambda: o.peek(prefix=k)[1]), ('pull', lambda: o.pull(prefix=k)[1])]
        if self.cont == 'Index':
            return [('index[]', lambda: o[k]), ('index.get', lambda: o.get(k)), ('index.pop', lambda: o.pop(k))]
        return [('get', lambda: o.get(k)), ('getitem', lambda: o[k]), ('pop', lambda: o.pop(k))]

    def close(self):
        self.worker.stop()
        (self.obj.cache if self.cont == 'Index' else self.obj).close()


_overlap_n = [0]


def overlap_case(env, p, m):
    """One scenario.  The store of value A (shape p['shape'] around a gate of kind p['gate']) is suspended INSIDE the
    pickling of A; meanwhile value B (p['other']) is stored completely through the same object -- by a second thread
    (p['mode'] == 'threads') or by the suspended thread itself (p['mode'] == 'reentrant').  Returns (problems, info)."""
    import threading
    _overlap_n[0] += 1
    n = _overlap_n[0]
    g = GATES[p['gate']]('g%d' % n)
    va = SHAPES[p['shape']](g, m)
    vb = OTHERS[p['other']](m)
    ka, kb = 'a%d' % n, 'b%d' % n
    box = {'fired': False, 'overlapped': False}
    done = threading.Event()

    def b_job():
        try:
            box['b_ret'] = env.store(kb, vb)
        except Exception as e:  # noqa
            box['b_exc'] = e
        finally:
            done.set()

    def hook():
        box['fired'] = True
        if p['mode'] == 'threads':
            env.worker.submit(b_job)
            box['overlapped'] = done.wait(10)
        else:
            b_job()
            box['overlapped'] = True

    _GateBase.hooks[g.tag] = hook
    try:
        box['a_ret'] = env.store(ka, va)
    except Exception as e:  # noqa
        box['a_exc'] = e
    finally:
        _GateBase.hooks.pop(g.tag, None)
    if not box['fired']:
        env.worker.submit(b_job)
    done.wait(60)
    problems = []
    for who, k, v in (('suspended', ka, va), ('meanwhile', kb, vb)):
        exc = box.get(who[0] == 's' and 'a_exc' or 'b_exc')
        ret = box.get(who[0] == 's' and 'a_ret' or 'b_ret')
        if exc is not None or ret is False:
            try:
                if not env.absent(k):
                    problems.append(('rejected_but_stored', 'the %s store raised %r / returned %r but its key exists' % (who, exc, ret)))
            except Exception as e:  # noqa
                problems.append(('rejected_but_stored', 'the %s store raised %r and looking its key up raised %r' % (who, exc, e)))
            continue
        for name, f in env.readers(k):
            try:
                got = f()
                ok = same(got, v)
            except Exception as e:  # noqa
                got, ok = ('<raised>', type(e).__name__, str(e)[:80]), False
            if not ok:
                # control: the same value stored alone (its hook has fired, so nothing overlaps now); if that is altered too, the
                # overlap is not the cause and the case is reported under the signature of the sequential monitor
                try:
                    env.store(k + 'c', v)
                    alone = env.readers(k + 'c')[0][1]()
                    alone_ok = same(alone, v)
                except Exception:  # noqa
                    alone_ok = False
                if not alone_ok:
                    problems.append((classify(v, name, True, 'Disk', got), 'stored %s came back as %s through %s (with or without an overlapping store)'
                                     % (short(v), short(got), name)))
                    break
                problems.append(('store_overlap:%s:%s' % (p['mode'], env.cont),
                                 'the value of the %s store (%s) came back through %s as %s; the other store put %s under a different key of the same %s object'
                                 % (who, short(v), name, short(got), short(vb if who[0] == 's' else va), env.kind)))
                break
    return problems, box


def overlapping_stores(ctx, res, stats, thorough):
    protos = list(range(0, pickle.HIGHEST_PROTOCOL + 1)) if thorough else [0, 2, pickle.HIGHEST_PROTOCOL]
    shapes, gates, others = sorted(SHAPES), sorted(GATES), sorted(OTHERS)
    st = stats.setdefault('overlapping_stores', {'scenarios': 0, 'overlapped': 0, 'gate_not_reached': 0})
    rot = ctx.seed
    for kind in SHARED_KINDS:
        for m in (0, 64, BIG):
            for protocol in protos:
                env = Shared(ctx.scratch('c01sh'), kind, m, protocol)
                try:
                    for si, shape in enumerate(shapes):
                        for gi, gate in enumerate(gates):
                            if thorough:
                                combos = [(mode, o) for mode in ('threads', 'reentrant') for o in others]
                            else:
                                rot += 1
                                combos = [('threads', others[rot % len(others)]), ('reentrant', others[(rot * 5 + 3) % len(others)])]
                            for mode, other in combos:
                                p = {'check': 'overlapping_stores', 'kind': kind, 'min_file_size': m, 'protocol': protocol,
                                     'mode': mode, 'shape': shape, 'gate': gate, 'other': other}
                                problems, box = overlap_case(env, p, m)
                                st['scenarios'] += 1
                                st['overlapped'] += int(bool(box['overlapped']))
                                st['gate_not_reached'] += int(not box['fired'])
                                res.count(['overlap', kind, m, protocol, mode, shape, gate, other], nontrivial=bool(box['overlapped']))
                                for sig, desc in problems:
                                    res.violations.append(fw.Violation(sig, desc, dict(p)))
                finally:
                    env.close()
    res.sample({'check': 'overlapping_stores', 'kinds': SHARED_KINDS, 'scenarios': st['scenarios'], 'overlapped': st['overlapped']})


def same_exact(a, b):
    """same type and same value, sign- and NaN-aware (0.0 is not -0.0, 1 is not 1.0, True is not 1)"""
    if type(a) is not type(b):
        return False
    if isinstance(a, float):
        return (a != a and b != b) or (a == b and math.copysign(1.0, a) == math.copysign(1.0, b))
    if isinstance(a, (tuple, list)):
        return len(a) == len(b) and all(same_exact(x, y) for x, y in zip(a, b))
    return a == b


def overwrites(ctx, res, stats):
    """Whatever value is stored LAST under a key is what every lookup returns -- also when the value stored before compares
    equal to it in Python but is another number: 0.0 / -0.0, 1 / 1.0 / True, 2**53 / float(2**53), and the same inside containers,
    on both sides of the file threshold, through Cache, FanoutCache, Index and Deque element assignment."""
    pairs = [(0.0, -0.0), (-0.0, 0.0), (1, 1.0), (1.0, 1), (True, 1), (1, True), (0, False), (False, 0.0), (2 ** 53, float(2 ** 53)),
             (float(2 ** 53), 2 ** 53), (-1, -1.0), ((1, 2), (1.0, 2)), ((0.0,), (-0.0,)), ('a' * 9, 'a' * 9), (b'x' * 9, b'x' * 9),
             (10 ** 30, float(10 ** 30))]
    n = 0
    for m in (0, 8, BIG):
        d = ctx.scratch('c01ow')
        c = diskcache.Cache(d, disk_min_file_size=m, eviction_policy='none')
        f = diskcache.FanoutCache(ctx.scratch('c01owf'), shards=2, disk_min_file_size=m, eviction_policy='none')
        ix = diskcache.Index.fromcache(diskcache.Cache(ctx.scratch('c01owi'), disk_min_file_size=m, eviction_policy='none'))
        dq = diskcache.Deque.fromcache(diskcache.Cache(ctx.scratch('c01owd'), disk_min_file_size=m, eviction_policy='none'))
        dq.append('slot')
        for i, (v1, v2) in enumerate(pairs):
            for name, put, get in (('Cache.set', lambda v: c.set('k%d' % i, v), lambda: c.get('k%d' % i)),
                                   ('Cache[]', lambda v: c.__setitem__('i%d' % i, v), lambda: c['i%d' % i]),
                                   ('FanoutCache.set', lambda v: f.set('k%d' % i, v), lambda: f.get('k%d' % i)),
                                   ('Index[]', lambda v: ix.__setitem__('k%d' % i, v), lambda: ix['k%d' % i]),
                                   ('Deque[0]', lambda v: dq.__setitem__(0, v), lambda: dq[0])):
                put(v1)
                put(v2)
                got = get()
                n += 1
                res.count(['overwrite', m, name, repr(v1), repr(v2)], nontrivial=True)
                if not same_exact(got, v2):
                    res.violations.append(fw.Violation('overwrite_kept_old_value', '%s: stored %r, then stored %r under the same key; the lookup returns %r (%s)'
                                                       % (name, v1, v2, got, type(got).__name__),
                                                       {'check': 'overwrite', 'min_file_size': m, 'accessor': name, 'first': repr(v1), 'second': repr(v2)}))
        for o in (c, f, ix.cache, dq.cache):
            o.close()
    stats['overwrite_cases'] = n


def retry_after_contention(ctx, res, stats):
    """A store that has to WAIT for the write lock (another connection holds it at the first BEGIN attempt and lets go after k failed
    attempts) stores the value all the same: afterwards every accessor returns it, for inline and file-backed values and streams."""
    import sqlite3
    import sched
    n = 0
    for m in (8, BIG):
        for k in (1, 3):
            for vi, v in enumerate([b'y' * (m + 2), 'z' * (m + 2), ('t', 'u' * (m + 2)), 5, 'sm', Stream(b'0123456789' * (m // 5 + 1))]):
                d = ctx.scratch('c01rc')
                diskcache.Cache(d, disk_min_file_size=m).close()
                holder = sqlite3.connect(os.path.join(d, 'cache.db'), isolation_level=None, timeout=0)
                begins = [0]

                def before(ev):
                    if ev.kind == 'sql' and ev.what == 'BEGIN':
                        begins[0] += 1
                        if begins[0] == k + 1:
                            holder.execute('COMMIT')
                tracer = sched.Tracer(before=before)
                is_stream = isinstance(v, Stream)
                want = v.data if is_stream else v
                try:
                    with tracer:
                        c = diskcache.Cache(d, timeout=0, disk_min_file_size=m)
                        len(c)                              # this thread's connection is open before the lock is taken
                        holder.execute('BEGIN IMMEDIATE')
                        tracer.enable(True)
                        ok = c.set('k', v.open(), read=True, retry=True) if is_stream else c.set('k', v, retry=True)
                        tracer.enable(False)
                    got = c.get('k', default='<missing>')
                    try:
                        got2 = c['k']
                    except KeyError:
                        got2 = '<KeyError>'
                    c.close()
                finally:
                    holder.close()
                n += 1
                res.count(['retry-contention', m, k, vi], nontrivial=True)
                if ok is not True or not same_exact(got, want) or not same_exact(got2, want):
                    res.violations.append(fw.Violation('lost_after_waiting_for_lock', 'set(%s, retry=True) waited through %d failed BEGIN attempts and returned %r; '
                                                       'get returns %s, [] returns %s' % (short(v), k, ok, short(got), short(got2)),
                                                       {'check': 'retry_contention', 'min_file_size': m, 'failed_attempts': k, 'value': short(v)}))
    stats['retry_contention_cases'] = n


def witnesses(res):
    """Replay the witnesses of the findings listed for C01 on the implementation."""
    import tempfile, shutil
    d = tempfile.mkdtemp(prefix='c01wit-')
    try:
        c = diskcache.Cache(d, disk_min_file_size=8)
        c['n'] = float('nan')
        g = c['n']
        res.witnessed['nan_to_none'] = not (isinstance(g, float) and g != g)
        c['t'] = 'aaaaaaaa\r\nbbbb\rc'
        res.witnessed['text_cr_translated'] = c['t'] != 'aaaaaaaa\r\nbbbb\rc'
        c.close()
        d2 = os.path.join(d, 'j')
        j = diskcache.Cache(d2, disk=diskcache.JSONDisk, disk_min_file_size=8)
        j.set('s', io.BytesIO(b'0123456789abcdef'), read=True)
        try:
            r = j.get('s')
            res.witnessed['json_stream_plain_get'] = r != b'0123456789abcdef'
        except Exception:
            res.witnessed['json_stream_plain_get'] = True
        j.close()
    finally:
        shutil.rmtree(d, ignore_errors=True)


def run(ctx, big_budget=False):
    res = fw.Result()
    thorough = not ctx.quick or big_budget
    res.rule = ('every value of the alphabet (ints around 0/2^31/2^53/2^63 and beyond, floats incl. -0.0/inf/nan/subnormal, str over '
                '{a,CR,LF,NUL,U+0085,U+2028,astral,lone surrogate}, bytes, None/bool/containers, streams) at lengths min_file_size+{-2..2} '
                'x min_file_size {0,1,8,32768} x pickle protocols x Disk/JSONDisk, stored and read back through get, [], read, pop, peekitem, '
                'push/peek/pull, Deque [] / pop, Index [] / pop; monitor: same type and equal (NaN- and sign-aware); model store/fetch compared '
                'with the row, the file bytes and the lookup result.  distinct = distinct (disk, threshold, protocol, value).  '
                'Overlapping stores on ONE shared object (Cache set/add/push, FanoutCache with 1 and 2 shards set/add, Index []=): the store of a value '
                '(7 shapes around an object whose __reduce__ / __reduce_ex__ / __getstate__ is suspended in the middle of pickling) overlaps a complete '
                'store of another value (14 pickled and raw ones) under another key, by a second thread sharing the object or re-entrantly from the '
                'pickling hook, x min_file_size {0,64,32768} x protocols; afterwards each key gives back its own value through get/[]/pop/peek/pull.')
    import time as _t
    t0 = _t.time()
    stats = {'rejected': {}, 'kinds': {}, 'file_backed': 0, 'accessor_calls': 0}
    coqcases = []
    ms = [0, 1, 8, BIG]
    protos = list(range(0, pickle.HIGHEST_PROTOCOL + 1)) if thorough else [0, 2, pickle.HIGHEST_PROTOCOL]
    opened = []
    for m in ms:
        for p in protos:
            if not thorough and m == BIG and p != protos[ctx.seed % len(protos)]:
                continue
            opened.append(run_config(ctx, res, m, p, diskcache.Disk, thorough, coqcases, stats))
        opened.append(run_config(ctx, res, m, pickle.HIGHEST_PROTOCOL, diskcache.JSONDisk, thorough, coqcases, stats))
    import time as _t
    t1 = _t.time()
    if not ctx.search_mode:
        correspondence(ctx, res, coqcases, 10 if ctx.quick else 40)
    res.extra['timing'] = {'impl_s': round(t1 - t0, 1), 'model_s': round(_t.time() - t1, 1)}
    for cache, dq, ix in opened:
        cache.close()
        dq.cache.close()
        ix.cache.close()
    faulted_writes(ctx, res, stats)
    overwrites(ctx, res, stats)
    retry_after_contention(ctx, res, stats)
    t2 = _t.time()
    overlapping_stores(ctx, res, stats, thorough)
    res.extra['timing']['overlapping_stores_s'] = round(_t.time() - t2, 1)
    res.extra['overlapping_stores'] = stats.get('overlapping_stores')
    res.extra.update({'overwrite_cases': stats.get('overwrite_cases'), 'retry_contention_cases': stats.get('retry_contention_cases'),
                      'faulted_write_cases': stats.get('faulted_writes', 0), 'rejected_by_exception': stats['rejected'], 'value_kinds': stats['kinds'],
                      'file_backed_cases': stats['file_backed'], 'accessor_calls': stats['accessor_calls']})
    witnesses(res)
    return res


def search(ctx, broken):
    return run(ctx, big_budget=True)


def replay(payload):
    case = payload.get('case', {})
    import tempfile, shutil
    if case.get('check') == 'overlapping_stores':
        d = tempfile.mkdtemp(prefix='c01r-')
        env = Shared(d, case['kind'], case['min_file_size'], case['protocol'])
        try:
            problems, box = overlap_case(env, case, case['min_file_size'])
            print('overlapped=%s' % box['overlapped'])
            for sig, desc in problems:
                print(sig, desc)
            return not problems
        finally:
            env.close()
            shutil.rmtree(d, ignore_errors=True)
    d = tempfile.mkdtemp(prefix='c01r-')
    try:
        disk = getattr(diskcache, case.get('disk', 'Disk'))
        c = diskcache.Cache(d, disk=disk, disk_min_file_size=case.get('min_file_size', 0), disk_pickle_protocol=case.get('protocol', 5))
        if case.get('stream_len') is not None:
            data = bytes((i * 7) % 256 for i in range(case['stream_len']))
            c.set('k', io.BytesIO(data), read=True)
            want = data
        else:
            want = pickle.loads(bytes.fromhex(case['value_pickle_hex']))
            c.set('k', want)
        got = c.get('k')
        print('stored %s, got %s' % (short(want), short(got)))
        c.close()
        return same(got, want)
    finally:
        shutil.rmtree(d, ignore_errors=True)
