"""C08 -- counters, rows and value files agree once no operation is in flight."""
import os
import sqlite3
import warnings

import fw
import gen_hist
import instr
import sched
import seqdrv
from instr import core, diskcache

ID = 'C08'
COQ_PROP = 'C08'
LEVEL = 'proof'
TRANSLATE = ['sql', 'disk']
TRUSTED = [
    'trigger semantics (AFTER INSERT/UPDATE/DELETE ... FOR EACH ROW) as modelled by t_insert/t_update/t_delete in coq/model/Cache.v, with the trigger arithmetic compiled from the DDL in core.py',
    'fault injection raises before the intercepted statement/file operation executes; COMMIT/ROLLBACK and os.remove are not injection points (a failed COMMIT keeps the SQLite transaction open, a failed unlink keeps the file: neither can be repaired by the library)',
]
ASSUMPTIONS = ['the file clause is proved for the counters only (C08_counters); files-vs-rows agreement is decided by the monitor and by the row/file correspondence of every history',
               'concurrent clause: see C05']

W = {'set': 16, 'add': 8, 'get': 8, 'contains': 2, 'touch': 4, 'incr': 6, 'pop': 6, 'delete': 5, 'delitem': 2,
     'push': 8, 'pull': 6, 'peek': 3, 'peekitem': 2, 'evict': 2, 'expire': 3, 'cull': 2, 'clear': 1, 'len': 1, 'iter': 1,
     'reversed': 0, 'iterkeys': 1, 'stats': 1}


def consistency(directory):
    """The bookkeeping clauses of the property, recomputed by the harness.  Returns list of (sig, text)."""
    rows, sets, files = seqdrv.observe(directory)
    out = []
    if sets['count'] != len(rows):
        out.append(('count_drift', 'Settings.count=%r but %d rows' % (sets['count'], len(rows))))
    total = sum(r[8] for r in rows)
    if sets['size'] != total:
        out.append(('size_drift', 'Settings.size=%r but SUM(size)=%d' % (sets['size'], total)))
    refs = {}
    for r in rows:
        if r[10] is not None:
            refs[r[10]] = r
    for fn, r in refs.items():
        if fn not in files:
            out.append(('missing_file', 'row %d refers to %s which does not exist' % (r[0], fn)))
        elif len(files[fn]) != r[8]:
            out.append(('wrong_file_size', 'row %d records size %d, file has %d' % (r[0], r[8], len(files[fn]))))
    for fn in files:
        if fn not in refs:
            out.append(('unknown_file', 'value file %s is referenced by no row' % fn))
    return out, (rows, sets, files)


def lib_check(cache):
    with warnings.catch_warnings():
        warnings.simplefilter('always')      # check() collects through catch_warnings(record=True); 'ignore' would blind it
        ws = cache.check()
    return [str(w.message) for w in ws if not issubclass(w.category, diskcache.EmptyDirWarning)]


def plain_histories(ctx, res, nhist, length, stats):
    terms, recs = [], []
    pols = ['least-recently-stored', 'least-recently-used', 'least-frequently-used', 'none']
    for h in range(nhist):
        cfg = seqdrv.Config(policy=pols[h % 4], statistics=(h % 3 == 0), min_file_size=8, cull_limit=[10, 1, 0, 2][(h // 4) % 4])
        cfg.size_limit_rel = [300, 2 ** 29, 80, 1500][h % 4]
        g = gen_hist.Gen(ctx.rng, cfg, weights=W)
        hist = g.history(length)
        r = seqdrv.Runner(ctx, cfg, observe_every=1)
        r.objs = g.objs
        tr = r.run(hist)
        # monitor on the final (quiescent) state and through the library's own check
        bad, _ = consistency(r.dir)
        with instr.Installed(r.clock):
            c = diskcache.Cache(r.dir)
            libw = lib_check(c)
            c.close()
        for sig, text in bad[:2]:
            res.violations.append(fw.Violation(sig, text, dict(gen_hist.history_json(g.objs, hist, cfg), check='history')))
        if libw:
            res.violations.append(fw.Violation('check_warns', 'Cache.check() reports: %s' % libw[:2], dict(gen_hist.history_json(g.objs, hist, cfg), check='history')))
        # and after every call, from the observations the driver already took
        for i, rec in enumerate(tr.calls):
            rows, sets, files = rec['obs']
            stats['states'] += 1
            stats['file_rows'] += sum(1 for x in rows if x[10] is not None)
            ok = (sets['count'] == len(rows) and sets['size'] == sum(x[8] for x in rows)
                  and set(x[10] for x in rows if x[10] is not None) == set(files)
                  and all(len(files[x[10]]) == x[8] for x in rows if x[10] is not None and x[10] in files))
            res.count([h, i, rec['item']['op'], len(rows), len(files)], nontrivial=len(files) > 0)
            if not ok:
                res.violations.append(fw.Violation('inconsistent_after_call', 'bookkeeping differs from content after call %d (%s)' % (i, rec['item']['op']),
                                                   dict(gen_hist.history_json(g.objs, hist[:i + 1], cfg), check='history', failing_call=i)))
                break
        terms.append(seqdrv.history_check_term(r, tr, cfg))
        recs.append((g, hist, cfg))
        if h == 0:
            res.sample({'config': cfg.to_json(), 'calls': [[c_['item']['op'], str(c_['res'])[:50]] for c_ in tr.calls[:10]],
                        'final_rows': len(tr.calls[-1]['obs'][0]), 'final_files': len(tr.calls[-1]['obs'][2])})
    return terms, recs


class Injected(Exception):
    pass


def fault_histories(ctx, res, nhist, length, stats):
    """one injected failure per history: the n-th SQL statement raises OperationalError, or the n-th file
    create/write/close raises OSError"""
    for h in range(nhist):
        cfg = seqdrv.Config(policy=['least-recently-stored', 'none'][h % 2], min_file_size=8, cull_limit=[10, 0][(h // 2) % 2])
        wf = dict(W)
        if h % 3 == 2:
            wf.update({'pop': 20, 'pull': 12, 'get': 14, 'peek': 6, 'set': 24, 'push': 14})
        g = gen_hist.Gen(ctx.rng, cfg, weights=wf)
        hist = g.history(length)
        kind = ['sql', 'file', 'read'][h % 3]
        target = ctx.rng.randrange(5, 60 if kind == 'sql' else 12) if kind != 'read' else ctx.rng.randrange(1, 6)
        counter = {'n': 0, 'fired': None}

        def before(ev, kind=kind, target=target, counter=counter):
            if counter['fired'] is not None:
                return
            if kind == 'sql' and ev.kind == 'sql' and ev.what not in ('BEGIN', 'COMMIT', 'ROLLBACK', 'PRAGMA'):
                counter['n'] += 1
                if counter['n'] == target:
                    counter['fired'] = ev.short() + ' ' + str(ev.detail[0])[:60]
                    raise sqlite3.OperationalError('injected fault')
            if kind == 'read' and ev.kind == 'file' and ev.what == 'open-read':
                counter['n'] += 1
                if counter['n'] == target:
                    counter['fired'] = ev.short()
                    import errno
                    raise OSError(errno.EMFILE, 'injected fault')
            if kind == 'file' and ev.kind == 'file' and ev.what in ('create', 'write', 'close', 'makedirs'):
                counter['n'] += 1
                if counter['n'] == target:
                    counter['fired'] = ev.short()
                    raise OSError('injected fault')
        r = seqdrv.Runner(ctx, cfg, observe_every=0)
        r.objs = g.objs
        failed_at = None
        tracer = sched.Tracer(before=before)
        with instr.Installed(r.clock), tracer:
            r.open()
            tracer.enable(True)
            for i, item in enumerate(hist):
                r.clock.set(item['now'])
                try:
                    r.call(item)
                except (sqlite3.OperationalError, OSError) as e:
                    if 'injected' in str(e) and failed_at is None:
                        failed_at = i
                    else:
                        res.violations.append(fw.Violation('unexpected_error', 'call %d (%s) raised %r' % (i, item['op'], e),
                                                           dict(gen_hist.history_json(g.objs, hist[:i + 1], cfg), check='fault', fault=[kind, target])))
                        break
                except diskcache.Timeout:
                    pass
            tracer.enable(False)
            r.close()
        stats['fault_runs'] += 1
        stats['faults_fired'] += int(counter['fired'] is not None)
        bad, _ = consistency(r.dir)
        res.count(['fault', h, kind, target, counter['fired']], nontrivial=counter['fired'] is not None)
        for sig, text in bad[:2]:
            if sig == 'unknown_file' and counter['fired'] is not None:
                sig = ('leak_after_failed_write:%s' % (hist[failed_at]['op'] if failed_at is not None else '?')) if kind == 'sql' else ('partial_file_after_write_error' if kind == 'file' else 'leak_after_failed_read')
            res.violations.append(fw.Violation(sig, '%s (injected %s fault #%d at %s, failing call %s)' % (
                text, kind, target, counter['fired'], None if failed_at is None else hist[failed_at]['op']),
                dict(gen_hist.history_json(g.objs, hist, cfg), check='fault', fault=[kind, target])))


def unencodable(ctx, res, stats):
    """values/tags the binding rejects after the value file was written"""
    d = ctx.scratch('c08u')
    c = diskcache.Cache(d, disk_min_file_size=8)
    cases = [('tuple_tag', lambda: c.set('k1', 'x' * 50, tag=('t',))),
             ('surrogate_in_long_str', lambda: c.set('k2', 'y' * 50 + '\ud800')),
             ('surrogate_key', lambda: c.set('k\ud800', 'z' * 50))]
    for name, f in cases:
        try:
            f()
            raised = False
        except Exception:
            raised = True
        bad, _ = consistency(d)
        res.count(['unencodable', name], nontrivial=True)
        stats['unencodable'] += 1
        for sig, text in bad[:1]:
            if sig == 'unknown_file':
                sig = 'leak_after_failed_write' if name != 'surrogate_in_long_str' else 'partial_file_after_write_error'
            res.violations.append(fw.Violation(sig, '%s after %s (raised=%s)' % (text, name, raised), {'check': 'unencodable', 'case': name}))
        # clean for the next case
        for dp, dn, fn in os.walk(d):
            for f_ in fn:
                if f_.endswith('.val'):
                    os.remove(os.path.join(dp, f_))
        c.clear()
    c.close()


def open_races(ctx, res, stats, nsched):
    """a second handle is opened (Cache.__init__ re-applies the settings) while another client writes:
    every interleaving must leave counters and files consistent (schedule driver)"""
    for i in range(nsched):
        d = ctx.scratch('c08o')
        clock = instr.Clock(1000.0)
        with instr.Installed(clock):
            base = diskcache.Cache(d, timeout=0, disk_min_file_size=8)
            base.set('a', 'x' * 40)
            base.set('b', 1)
            holder = {}

            def prog_open():
                holder['c2'] = diskcache.Cache(d, timeout=0)
                return 'opened'

            def prog_write():
                base.set('c', 'y' * 50, retry=True)
                base.delete('b', retry=True)
                base.set('d', 2, retry=True)
                base.incr('n', retry=True)
                return 'written'
            s = sched.Scheduler(clock, max_steps=6000)
            schedule = [ctx.rng.choice([0, 0, 1]) for _ in range(200)]
            out = s.run([prog_open, prog_write], schedule, warmups=[None, lambda: base._con])
            for c_ in (holder.get('c2'), base):
                try:
                    if c_ is not None:
                        c_.close()
                except Exception:
                    pass
        stats['open_race_runs'] = stats.get('open_race_runs', 0) + 1
        res.count(['openrace', i, tuple(schedule[:40])], nontrivial=True)
        if out['overflow'] or any(e is not None for e in out['errors']):
            res.violations.append(fw.Violation('open_race_error', 'opening a second handle while another client writes: errors %r overflow %r' % (
                [repr(e)[:80] for e in out['errors']], out['overflow']), {'check': 'open_race', 'schedule': schedule}))
            continue
        bad, _ = consistency(d)
        for sig, text in bad[:1]:
            res.violations.append(fw.Violation('open_race:' + sig, text + ' after a handle was opened concurrently with writes',
                                               {'check': 'open_race', 'schedule': schedule}))


def witnesses(res):
    import tempfile, shutil
    d = tempfile.mkdtemp(prefix='c08wit-')
    try:
        c = diskcache.Cache(d, disk_min_file_size=8)
        try:
            c.set('k2', 'y' * 50 + '\ud800')
        except Exception:
            pass
        bad, _ = consistency(d)
        res.witnessed['partial_file_after_write_error'] = any(s == 'unknown_file' for s, _ in bad)
        c.close()
        shutil.rmtree(d, ignore_errors=True)
        d2 = tempfile.mkdtemp(prefix='c08wit-')
        c = diskcache.Cache(d2, disk_min_file_size=8)
        try:
            c.set('k1', 'x' * 50, tag=('t',))
        except Exception:
            pass
        bad, _ = consistency(d2)
        res.witnessed['leak_after_failed_write'] = any(s == 'unknown_file' for s, _ in bad)
        c.close()
        shutil.rmtree(d2, ignore_errors=True)
    finally:
        shutil.rmtree(d, ignore_errors=True)


def correspondence(ctx, res, terms, recs):
    out, errors = seqdrv.model_first_mismatch('c08', terms, chunk=2)
    for e in errors:
        res.disagreements.append(fw.Violation('model-eval', 'model evaluation failed: ' + e[-400:], {}, 'correspondence'))
    for m, (g, hist, cfg) in zip(out, recs):
        if m is None:
            continue
        if m < 0:
            res.traces_validated += 1
        else:
            res.disagreements.append(fw.Violation('row_model', 'model and implementation differ at call %d (%s)' % (m, hist[m]['op']),
                                                  dict(gen_hist.history_json(g.objs, hist[:m + 1], cfg), check='history', failing_call=m), 'correspondence'))


def run(ctx, big=False):
    res = fw.Result()
    res.rule = ('full-API histories (replace, add-on-present, incr, bulk removal, eviction at a reachable size limit, queue operations) with the '
                'bookkeeping recomputed after every call: count == rows, size == SUM(size) == total file size, every file row resolves to a file '
                'of the recorded size, no unreferenced value file, Cache.check() silent; one injected failure per fault history (n-th SQL statement / '
                'n-th file create/write/close); values and tags the binding rejects; row/file model compared after every call.  '
                'non-trivial = at least one value file exists in the observed state / the fault fired.')
    stats = {'states': 0, 'file_rows': 0, 'fault_runs': 0, 'faults_fired': 0, 'unencodable': 0}
    thorough = not ctx.quick or big
    terms, recs = plain_histories(ctx, res, 20 if not thorough else 120, 60 if not thorough else 150, stats)
    fault_histories(ctx, res, 30 if not thorough else 300, 40, stats)
    unencodable(ctx, res, stats)
    open_races(ctx, res, stats, 12 if not thorough else 150)
    if not ctx.search_mode:
        correspondence(ctx, res, terms, recs)
    res.extra.update({'states_checked': stats['states'], 'file_backed_rows_seen': stats['file_rows'],
                      'fault_histories': stats['fault_runs'], 'faults_that_fired': stats['faults_fired'],
                      'open_race_schedules': stats.get('open_race_runs', 0)})
    witnesses(res)
    return res


def search(ctx, broken):
    return run(ctx, big=True)


def replay(payload):
    case = payload.get('case', {})
    if case.get('check') not in ('history', 'fault'):
        print(payload)
        return True
    objs, hist, cfg = gen_hist.history_from_json(case)
    ctx = fw.Ctx('C08', 'quick', 1)
    try:
        r = seqdrv.Runner(ctx, cfg, observe_every=0)
        r.objs = objs
        r.run(hist)
        bad, _ = consistency(r.dir)
        print('consistency:', bad)
        return not bad
    finally:
        ctx.cleanup()
