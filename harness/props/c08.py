"""C08 -- counters, rows and value files agree once no operation is in flight."""
import os
import sqlite3
import warnings

import callguard
import fw
import gen_hist
import instr
import sched
import seqdrv
from instr import core, diskcache

ID = 'C08'
COQ_PROP = 'C08'
LEVEL = 'proof'
TRANSLATE = ['sql', 'disk', 'format', 'checkfn', 'fanout', 'persistent']      # format: Cache.__init__ re-applies settings and creates the triggers that keep count and size
TRUSTED = [
    'trigger semantics (AFTER INSERT/UPDATE/DELETE ... FOR EACH ROW) as modelled by t_insert/t_update/t_delete in coq/model/Cache.v, with the trigger arithmetic compiled from the DDL in core.py',
    'fault injection raises before the intercepted statement/file operation executes; COMMIT/ROLLBACK and os.remove are not injection points (a failed COMMIT keeps the SQLite transaction open, a failed unlink keeps the file: neither can be repaired by the library)',
]
TRUSTED.append('lock contention is produced in one thread: the lock holder is a second connection (Cache handle or plain sqlite3) of the same '
               'process; SQLite decides BEGIN IMMEDIATE per connection, so the contended handle (timeout=0) sees SQLITE_BUSY exactly as it would '
               'from another thread or process')
TRUSTED.append('threads sharing one Cache object (shared_block_races) are driven by the deterministic scheduler of harness/sched.py: one traced SQL statement / '
               'file operation at a time, with a further switch point right after BEGIN / COMMIT / ROLLBACK; switches inside a statement or between two '
               'bytecodes that touch no database or file are not explored')
ASSUMPTIONS = ['rejected calls (bad argument types) are decided by the monitor only: the row model takes well-typed calls',
               'the file clause is proved for the counters only (C08_counters); files-vs-rows agreement is decided by the monitor and by the row/file correspondence of every history',
               'concurrent clause: see C05',
               'failing-calls family: injected database errors are raised at statements other than BEGIN / COMMIT / ROLLBACK / PRAGMA; decided by the monitor only']

W = {'set': 16, 'add': 8, 'get': 8, 'contains': 2, 'touch': 4, 'incr': 6, 'pop': 6, 'delete': 5, 'delitem': 2,
     'push': 8, 'pull': 6, 'peek': 3, 'peekitem': 2, 'evict': 2, 'expire': 3, 'cull': 2, 'clear': 1, 'len': 1, 'iter': 1,
     'reversed': 0, 'iterkeys': 1, 'stats': 1}


def consistency(directory):
    """The bookkeeping clauses of the property, recomputed by the harness.  Returns list of (sig, text)."""
    rows, sets, files = seqdrv.observe(directory)
    out = []
    if sets['count'] != len(rows):
        out.append(('count_drift', 'Settings.count=%r but %d rows' % (sets['count'], len(rows))))
    total = sum(r[8] for r in rows)
    if sets['size'] != total:
        out.append(('size_drift', 'Settings.size=%r but SUM(size)=%d' % (sets['size'], total)))
    refs = {}
    for r in rows:
        if r[10] is not None:
            refs[r[10]] = r
    for fn, r in refs.items():
        if fn not in files:
            out.append(('missing_file', 'row %d refers to %s which does not exist' % (r[0], fn)))
        elif len(files[fn]) != r[8]:
            out.append(('wrong_file_size', 'row %d records size %d, file has %d' % (r[0], r[8], len(files[fn]))))
    for fn in files:
        if fn not in refs:
            out.append(('unknown_file', 'value file %s is referenced by no row' % fn))
    return out, (rows, sets, files)


def lib_check(cache):
    with warnings.catch_warnings():
        warnings.simplefilter('always')      # check() collects through catch_warnings(record=True); 'ignore' would blind it
        ws = cache.check()
    return [str(w.message) for w in ws if not issubclass(w.category, diskcache.EmptyDirWarning)]


CALL_SECONDS = 30          # wall time after which a single API call is taken not to return (calls take milliseconds)


class Runner(seqdrv.Runner):
    """the sequential driver with a bound on every call: a call that does not return (the library's peek / pull / peekitem retry for ever on a
    row whose value file is gone) raises callguard.CallDidNotReturn instead of hanging the check; `done` counts the calls that returned"""
    done = 0

    def call(self, item):
        with callguard.bounded(CALL_SECONDS, item['op']):
            r = seqdrv.Runner.call(self, item)
        self.done += 1
        return r


def hung_call_violation(res, r, g_objs, hist, cfg, extra=None):
    """the violation for a call of `hist` that did not return: whatever state made the library spin, an operation is still in flight for ever"""
    i = min(r.done, len(hist) - 1)
    bad, _ = consistency(r.dir)
    res.violations.append(fw.Violation('call_did_not_return:%s' % hist[i]['op'], 'call %d (%s %r) did not return within %d s of wall time; the directory at that '
                                       'point: %s' % (i, hist[i]['op'], hist[i]['args'], CALL_SECONDS, bad[:2] or 'consistent'),
                                       dict(dict(gen_hist.history_json(g_objs, hist[:i + 1], cfg), check='history', failing_call=i), **(extra or {}))))


def plain_histories(ctx, res, nhist, length, stats):
    terms, recs = [], []
    pols = ['least-recently-stored', 'least-recently-used', 'least-frequently-used', 'none']
    for h in range(nhist):
        cfg = seqdrv.Config(policy=pols[h % 4], statistics=(h % 3 == 0), min_file_size=8, cull_limit=[10, 1, 0, 2][(h // 4) % 4])
        cfg.size_limit_rel = [300, 2 ** 29, 80, 1500][h % 4]
        g = gen_hist.Gen(ctx.rng, cfg, weights=W)
        hist = g.history(length)
        r = Runner(ctx, cfg, observe_every=1)
        r.objs = g.objs
        try:
            tr = r.run(hist)
        except callguard.CallDidNotReturn:
            hung_call_violation(res, r, g.objs, hist, cfg)
            r.close()
            break               # (found; every further history may cost another CALL_SECONDS)
        # monitor on the final (quiescent) state and through the library's own check
        bad, _ = consistency(r.dir)
        with instr.Installed(r.clock):
            c = diskcache.Cache(r.dir)
            libw = lib_check(c)
            c.close()
        for sig, text in bad[:2]:
            res.violations.append(fw.Violation(sig, text, dict(gen_hist.history_json(g.objs, hist, cfg), check='history')))
        if libw:
            res.violations.append(fw.Violation('check_warns', 'Cache.check() reports: %s' % libw[:2], dict(gen_hist.history_json(g.objs, hist, cfg), check='history')))
        # and after every call, from the observations the driver already took
        for i, rec in enumerate(tr.calls):
            rows, sets, files = rec['obs']
            stats['states'] += 1
            stats['file_rows'] += sum(1 for x in rows if x[10] is not None)
            ok = (sets['count'] == len(rows) and sets['size'] == sum(x[8] for x in rows)
                  and set(x[10] for x in rows if x[10] is not None) == set(files)
                  and all(len(files[x[10]]) == x[8] for x in rows if x[10] is not None and x[10] in files))
            res.count([h, i, rec['item']['op'], len(rows), len(files)], nontrivial=len(files) > 0)
            if not ok:
                res.violations.append(fw.Violation('inconsistent_after_call', 'bookkeeping differs from content after call %d (%s)' % (i, rec['item']['op']),
                                                   dict(gen_hist.history_json(g.objs, hist[:i + 1], cfg), check='history', failing_call=i)))
                break
        terms.append(seqdrv.history_check_term(r, tr, cfg))
        recs.append((g, hist, cfg))
        if h == 0:
            res.sample({'config': cfg.to_json(), 'calls': [[c_['item']['op'], str(c_['res'])[:50]] for c_ in tr.calls[:10]],
                        'final_rows': len(tr.calls[-1]['obs'][0]), 'final_files': len(tr.calls[-1]['obs'][2])})
    return terms, recs


class Injected(Exception):
    pass


def fault_histories(ctx, res, nhist, length, stats):
    """one injected failure per history: the n-th SQL statement raises OperationalError, or the n-th file
    create/write/close raises OSError"""
    for h in range(nhist):
        cfg = seqdrv.Config(policy=['least-recently-stored', 'none'][h % 2], min_file_size=8, cull_limit=[10, 0][(h // 2) % 2])
        wf = dict(W)
        if h % 3 == 2:
            wf.update({'pop': 20, 'pull': 12, 'get': 14, 'peek': 6, 'set': 24, 'push': 14})
        g = gen_hist.Gen(ctx.rng, cfg, weights=wf)
        hist = g.history(length)
        kind = ['sql', 'file', 'read'][h % 3]
        target = ctx.rng.randrange(5, 60 if kind == 'sql' else 12) if kind != 'read' else ctx.rng.randrange(1, 6)
        counter = {'n': 0, 'fired': None}

        def before(ev, kind=kind, target=target, counter=counter):
            if counter['fired'] is not None:
                return
            if kind == 'sql' and ev.kind == 'sql' and ev.what not in ('BEGIN', 'COMMIT', 'ROLLBACK', 'PRAGMA'):
                counter['n'] += 1
                if counter['n'] == target:
                    counter['fired'] = ev.short() + ' ' + str(ev.detail[0])[:60]
                    raise sqlite3.OperationalError('injected fault')
            if kind == 'read' and ev.kind == 'file' and ev.what == 'open-read':
                counter['n'] += 1
                if counter['n'] == target:
                    counter['fired'] = ev.short()
                    import errno
                    raise OSError(errno.EMFILE, 'injected fault')
            if kind == 'file' and ev.kind == 'file' and ev.what in ('create', 'write', 'close', 'makedirs'):
                counter['n'] += 1
                if counter['n'] == target:
                    counter['fired'] = ev.short()
                    raise OSError('injected fault')
        r = Runner(ctx, cfg, observe_every=0)
        r.objs = g.objs
        failed_at = None
        hung = False
        tracer = sched.Tracer(before=before)
        with instr.Installed(r.clock), tracer:
            r.open()
            tracer.enable(True)
            for i, item in enumerate(hist):
                r.clock.set(item['now'])
                try:
                    r.call(item)
                except (sqlite3.OperationalError, OSError) as e:
                    if 'injected' in str(e) and failed_at is None:
                        failed_at = i
                    else:
                        res.violations.append(fw.Violation('unexpected_error', 'call %d (%s) raised %r' % (i, item['op'], e),
                                                           dict(gen_hist.history_json(g.objs, hist[:i + 1], cfg), check='fault', fault=[kind, target])))
                        break
                except diskcache.Timeout:
                    pass
                except callguard.CallDidNotReturn:
                    hung = True
                    break
            tracer.enable(False)
            r.close()
        if hung:
            r.done = i
            hung_call_violation(res, r, g.objs, hist, cfg, {'check': 'fault', 'fault': [kind, target]})
            break
        stats['fault_runs'] += 1
        stats['faults_fired'] += int(counter['fired'] is not None)
        bad, _ = consistency(r.dir)
        res.count(['fault', h, kind, target, counter['fired']], nontrivial=counter['fired'] is not None)
        for sig, text in bad[:2]:
            if sig == 'unknown_file' and counter['fired'] is not None:
                sig = ('leak_after_failed_write:%s' % (hist[failed_at]['op'] if failed_at is not None else '?')) if kind == 'sql' else ('partial_file_after_write_error' if kind == 'file' else 'leak_after_failed_read')
            res.violations.append(fw.Violation(sig, '%s (injected %s fault #%d at %s, failing call %s)' % (
                text, kind, target, counter['fired'], None if failed_at is None else hist[failed_at]['op']),
                dict(gen_hist.history_json(g.objs, hist, cfg), check='fault', fault=[kind, target])))


def unencodable(ctx, res, stats):
    """values/tags the binding rejects after the value file was written"""
    d = ctx.scratch('c08u')
    c = diskcache.Cache(d, disk_min_file_size=8)
    cases = [('tuple_tag', lambda: c.set('k1', 'x' * 50, tag=('t',))),
             ('surrogate_in_long_str', lambda: c.set('k2', 'y' * 50 + '\ud800')),
             ('surrogate_key', lambda: c.set('k\ud800', 'z' * 50))]
    for name, f in cases:
        try:
            f()
            raised = False
        except Exception:
            raised = True
        bad, _ = consistency(d)
        res.count(['unencodable', name], nontrivial=True)
        stats['unencodable'] += 1
        for sig, text in bad[:1]:
            if sig == 'unknown_file':
                sig = 'leak_after_failed_write' if name != 'surrogate_in_long_str' else 'partial_file_after_write_error'
            res.violations.append(fw.Violation(sig, '%s after %s (raised=%s)' % (text, name, raised), {'check': 'unencodable', 'case': name}))
        # clean for the next case
        for dp, dn, fn in os.walk(d):
            for f_ in fn:
                if f_.endswith('.val'):
                    os.remove(os.path.join(dp, f_))
        c.clear()
    c.close()


def open_races(ctx, res, stats, nsched):
    """a second handle is opened (Cache.__init__ re-applies the settings) while another client writes:
    every interleaving must leave counters and files consistent (schedule driver)"""
    for i in range(nsched):
        d = ctx.scratch('c08o')
        clock = instr.Clock(1000.0)
        with instr.Installed(clock):
            base = diskcache.Cache(d, timeout=0, disk_min_file_size=8)
            base.set('a', 'x' * 40)
            base.set('b', 1)
            holder = {}

            def prog_open():
                holder['c2'] = diskcache.Cache(d, timeout=0)
                return 'opened'

            def prog_write():
                base.set('c', 'y' * 50, retry=True)
                base.delete('b', retry=True)
                base.set('d', 2, retry=True)
                base.incr('n', retry=True)
                return 'written'
            s = sched.Scheduler(clock, max_steps=6000)
            schedule = [ctx.rng.choice([0, 0, 1]) for _ in range(200)]
            out = s.run([prog_open, prog_write], schedule, warmups=[None, lambda: base._con])
            for c_ in (holder.get('c2'), base):
                try:
                    if c_ is not None:
                        c_.close()
                except Exception:
                    pass
        stats['open_race_runs'] = stats.get('open_race_runs', 0) + 1
        res.count(['openrace', i, tuple(schedule[:40])], nontrivial=True)
        if out['overflow'] or any(e is not None for e in out['errors']):
            res.violations.append(fw.Violation('open_race_error', 'opening a second handle while another client writes: errors %r overflow %r' % (
                [repr(e)[:80] for e in out['errors']], out['overflow']), {'check': 'open_race', 'schedule': schedule}))
            continue
        bad, _ = consistency(d)
        for sig, text in bad[:1]:
            res.violations.append(fw.Violation('open_race:' + sig, text + ' after a handle was opened concurrently with writes',
                                               {'check': 'open_race', 'schedule': schedule}))


# ---------------------------------------------------------------------------
# lock contention: operations that time out on (or wait for) the write lock


def _cval(spec):
    """['str'|'bytes'|'tuple'|'int'|'stream', n, tag] -> (value, read flag).  With disk_min_file_size=8 every kind but 'int'
    (and very short ones) is kept in a value file; 'stream' is a binary stream stored with read=True (always a file)."""
    import io
    kind, n, t = spec
    if kind == 'str':
        return (chr(97 + t % 26) * n), False
    if kind == 'bytes':
        return bytes([65 + t % 26]) * n, False
    if kind == 'tuple':
        return tuple(range(t, t + n)), False
    if kind == 'stream':
        return io.BytesIO(bytes([48 + t % 10]) * n), True
    return n, False


class _Holder:
    """Another connection that owns the write lock of one cache directory: either a second Cache handle inside
    `with other.transact():` (optionally after a write of its own) or a plain sqlite3 connection after BEGIN IMMEDIATE."""

    def __init__(self, directory, mode):
        self.mode = mode
        self.held = False
        if mode == 'raw':
            self.con = sqlite3.connect(os.path.join(directory, 'cache.db'), timeout=0, isolation_level=None)
        else:
            self.other = diskcache.Cache(directory)
        self.n = 0

    def acquire(self):
        if self.held:
            return
        if self.mode == 'raw':
            self.con.execute('BEGIN IMMEDIATE')
        else:
            self.cm = self.other.transact()
            self.cm.__enter__()
            if self.mode == 'transact+write':
                self.n += 1
                self.other.set('held', 'h' * (20 + self.n))         # a file-backed value of the holder itself, committed on release
        self.held = True

    def release(self):
        if not self.held:
            return
        if self.mode == 'raw':
            self.con.execute('COMMIT')
        else:
            self.cm.__exit__(None, None, None)
        self.held = False

    def close(self):
        self.release()
        if self.mode == 'raw':
            self.con.close()
        else:
            self.other.close()


def _val_files(dirs):
    out = set()
    for d in dirs:
        for dp, dn, fn in os.walk(d):
            out.update(os.path.join(dp, f) for f in fn if f.endswith('.val'))
    return out


def _contention_call(kind, obj, cache, op):
    """one call of the case; raises Timeout (Cache) or returns the documented failure value (FanoutCache)"""
    name = op['op']
    retry = bool(op.get('retry'))
    if name in ('set', 'add'):
        v, read = _cval(op['val'])
        kw = {'read': True} if read else {}
        return getattr(cache, name)(op['key'], v, retry=retry, **kw)
    if name == 'setitem':
        obj[op['key']] = _cval(op['val'])[0]
        return None
    if name == 'push':
        return cache.push(_cval(op['val'])[0], prefix=op.get('prefix'), side=op.get('side', 'back'), retry=retry)
    if name == 'pull':
        return cache.pull(prefix=op.get('prefix'), retry=retry)
    if name == 'incr':
        return cache.incr(op['key'], retry=retry)
    if name == 'delete':
        return cache.delete(op['key'], retry=retry)
    if name == 'pop':
        return cache.pop(op['key'], retry=retry)
    if name == 'touch':
        return cache.touch(op['key'], expire=None, retry=retry)
    if name == 'get':
        return cache.get(op['key'], retry=retry)
    # Deque / Index methods (the library always retries inside them)
    if name in ('append', 'appendleft'):
        return getattr(obj, name)(_cval(op['val'])[0])
    if name == 'extend':
        return obj.extend([_cval(v)[0] for v in op['vals']])
    if name in ('dq_pop', 'dq_popleft'):
        try:
            return getattr(obj, name[3:])()
        except IndexError:
            return None
    if name == 'dq_setitem':
        try:
            obj[op['index']] = _cval(op['val'])[0]
        except IndexError:
            pass
        return None
    if name == 'ix_setdefault':
        return obj.setdefault(op['key'], _cval(op['val'])[0])
    if name == 'ix_pop':
        return obj.pop(op['key'], None)
    if name == 'ix_push':
        return obj.push(_cval(op['val'])[0])
    if name == 'ix_update':
        return obj.update([(k, _cval(v)[0]) for k, v in op['items']])
    raise ValueError(name)


def run_contention_case(case, d):
    """Runs one lock-contention case in directory d.  Returns (problems, info): problems = [(sig, text, op_index)].

    Every call of case['ops'] runs on a handle with timeout=0 while another connection holds the write lock
    (of every shard in case['locked'] for FanoutCache).  retry False: the call must give up (Timeout / failure value);
    retry k >= 2: the lock is released just before the call's k-th BEGIN attempt, so the call waits and then succeeds.
    The bookkeeping clauses are decided only when the lock has been released and no call is running."""
    kind, mode = case['kind'], case['holder']
    minf = case.get('min_file_size', 8)
    problems, info = [], {'timeouts': 0, 'waited': 0, 'ops': 0}
    state = {'armed': None, 'n': 0}
    holders = []

    def before(ev):
        if state['armed'] is not None and ev.kind == 'sql' and ev.what == 'BEGIN':
            state['n'] += 1
            if state['n'] == state['armed']:
                for h in holders:
                    h.release()
                info['waited'] += 1

    tracer = sched.Tracer(before=before)
    with tracer:
        if kind == 'fanout':
            obj = cache = diskcache.FanoutCache(d, shards=case['shards'], timeout=0, disk_min_file_size=minf)
            dirs = [os.path.join(d, '%03d' % s) for s in range(case['shards'])]
            lock_dirs = [dirs[s] for s in case['locked']]
        else:
            cache = diskcache.Cache(d, timeout=0, disk_min_file_size=minf, eviction_policy=case.get('policy', 'least-recently-stored'))
            dirs = lock_dirs = [d]
            obj = cache
            if kind == 'deque':
                obj = diskcache.Deque.fromcache(cache, [], maxlen=case.get('maxlen'))
            elif kind == 'index':
                obj = diskcache.Index.fromcache(cache)
        try:
            for op in case['pre']:
                _contention_call(kind, obj, cache, dict(op, retry=True))
            holders.extend(_Holder(ld, mode) for ld in lock_dirs)

            def quiescent_check(i, name, final=False):
                for dd in dirs:
                    bad, _ = consistency(dd)
                    for sig, text in bad[:2]:
                        problems.append((sig, text, i, name))
                if final and not problems:
                    libw = lib_check(cache)
                    if libw:
                        problems.append(('check_warns', 'check() reports %s' % libw[:2], i, name))

            for h in holders:
                h.acquire()
            listing = _val_files(dirs)
            blame = []
            for i, op in enumerate(case['ops']):
                info['ops'] += 1
                state['armed'], state['n'] = (op['retry'] if op.get('retry') else None), 0
                tracer.enable(True)
                try:
                    r = _contention_call(kind, obj, cache, op)
                    if kind == 'fanout' and not op.get('retry') and r in (False, None) and op['op'] in ('set', 'add', 'delete', 'touch', 'incr', 'pop'):
                        info['timeouts'] += 1
                except diskcache.Timeout:
                    info['timeouts'] += 1
                finally:
                    tracer.enable(False)
                    state['armed'] = None
                now = _val_files(dirs)
                if now - listing:
                    blame.append((i, op['op'], sorted(now - listing)))
                listing = now
                if not case.get('hold_across'):
                    for h in holders:
                        h.release()
                    quiescent_check(i, op['op'])
                    if problems:
                        break
                for h in holders:
                    h.acquire()
            for h in holders:
                h.release()
            if not problems:
                quiescent_check(len(case['ops']) - 1, 'end', final=True)
                # attribute a leaked file to the call during which it appeared
                fixed = []
                for sig, text, i, name in problems:
                    for bi, bop, names in blame:
                        if sig == 'unknown_file' and any(n_.endswith(text.split(' ')[2]) for n_ in names):
                            i, name = bi, bop
                        elif sig == 'check_warns' and any(n_ in text for n_ in names):
                            i, name = bi, bop
                    fixed.append((sig, text, i, name))
                problems[:] = fixed
        finally:
            for h in holders:
                try:
                    h.close()
                except Exception:
                    pass
            try:
                cache.close()
            except Exception:
                pass
    return problems, info


def gen_contention_case(rng, n):
    kind = ['cache', 'fanout', 'deque', 'index', 'cache', 'fanout'][n % 6]
    # (a Deque owns every key of its cache, so its holder and its give-up-at-once calls add no foreign key)
    case = {'check': 'contention', 'kind': kind, 'holder': ['transact', 'raw', 'transact+write'][(n // 6) % 3 if kind in ('cache', 'index') else (n // 6) % 2],
            'hold_across': rng.random() < 0.4, 'min_file_size': 8}
    t = [0]

    def val(filey=0.85):
        t[0] += 1
        if rng.random() < filey:
            k = rng.choice(['str', 'bytes', 'tuple', 'stream'] if kind in ('cache', 'fanout') else ['str', 'bytes', 'tuple'])
            return [k, rng.choice([8, 9, 20, 64, 300, 5000]), t[0]]
        return ['int', rng.randrange(100), t[0]]

    def retry():
        return rng.choice([2, 2, 3, 5])
    keys = ['k%d' % i for i in range(6)]
    if kind in ('cache', 'fanout'):
        if kind == 'fanout':
            case['shards'] = rng.choice([2, 3])
            locked = [s for s in range(case['shards']) if rng.random() < 0.7]
            case['locked'] = locked or list(range(case['shards']))
        case['policy'] = rng.choice(['least-recently-stored', 'least-recently-used', 'none'])
        case['pre'] = [{'op': 'set', 'key': k, 'val': val()} for k in rng.sample(keys, 3)]
        if kind == 'cache':
            case['pre'] += [{'op': 'push', 'val': val(), 'prefix': None}]
        ops = []
        for _ in range(rng.randrange(4, 10)):
            name = rng.choice(['set', 'set', 'set', 'add', 'add', 'incr', 'delete', 'pop', 'touch', 'get', 'setitem'] +
                              (['push', 'push', 'pull'] if kind == 'cache' else []))
            op = {'op': name, 'retry': rng.choice([False, False, False, retry()])}
            if name in ('set', 'add', 'setitem'):
                op.update(key=rng.choice(keys), val=val(0.95))
            elif name == 'push':
                op.update(val=val(0.95), prefix=rng.choice([None, 'q']), side=rng.choice(['back', 'front']))
            elif name == 'pull':
                op.update(prefix=None)
            elif name == 'incr':
                op.update(key='n%d' % rng.randrange(2))
            else:
                op.update(key=rng.choice(keys))
            if name == 'setitem':
                op['retry'] = retry()       # __setitem__ always retries
            ops.append(op)
        case['ops'] = ops
    elif kind == 'deque':
        case['maxlen'] = rng.choice([None, None, 3])
        case['pre'] = [{'op': 'append', 'val': val()} for _ in range(3)]
        ops = []
        for _ in range(rng.randrange(4, 9)):
            name = rng.choice(['append', 'appendleft', 'extend', 'dq_pop', 'dq_popleft', 'dq_setitem', 'push', 'push'])
            op = {'op': name, 'retry': retry()}
            if name in ('append', 'appendleft'):
                op['val'] = val(0.95)
            elif name == 'extend':
                op['vals'] = [val(0.95) for _ in range(2)]
            elif name == 'dq_setitem':
                op.update(index=rng.randrange(3), val=val(0.95))
            elif name == 'push':          # the queue primitive of the underlying cache, giving up at once
                op.update(val=val(0.95), prefix=None, retry=False)
            ops.append(op)
        case['ops'] = ops
    else:
        case['pre'] = [{'op': 'setitem', 'key': k, 'val': val()} for k in keys[:3]]
        ops = []
        for _ in range(rng.randrange(4, 9)):
            name = rng.choice(['setitem', 'setitem', 'ix_setdefault', 'ix_pop', 'ix_push', 'ix_update', 'set', 'add'])
            op = {'op': name, 'retry': retry()}
            if name in ('setitem', 'ix_setdefault'):
                op.update(key=rng.choice(keys), val=val(0.95))
            elif name == 'ix_pop':
                op.update(key=rng.choice(keys))
            elif name == 'ix_push':
                op.update(val=val(0.95))
            elif name == 'ix_update':
                op['items'] = [[rng.choice(keys), val(0.95)] for _ in range(2)]
            else:                           # through Index.cache, giving up at once
                op.update(key=rng.choice(keys), val=val(0.95), retry=False)
            ops.append(op)
        case['ops'] = ops
    return case


def lock_contention(ctx, res, stats, ncases):
    """set / add / push / replacing set of file-backed values (and read=True streams), removals and counters on a handle with
    timeout=0 while another connection holds the write lock; Deque / Index methods waiting for the lock.  Once the lock is
    released and nothing runs, the bookkeeping clauses must hold and check() must be silent."""
    for n in range(ncases):
        case = gen_contention_case(ctx.rng, n)
        d = ctx.scratch('c08l')
        try:
            problems, info = run_contention_case(case, d)
        except Exception as e:  # noqa
            res.violations.append(fw.Violation('contention_error', 'lock-contention case failed with %r' % (e,), case))
            continue
        stats['contention_cases'] = stats.get('contention_cases', 0) + 1
        stats['contention_timeouts'] = stats.get('contention_timeouts', 0) + info['timeouts']
        stats['contention_waits'] = stats.get('contention_waits', 0) + info['waited']
        res.count(['contention', n, case['kind'], case['holder'], info['timeouts'], info['waited']], nontrivial=info['timeouts'] + info['waited'] > 0)
        if n < 2:
            res.sample({'contention_case': {k: case[k] for k in ('kind', 'holder', 'hold_across')}, 'ops': [o['op'] for o in case['ops']], 'info': info})
        for sig, text, i, name in problems[:1]:
            op = case['ops'][i] if 0 <= i < len(case['ops']) else {}
            how = 'lock_timeout' if not op.get('retry') else 'lock_wait'
            vsig = ('leak_after_%s:%s' % (how, name)) if sig == 'unknown_file' else ('%s:%s:%s' % (how, sig, name))
            res.violations.append(fw.Violation(vsig, '%s after call %d (%s on %s, write lock held by %s)' % (text, i, name, case['kind'], case['holder']),
                                               dict(case, failing_call=i)))


def text_values(ctx, res, stats):
    """text kept in value files whose encoded length differs from its number of characters (2-, 3- and 4-byte code points, mixed
    with ASCII), written by set / add / push / replace / incr-free updates on Cache and FanoutCache: the recorded size must be
    the size of the file (and Settings.size their sum), check() silent"""
    alphabets = {'ascii': 'a', 'latin': '\u00e9', 'greek': '\u03b1\u03b2', 'cjk': '\u4e2d', 'astral': '\U0001f600', 'mixed': 'a\u00e9\u4e2d\U0001f600'}
    for kind in ('cache', 'fanout'):
        for minf in (8, 32768):
            d = ctx.scratch('c08t')
            c = (diskcache.Cache(d, disk_min_file_size=minf) if kind == 'cache' else diskcache.FanoutCache(d, shards=2, disk_min_file_size=minf))
            dirs = [d] if kind == 'cache' else [os.path.join(d, '%03d' % i) for i in range(2)]
            done = []
            try:
                for name, a in sorted(alphabets.items()):
                    text = (a * (minf // len(a) + 3))
                    c.set('s:' + name, text)
                    c.add('a:' + name, text + 'z')
                    c.set('s:' + name, text + text)            # replacing
                    if kind == 'cache':
                        c.push(text, prefix='q')
                    done.append(name)
                    stats['text_values'] = stats.get('text_values', 0) + 1
                    res.count(['text', kind, minf, name], nontrivial=True)
                    bad = [b for dd in dirs for b in consistency(dd)[0]]
                    if bad:
                        sig, msg = bad[0]
                        res.violations.append(fw.Violation('text_value:' + sig, '%s after storing %s text of %d characters (%d bytes encoded) on %s' % (
                            msg, name, len(text), len(text.encode('utf-8')), kind), {'check': 'text', 'kind': kind, 'min_file_size': minf, 'alphabets': done}))
                        break
                else:
                    libw = lib_check(c)
                    if libw:
                        res.violations.append(fw.Violation('text_value:check_warns', 'check() reports %s' % libw[:2],
                                                           {'check': 'text', 'kind': kind, 'min_file_size': minf, 'alphabets': done}))
            finally:
                c.close()


# ---------------------------------------------------------------------------
# REJECTED calls: a storing entry point called with arguments that make it raise.  "After any history of operations, whether they
# succeeded, failed ..." -- a call that fails because of its arguments is a failed operation like one that fails because of a fault.

class _FailingStream:
    """a binary stream whose read() fails after `good` successful reads (an unreadable upload, a broken pipe)"""

    def __init__(self, chunk, good):
        self.chunk, self.good = chunk, good

    def read(self, n=-1):
        if self.good <= 0:
            raise OSError('stream became unreadable')
        self.good -= 1
        return self.chunk


class _RaisesWhenPickled:
    def __reduce__(self):
        raise ValueError('this object refuses to be pickled')


def _rej_bad(kind):
    """arguments of the wrong kind, built afresh for every call: [(name, maker)]"""
    import datetime
    import io
    if kind == 'expire':          # cannot be added to a float / cannot be bound
        return [('timedelta', lambda: datetime.timedelta(seconds=5)), ('str', lambda: '60'), ('list', lambda: [60]), ('complex', lambda: 1j),
                ('object', lambda: object()), ('dict', lambda: {'seconds': 5})]
    if kind == 'tag':             # cannot be bound to a column
        return [('tuple', lambda: ('t',)), ('list', lambda: ['t']), ('dict', lambda: {'a': 1}), ('object', lambda: object()),
                ('surrogate', lambda: 't\ud800'), ('huge_int', lambda: 2 ** 70)]
    if kind == 'key':
        return [('lambda', lambda: (lambda: 0)), ('tuple_with_lambda', lambda: ('k', lambda: 0)), ('surrogate', lambda: 'k\ud800'),
                ('raises_when_pickled', lambda: ('k', _RaisesWhenPickled()))]
    if kind == 'value':           # (value, read)
        return [('lambda', lambda: ((lambda: 0), False)), ('list_with_lambda', lambda: (['x' * 100, lambda: 0], False)),
                ('raises_when_pickled', lambda: (['y' * 100, _RaisesWhenPickled()], False)),
                ('long_text_with_surrogate', lambda: ('y' * 50 + '\ud800', False)),
                ('stream_failing_at_once', lambda: (_FailingStream(b'a' * 3000, 0), True)),
                ('stream_failing_later', lambda: (_FailingStream(b'a' * 3000, 2), True)),
                ('text_stream', lambda: (io.StringIO('text' * 20), True)),
                ('read_of_a_str', lambda: ('abc' * 20, True)), ('read_of_none', lambda: (None, True))]
    if kind == 'delta':
        return [('str', lambda: 'x'), ('none', lambda: None), ('list', lambda: [1]), ('beyond_int64', lambda: 2 ** 63)]
    if kind == 'default':
        return [('str', lambda: 'zero'), ('list', lambda: [0])]
    if kind == 'side':
        return [('middle', lambda: 'middle'), ('none', lambda: None), ('int', lambda: 0)]
    if kind == 'prefix':
        return [('int', lambda: 5), ('bytes', lambda: b'q'), ('list', lambda: ['q'])]
    raise ValueError(kind)


def _rej_value(name, n):
    """the (good) value stored by the call: kept in a value file except 'inline'; -> (value, read)"""
    import io
    if name == 'text':
        return 'x' * (50 + n % 7), False
    if name == 'bytes':
        return b'y' * (50 + n % 7), False
    if name == 'pickle':
        return tuple(range(30 + n % 7)), False
    if name == 'stream':
        return io.BytesIO(b'z' * (50 + n % 7)), True
    return 5, False


REJ_VALUES = ['text', 'bytes', 'pickle', 'stream', 'inline']

# container -> entry point -> (kinds of bad argument it takes, accepts read=True streams, f(o, a)); a = dict(key, value, read, expire, tag, delta,
# default, side, prefix) with the good defaults filled in
REJ_ENTRIES = {
    'Cache': {
        'set': (['expire', 'tag', 'key', 'value'], True, lambda o, a: o.set(a['key'], a['value'], expire=a['expire'], read=a['read'], tag=a['tag'])),
        'add': (['expire', 'tag', 'key', 'value'], True, lambda o, a: o.add(a['key'], a['value'], expire=a['expire'], read=a['read'], tag=a['tag'])),
        'setitem': (['key', 'value'], False, lambda o, a: o.__setitem__(a['key'], a['value'])),
        'push': (['expire', 'tag', 'value', 'side', 'prefix'], True,
                 lambda o, a: o.push(a['value'], prefix=a['prefix'], side=a['side'], expire=a['expire'], read=a['read'], tag=a['tag'])),
        'touch': (['expire'], False, lambda o, a: o.touch('p-file', expire=a['expire'])),
        'incr': (['delta', 'default', 'key'], False, lambda o, a: o.incr(a['key'], a['delta'], a['default'])),
        'decr': (['delta'], False, lambda o, a: o.decr(a['key'], a['delta'], a['default'])),
    },
    'DjangoCache': {
        'set': (['expire', 'tag', 'key', 'value'], True, lambda o, a: o.set(a['key'], a['value'], timeout=a['expire'], read=a['read'], tag=a['tag'])),
        'add': (['expire', 'tag', 'key', 'value'], True, lambda o, a: o.add(a['key'], a['value'], timeout=a['expire'], read=a['read'], tag=a['tag'])),
        'set_many': (['expire', 'value'], False, lambda o, a: o.set_many({a['key']: a['value']}, timeout=a['expire'])),
        'get_or_set': (['expire', 'value'], False, lambda o, a: o.get_or_set(a['key'], a['value'], timeout=a['expire'])),
        'touch': (['expire'], False, lambda o, a: o.touch('p-file', timeout=a['expire'])),
        'incr': (['delta'], False, lambda o, a: o.incr(a['key'], a['delta'])),
        'decr': (['delta'], False, lambda o, a: o.decr(a['key'], a['delta'])),
    },
    'Deque': {
        'append': (['value'], False, lambda o, a: o.append(a['value'])),
        'appendleft': (['value'], False, lambda o, a: o.appendleft(a['value'])),
        'extend': (['value'], False, lambda o, a: o.extend([a['value']])),
        'extendleft': (['value'], False, lambda o, a: o.extendleft([a['value']])),
        'setitem': (['value'], False, lambda o, a: o.__setitem__(1, a['value'])),
        'iadd': (['value'], False, lambda o, a: o.__iadd__([a['value']])),
    },
    'Index': {
        'setitem': (['key', 'value'], False, lambda o, a: o.__setitem__(a['key'], a['value'])),
        'setdefault': (['key', 'value'], False, lambda o, a: o.setdefault(a['key'], a['value'])),
        'update': (['key', 'value'], False, lambda o, a: o.update([(a['key'], a['value'])])),
        'push': (['value', 'side', 'prefix'], False, lambda o, a: o.push(a['value'], prefix=a['prefix'], side=a['side'])),
    },
}
REJ_ENTRIES['FanoutCache'] = {k: v for k, v in REJ_ENTRIES['Cache'].items() if k != 'push'}
REJ_CONTAINERS = ['Cache', 'FanoutCache', 'DjangoCache', 'Deque', 'Index']
# Regression input of a repaired defect (known_findings.txt, fixed: property=C08 050ece2): Cache(disk_min_file_size=8).push('x' * 50, side='middle')
# raised KeyError('middle') from `order[side]` AFTER Disk.store had written the value file and BEFORE the transaction that would remove it ->
# an orphan value file (check(): 'unknown file'); the same through Index.push.  The entry `push` x bad `side` stays in the sweep; a return of the
# defect is reported as rejected_call:unknown_file:push:side.


def _django_cache():
    from django.conf import settings
    if not settings.configured:
        settings.configure()
    from diskcache.djangocache import DjangoCache
    return DjangoCache


class RejEnv:
    """one container with some contents (inline and file-backed items, queue items) on which rejected calls are made one after the other"""

    def __init__(self, mkdir, container):
        self.container = container
        d = mkdir()
        kw = dict(disk_min_file_size=8)
        if container == 'Cache':
            self.obj = diskcache.Cache(d, **kw)
            self.dirs = [d]
        elif container == 'FanoutCache':
            self.obj = diskcache.FanoutCache(d, shards=2, **kw)
            self.dirs = [os.path.join(d, '%03d' % i) for i in range(2)]
        elif container == 'DjangoCache':
            self.obj = _django_cache()(d, {'SHARDS': 2, 'OPTIONS': kw})
            self.dirs = [os.path.join(d, '%03d' % i) for i in range(2)]
        elif container == 'Deque':
            self.obj = diskcache.Deque.fromcache(diskcache.Cache(d, **kw), ['first', 'f' * 60, ('third',) * 9])
            self.dirs = [d]
        else:
            self.obj = diskcache.Index.fromcache(diskcache.Cache(d, **kw))
            self.dirs = [d]
        o = self.obj
        if container in ('Cache', 'FanoutCache', 'DjangoCache'):
            o.set('p-inline', 1)
            o.set('p-file', 'f' * 60)
            o.set('p-pickle', tuple(range(40)))
            o.set('ctr', 5)
            if container == 'Cache':
                o.push('q' * 40)
                o.push('r' * 40, prefix='q')
        elif container == 'Index':
            o['p-inline'] = 1
            o['p-file'] = 'f' * 60
            o.push('q' * 40)

    def snapshot(self):
        return [seqdrv.observe(d) for d in self.dirs]

    def close(self):
        try:
            (self.obj.cache if self.container in ('Deque', 'Index') else self.obj).close()
        except Exception:  # noqa
            pass


def rejected_case(env, p):
    """One call of entry point p['entry'] with ONE argument of the wrong kind (p['kind'], p['bad']) and otherwise good arguments (the value
    p['value'] is file-backed unless 'inline').  -> (problems [(sig, text)], outcome)"""
    kinds, takes_read, f = REJ_ENTRIES[env.container][p['entry']]
    n = p.get('n', 0)
    value, read = _rej_value(p['value'], n)
    a = {'key': 'new-%d' % n, 'value': value, 'read': read, 'expire': None, 'tag': None, 'delta': 1, 'default': 0, 'side': 'back', 'prefix': None}
    if p['entry'] in ('incr', 'decr'):
        a['key'] = 'ctr' if p['kind'] == 'delta' else a['key']
    bad = dict(_rej_bad(p['kind']))[p['bad']]()
    if p['kind'] == 'value':
        a['value'], a['read'] = bad
        if a['read'] and not takes_read:
            return [], 'not-applicable'
    else:
        a[p['kind']] = bad
    before = env.snapshot()
    try:
        r = f(env.obj, a)
        outcome = 'accepted'
    except Exception as e:  # noqa
        outcome = 'raised:' + type(e).__name__
    after = env.snapshot()
    problems = []
    what = '%s.%s with %s = %s (%s)%s %s' % (env.container, p['entry'], p['kind'], p['bad'], repr(bad)[:40],
                                            '' if p['kind'] == 'value' else ' and a %s value' % p['value'], outcome.replace(':', ' '))
    for d in env.dirs:
        bad_, _ = consistency(d)
        for sig, text in bad_[:2]:
            problems.append(('rejected_call:%s:%s:%s' % (sig, p['entry'], p['kind']), '%s: %s' % (what, text)))
    if outcome != 'accepted' and not problems and after != before:
        diffs = []
        for (r0, s0, f0), (r1, s1, f1) in zip(before, after):
            if r0 != r1:
                diffs.append('rows %d -> %d%s' % (len(r0), len(r1), '' if len(r0) != len(r1) else ' (columns changed)'))
            if set(f0) != set(f1):
                diffs.append('files +%d -%d' % (len(set(f1) - set(f0)), len(set(f0) - set(f1))))
            if (s0['count'], s0['size']) != (s1['count'], s1['size']):
                diffs.append('count/size %r -> %r' % ((s0['count'], s0['size']), (s1['count'], s1['size'])))
        if diffs:
            problems.append(('rejected_call:contents_changed:%s:%s' % (p['entry'], p['kind']), '%s but changed the contents: %s' % (what, '; '.join(diffs))))
    return problems, outcome


def rejected_calls(ctx, res, stats, thorough):
    """Every storing entry point of Cache / FanoutCache / DjangoCache / Deque / Index x every kind of argument that makes it raise (expire that
    cannot be added to a time, tag / key that cannot be bound or pickled, value that cannot be pickled / encoded / read, bad incr delta or
    default, bad push side or prefix) x file-backed and inline values.  After every such call: counters == rows, every file row has its file,
    no value file without a row, and -- the call raised -- rows, counters and files exactly as before; check() silent at the end."""
    st = stats.setdefault('rejected_calls', {'calls': 0, 'raised': {}, 'accepted': 0})
    n = 0
    for container in REJ_CONTAINERS:
        env = RejEnv(lambda: ctx.scratch('c08rj'), container)
        try:
            for entry in sorted(REJ_ENTRIES[container]):
                kinds, takes_read, _ = REJ_ENTRIES[container][entry]
                for kind in kinds:
                    for bname, _mk in _rej_bad(kind):
                        if kind == 'value' or entry in ('touch', 'incr', 'decr'):
                            vnames = ['inline']
                        else:
                            vnames = [v for v in REJ_VALUES if v != 'stream' or takes_read]
                            if not thorough:
                                vnames = [vnames[(n + ctx.seed) % len(vnames)], vnames[(n + ctx.seed + 2) % len(vnames)]]
                        for vname in vnames:
                            n += 1
                            p = {'check': 'rejected_call', 'container': container, 'entry': entry, 'kind': kind, 'bad': bname, 'value': vname, 'n': n}
                            problems, outcome = rejected_case(env, p)
                            if outcome == 'not-applicable':
                                continue
                            st['calls'] += 1
                            if outcome == 'accepted':
                                st['accepted'] += 1
                            else:
                                st['raised'][outcome[7:]] = st['raised'].get(outcome[7:], 0) + 1
                            res.count(['rejected', container, entry, kind, bname, vname], nontrivial=outcome != 'accepted')
                            for sig, text in problems[:2]:
                                res.violations.append(fw.Violation(sig, text, dict(p)))
                            if problems:
                                env.close()
                                env = RejEnv(lambda: ctx.scratch('c08rj'), container)
                # the library's own check over what is left
                for d in env.dirs:
                    c = diskcache.Cache(d)
                    try:
                        libw = lib_check(c)
                    finally:
                        c.close()
                    if libw:
                        res.violations.append(fw.Violation('rejected_call:check_warns:%s' % entry, '%s: after the rejected calls of %s check() reports %s'
                                                           % (container, entry, libw[:2]), {'check': 'rejected_series', 'container': container, 'entry': entry}))
        finally:
            env.close()
    res.sample({'check': 'rejected_calls', 'containers': REJ_CONTAINERS, 'calls': st['calls'], 'raised': st['raised'], 'accepted': st['accepted']})


# ---------------------------------------------------------------------------------------------------------------
# Failing calls on ONE object, step by step.  "After any history of operations, whether they succeeded, failed ...": (1) stores of
# file-backed values that SUCCEEDED, followed on the same object by calls that fail in every way a call can fail (KeyError of incr
# without default / del of a missing key / pop from an empty Deque, a block that raises, a value the binding rejects, an injected database
# error), followed by more stores and more failures; (2) an injected database error at EVERY statement of every storing call with a
# file-backed value, on a key that is absent / holds an inline value / holds a file / has expired (the lazy cull has expired rows to
# remove), alone, inside a block that then raises, and inside a block that catches the error and commits.  After every step the clauses
# of the property are recomputed.

FC_CONTAINERS = ['Cache', 'FanoutCache', 'Index', 'Deque']


def _fc_open(d, container, cull_limit):
    kw = dict(disk_min_file_size=8, cull_limit=cull_limit, eviction_policy='least-recently-stored')
    if container == 'Cache':
        o = diskcache.Cache(d, **kw)
        return o, [d], o
    if container == 'FanoutCache':
        o = diskcache.FanoutCache(d, shards=2, **kw)
        return o, [os.path.join(d, '%03d' % i) for i in range(2)], o
    c = diskcache.Cache(d, **dict(kw, eviction_policy='none'))
    o = (diskcache.Index if container == 'Index' else diskcache.Deque).fromcache(c)
    return o, [d], c


def _fc_call(o, container, st):
    op, k = st['op'], st.get('key')
    v, read = _cval(st['value']) if 'value' in st else (None, False)
    if container in ('Cache', 'FanoutCache'):
        if op == 'set':
            return o.set(k, v, expire=st.get('expire'), read=read, tag=st.get('tag'))
        if op == 'add':
            return o.add(k, v, expire=st.get('expire'), read=read, tag=st.get('tag'))
        if op == 'setitem':
            o[k] = v
            return None
        if op == 'push':
            return o.push(v, prefix=st.get('prefix'), side=st.get('side', 'back'), expire=st.get('expire'), read=read)
        if op == 'pull':
            return o.pull(prefix=st.get('prefix'))
        if op == 'incr':
            return o.incr(k, st.get('delta', 1), default=st.get('default', 0))
        if op == 'touch':
            return o.touch(k, expire=st.get('expire'))
        if op == 'pop':
            return o.pop(k)
        if op == 'delete':
            return o.delete(k)
        if op == 'delitem':
            del o[k]
            return None
        if op == 'get':
            return o.get(k)
        if op in ('expire', 'cull', 'clear'):
            return getattr(o, op)()
    elif container == 'Index':
        if op in ('set', 'setitem'):
            o[k] = v
            return None
        if op in ('add', 'setdefault'):
            return o.setdefault(k, v)
        if op == 'update':
            return o.update({k: v})
        if op == 'push':
            return o.push(v, prefix=st.get('prefix'), side=st.get('side', 'back'))
        if op == 'pull':
            return o.pull(prefix=st.get('prefix'))
        if op == 'pop':
            return o.pop(k)
        if op == 'delitem':
            del o[k]
            return None
        if op == 'popitem':
            return o.popitem()
        if op == 'get':
            return o.get(k)
        if op == 'clear':
            return o.clear()
    else:
        if op in ('append', 'set', 'push'):
            return o.append(v)
        if op in ('appendleft', 'add'):
            return o.appendleft(v)
        if op == 'extend':
            return o.extend([v, _cval(st['value2'])[0]])
        if op == 'setitem':
            o[st['index']] = v
            return None
        if op == 'delitem':
            del o[st['index']]
            return None
        if op in ('pop', 'popleft'):
            return getattr(o, op)()
        if op == 'rotate':
            return o.rotate(st.get('n', 1))
        if op == 'clear':
            return o.clear()
    raise ValueError('no %s on %s' % (op, container))


def fc_run(mkdir, case):
    """Runs the steps of case (see above) on one fresh container; a step may carry 'fault': n (the n-th statement of that step other than
    BEGIN / COMMIT / ROLLBACK / PRAGMA raises OperationalError) and / or 'block': 'raise' | 'catch' (the call is made inside
    `with o.transact():`, which then raises, or which catches the call's exception and completes).
    -> (problems [(sig, text, step index)], info {'statements': [per step], 'outcomes': [...]})"""
    container = case['container']
    d = mkdir()
    clock = instr.Clock(1000.0)
    state = {'active': False, 'n': 0, 'target': None, 'fired': None}

    def before(ev):
        if not state['active'] or ev.kind != 'sql' or ev.what in ('BEGIN', 'COMMIT', 'ROLLBACK', 'PRAGMA'):
            return
        state['n'] += 1
        if state['target'] is not None and state['n'] == state['target'] and state['fired'] is None:
            state['fired'] = ev.short() + ' ' + str(ev.detail[0])[:70]
            raise sqlite3.OperationalError('injected fault')
    problems, counts, outcomes = [], [], []
    tracer = sched.Tracer(before=before)
    import diskcache.fanout as fanout_mod
    with instr.Installed(clock, extra_modules=[fanout_mod]), tracer:
        o, dirs, closer = _fc_open(d, container, case.get('cull_limit', 10))
        tracer.enable(True)
        try:
            for i, st in enumerate(case['steps']):
                if st['op'] == 'advance':
                    clock.set(clock.now + st['dt'])
                    counts.append(0)
                    outcomes.append('clock')
                    continue
                state.update({'active': True, 'n': 0, 'target': st.get('fault'), 'fired': None})
                outcome = None
                files_before = _val_files(dirs)
                try:
                    if st.get('block'):
                        try:
                            with o.transact():
                                for pre in st.get('before_in_block', []):
                                    _fc_call(o, container, pre)
                                try:
                                    outcome = 'returned %r' % (_fc_call(o, container, st),)
                                except Exception as e:  # noqa
                                    if st['block'] != 'catch':
                                        raise
                                    outcome = 'raised %s, caught inside the block' % type(e).__name__
                                if st['block'] == 'raise':
                                    raise Injected('the block raises')
                        except Injected:
                            outcome = (outcome or '') + '; the block raised'
                    else:
                        outcome = 'returned %r' % (_fc_call(o, container, st),)
                except Exception as e:  # noqa
                    outcome = 'raised %s%s' % (type(e).__name__, ' (injected at %s)' % state['fired'] if state['fired'] else '')
                state['active'] = False
                counts.append(state['n'])
                outcomes.append(outcome[:120])
                bad = []
                for sd in dirs:
                    bad += consistency(sd)[0]
                if bad:
                    sig, text = bad[0]
                    # the exact class of finding C08-F1: the ONLY inconsistency is value files written by this step's call, which raised inside a
                    # block, was caught there, and the block completed
                    orphans = [t for s_, t in bad if s_ == 'unknown_file']
                    fresh = [os.path.relpath(f, sd) for sd in dirs for f in _val_files([sd]) - files_before]
                    own = (st.get('block') == 'catch' and 'caught inside the block' in (outcome or '') and len(orphans) == len(bad)
                           and all(any(fn in t for fn in fresh) for t in orphans))
                    problems.append(('leak_after_caught_failure_in_block' if own else sig, text, i))
                    break
            if not problems:
                tracer.enable(False)
                for sd in dirs:
                    c = diskcache.Cache(sd)
                    try:
                        libw = lib_check(c)
                    finally:
                        c.close()
                    if libw:
                        problems.append(('check_warns', 'Cache.check() reports: %s' % libw[:2], len(case['steps']) - 1))
                        break
        finally:
            tracer.enable(False)
            try:
                closer.close()
            except Exception:  # noqa
                pass
    return problems, {'statements': counts, 'outcomes': outcomes}


def _fc_describe(case, i, info):
    st = case['steps'][i]
    how = ''
    if st.get('block'):
        how = ' inside a block that %s' % ('then raises' if st['block'] == 'raise' else 'catches the exception and completes')
    hist = '; '.join('%s%s -> %s' % (s_['op'], '(%r)' % s_['key'] if 'key' in s_ else '', oc) for s_, oc in zip(case['steps'][:i + 1], info['outcomes']) if s_['op'] != 'advance')
    return '%s step %d (%s%s%s): %s' % (case['container'], i, st['op'], ' with an injected database error at its statement #%d' % st['fault'] if st.get('fault') else '', how, hist[-700:])


def fc_stores_then_failures(container):
    """-> list of step lists: successful file-backed stores, a failing call, more stores, another failing call ..."""
    S = lambda kind, n, t: [kind, n, t]
    if container in ('Cache', 'FanoutCache'):
        stores = [[{'op': 'set', 'key': 'a', 'value': S('str', 40, 1)}, {'op': 'add', 'key': 'b', 'value': S('bytes', 30, 2)}],
                  [{'op': 'setitem', 'key': 'c', 'value': S('tuple', 12, 3)}, {'op': 'set', 'key': 'a', 'value': S('bytes', 50, 4)}],
                  [{'op': 'set', 'key': 'd', 'value': S('stream', 60, 5)}, {'op': 'incr', 'key': 'n'}, {'op': 'add', 'key': 'e', 'value': S('str', 33, 6), 'expire': 100}]]
        if container == 'Cache':
            stores[1].append({'op': 'push', 'value': S('str', 25, 7), 'prefix': 'q'})
        fails = [{'op': 'incr', 'key': 'missing', 'default': None}, {'op': 'delitem', 'key': 'missing'},
                 {'op': 'set', 'key': 'x', 'value': S('int', 1, 0), 'block': 'raise'}, {'op': 'set', 'key': 'y', 'value': S('str', 44, 8), 'block': 'raise'},
                 {'op': 'delete', 'key': 'missing', 'block': 'raise'}, {'op': 'set', 'key': 'z', 'value': S('str', 41, 9), 'tag': ['unbindable']},
                 {'op': 'set', 'key': 'w', 'value': S('int', 2, 0), 'fault': 1}, {'op': 'pop', 'key': 'a', 'fault': 1}, {'op': 'touch', 'key': 'b', 'expire': 5, 'fault': 2},
                 {'op': 'incr', 'key': 'b'}]
    elif container == 'Index':
        stores = [[{'op': 'setitem', 'key': 'a', 'value': S('str', 40, 1)}, {'op': 'setdefault', 'key': 'b', 'value': S('bytes', 30, 2)}],
                  [{'op': 'update', 'key': 'c', 'value': S('tuple', 12, 3)}, {'op': 'setitem', 'key': 'a', 'value': S('bytes', 50, 4)}, {'op': 'push', 'value': S('str', 25, 7), 'prefix': 'q'}],
                  [{'op': 'setitem', 'key': 'd', 'value': S('str', 60, 5)}]]
        fails = [{'op': 'delitem', 'key': 'missing'}, {'op': 'pop', 'key': 'missing'}, {'op': 'setitem', 'key': 'x', 'value': S('int', 1, 0), 'block': 'raise'},
                 {'op': 'setitem', 'key': 'y', 'value': S('str', 44, 8), 'block': 'raise'}, {'op': 'setitem', 'key': 'w', 'value': S('int', 2, 0), 'fault': 1},
                 {'op': 'pop', 'key': 'a', 'fault': 1}]
    else:
        stores = [[{'op': 'append', 'value': S('str', 40, 1)}, {'op': 'appendleft', 'value': S('bytes', 30, 2)}],
                  [{'op': 'extend', 'value': S('tuple', 12, 3), 'value2': S('str', 26, 4)}, {'op': 'setitem', 'index': 0, 'value': S('bytes', 50, 4)}],
                  [{'op': 'append', 'value': S('str', 60, 5)}, {'op': 'rotate', 'n': 1}]]
        fails = [{'op': 'delitem', 'index': 99}, {'op': 'setitem', 'index': 99, 'value': S('str', 30, 9)}, {'op': 'append', 'value': S('int', 1, 0), 'block': 'raise'},
                 {'op': 'append', 'value': S('str', 44, 8), 'block': 'raise'}, {'op': 'pop', 'block': 'raise'}, {'op': 'append', 'value': S('int', 2, 0), 'fault': 1},
                 {'op': 'popleft', 'fault': 1}]
    out = []
    for fi in range(len(fails)):
        steps = []
        for si, group in enumerate(stores):
            steps += group
            steps.append(fails[(fi + si * 3) % len(fails)])
        steps += [dict(st) for st in stores[0]]           # and the object goes on working
        out.append(steps)
    return out


def fc_faulted_stores(container):
    """-> list of (steps, index of the storing step under test): the storing call on a key in each state, value kinds rotating"""
    S = lambda kind, n, t: [kind, n, t]
    kinds = ['str', 'bytes', 'tuple', 'stream']
    setup = [{'op': 'set', 'key': 'inline', 'value': S('int', 5, 0)}, {'op': 'set', 'key': 'file', 'value': S('str', 40, 1)},
             {'op': 'set', 'key': 'expired', 'value': S('bytes', 30, 2), 'expire': 1}, {'op': 'set', 'key': 'e2', 'value': S('str', 35, 3), 'expire': 1},
             {'op': 'set', 'key': 'e3', 'value': S('int', 7, 0), 'expire': 2}, {'op': 'advance', 'dt': 10}]
    out = []
    n = 0
    if container in ('Cache', 'FanoutCache'):
        ops = ['set', 'add', 'setitem'] + (['push'] if container == 'Cache' else [])
        for op in ops:
            for key in ('absent', 'inline', 'file', 'expired'):
                n += 1
                st = {'op': op, 'key': key, 'value': S(kinds[n % 4] if not (op == 'setitem' and kinds[n % 4] == 'stream') else 'str', 30 + n, n)}
                if op == 'push':
                    st = {'op': 'push', 'value': st['value'], 'prefix': [None, 'q'][n % 2], 'side': ['back', 'front'][(n // 2) % 2]}
                    if key in ('inline', 'file'):
                        continue
                if op in ('set', 'add') and n % 3 == 0:
                    st['expire'] = 50
                out.append((setup + [st], len(setup)))
    elif container == 'Index':
        setup = [{'op': 'setitem', 'key': 'inline', 'value': S('int', 5, 0)}, {'op': 'setitem', 'key': 'file', 'value': S('str', 40, 1)}]
        for op in ('setitem', 'setdefault', 'update', 'push'):
            for key in ('absent', 'inline', 'file'):
                n += 1
                st = {'op': op, 'key': key, 'value': S(kinds[n % 3], 30 + n, n)}
                if op == 'push':
                    if key != 'absent':
                        continue
                    st = {'op': 'push', 'value': st['value'], 'prefix': 'q'}
                out.append((setup + [st], len(setup)))
    else:
        setup = [{'op': 'append', 'value': S('int', 5, 0)}, {'op': 'append', 'value': S('str', 40, 1)}]
        for op in ('append', 'appendleft', 'setitem', 'extend'):
            n += 1
            st = {'op': op, 'value': S(kinds[n % 3], 30 + n, n), 'value2': S('str', 28, 9), 'index': n % 2}
            out.append((setup + [st], len(setup)))
    return out


def failing_calls(ctx, res, stats, thorough):
    st_ = stats.setdefault('failing_calls', {'runs': 0, 'faults_fired': 0, 'stores_then_failures': 0, 'faulted_store_cases': 0})
    seen = set()

    import concdrv

    def one(case, what):
        problems, info = fc_run(lambda: concdrv.scratch(ctx, 'c08fc'), case)
        st_['runs'] += 1
        st_['faults_fired'] += sum(1 for oc in info['outcomes'] if 'injected at' in oc)
        res.count(['failing-calls', case['container'], case.get('cull_limit'), repr(case['steps'])], nontrivial=True)
        for sig, text, i in problems[:1]:
            if sig != 'leak_after_caught_failure_in_block':          # (finding C08-F1 is recognised exactly, in fc_run)
                sig = '%s:%s' % (sig, what)
            if sig not in seen:
                seen.add(sig)
                res.violations.append(fw.Violation(sig, '%s [%s]' % (text, _fc_describe(case, i, info)), dict(case, check='failing_calls', what=what)))
        return info
    containers = FC_CONTAINERS if thorough else ['Cache', 'FanoutCache', ['Index', 'Deque'][ctx.seed % 2]]
    for container in containers:
        for steps in fc_stores_then_failures(container):
            for cull in ((10, 0) if thorough else (10,)):
                st_['stores_then_failures'] += 1
                one({'container': container, 'cull_limit': cull, 'steps': steps}, 'after_failing_call')
    for container in containers:
        for ci, (steps, at) in enumerate(fc_faulted_stores(container)):
            op = steps[at]['op']
            base = {'container': container, 'cull_limit': 10, 'steps': steps}
            info = one(base, 'store')
            nst = info['statements'][at] if len(info['statements']) > at else 0
            st_['faulted_store_cases'] += 1
            for block in ((None, 'raise', 'catch') if thorough else (None, ['raise', 'catch'][(ci + ctx.seed) % 2])):
                if block == 'raise':
                    st2 = [dict(s_) for s_ in steps]
                    st2[at]['block'] = 'raise'
                    one(dict(base, steps=st2), 'store_in_aborted_block:%s' % op)
                for n in range(1, nst + 1):
                    if block == 'raise' and n % 2 and not thorough:
                        continue
                    st2 = [dict(s_) for s_ in steps]
                    st2[at]['fault'] = n
                    if block:
                        st2[at]['block'] = block
                    one(dict(base, steps=st2), 'after_db_error:%s' % op if not block else
                        ('after_db_error_in_aborted_block:%s' if block == 'raise' else 'caught_in_block_db_error:%s') % op)
    res.sample({'check': 'failing_calls', 'runs': st_['runs'], 'faults_fired': st_['faults_fired']})


def witnesses(res):
    import tempfile, shutil
    d = tempfile.mkdtemp(prefix='c08wit-')
    try:
        c = diskcache.Cache(d, disk_min_file_size=8)
        try:
            c.set('k2', 'y' * 50 + '\ud800')
        except Exception:
            pass
        bad, _ = consistency(d)
        res.witnessed['partial_file_after_write_error'] = any(s == 'unknown_file' for s, _ in bad)
        c.close()
        shutil.rmtree(d, ignore_errors=True)
        d2 = tempfile.mkdtemp(prefix='c08wit-')
        c = diskcache.Cache(d2, disk_min_file_size=8)
        try:
            c.set('k1', 'x' * 50, tag=('t',))
        except Exception:
            pass
        bad, _ = consistency(d2)
        res.witnessed['leak_after_failed_write'] = any(s == 'unknown_file' for s, _ in bad)
        c.close()
        shutil.rmtree(d2, ignore_errors=True)
        # a storing call that fails INSIDE a block, caught there, and the block completes: its value file must not stay behind
        d3 = tempfile.mkdtemp(prefix='c08wit-')
        c = diskcache.Cache(d3, disk_min_file_size=8)
        with c.transact():
            try:
                c.set('k', 'x' * 50, tag=('t',))
            except Exception:
                pass
            c.set('j', 1)
        bad, _ = consistency(d3)
        res.witnessed['leak_after_caught_failure_in_block'] = any(s == 'unknown_file' for s, _ in bad)
        c.close()
        shutil.rmtree(d3, ignore_errors=True)
    finally:
        shutil.rmtree(d, ignore_errors=True)


def txnfiles_correspondence(ctx, res):
    """The file bookkeeping of a transaction block (model/TxnFiles.v, theorems C08_block_*): blocks made of nested calls that store a new
    file (Stored), hand their own file to cleanup (Discarded: add on a present key), release an old file (Released) or FAIL after their
    file was written (Failed: the recorded finding C08-F1), ended by COMMIT or ROLLBACK, run on the implementation; the number of value
    files, of orphans and of dangling rows afterwards must be the model's."""
    import shutil
    BIG1, BIG2, BIG3 = 'a' * 40, 'b' * 41, 'c' * 42

    def failing(c):
        try:
            c.set('f', BIG3, tag=('t',))
        except Exception:  # noqa
            pass
    scenarios = [
        ('fail-commit', [], [failing], True, '[Failed 2]', '[]', '[]'),
        ('fail-store-commit', [], [failing, lambda c: c.set('j', BIG2)], True, '[Failed 2; Stored 3]', '[]', '[]'),
        ('replace-commit', [('k', BIG1)], [lambda c: c.set('k', BIG2)], True, '[Stored 2; Released 1]', '[1]', '[1]'),
        ('replace-rollback', [('k', BIG1)], [lambda c: c.set('k', BIG2)], False, '[Stored 2; Released 1]', '[1]', '[1]'),
        ('add-present-commit', [('k', BIG1)], [lambda c: c.add('k', BIG2)], True, '[Discarded 2]', '[1]', '[1]'),
        ('fail-replace-rollback', [('k', BIG1)], [failing, lambda c: c.set('k', BIG2)], False, '[Failed 2; Stored 3; Released 1]', '[1]', '[1]'),
        ('pop-commit', [('k', BIG1)], [lambda c: c.pop('k')], True, '[Released 1]', '[1]', '[1]'),
        ('pop-fail-commit', [('k', BIG1)], [lambda c: c.pop('k'), failing], True, '[Released 1; Failed 2]', '[1]', '[1]'),
    ]
    observed = []
    for name, setup, calls, commit, events, files0, rows0 in scenarios:
        d = ctx.scratch('c08tf')
        try:
            c = diskcache.Cache(d, disk_min_file_size=8)
            for k, v in setup:
                c.set(k, v)
            try:
                with c.transact():
                    for call in calls:
                        call(c)
                    if not commit:
                        raise KeyError('abort')
            except KeyError:
                pass
            c.close()
            bad, (rows, sets, files) = consistency(d)
            observed.append((name, commit, events, files0, rows0, len(files), sum(1 for s_, _ in bad if s_ == 'unknown_file'), sum(1 for s_, _ in bad if s_ == 'missing_file')))
        finally:
            shutil.rmtree(d, ignore_errors=True)
    body = ''
    for name, commit, events, files0, rows0, nf, no, nd in observed:
        st = ('commit (run %s %s %s)' % (files0, rows0, events)) if commit else ('rollback %s (run %s %s %s)' % (rows0, files0, rows0, events))
        body += 'Eval vm_compute in (let st := %s in [Z.of_nat (length (fst st)); Z.of_nat (length (orphans st)); Z.of_nat (length (dangling st))]).\n' % st
    rc, out = fw.coq_eval('c08tf', body, ['DCPrelude', 'TxnFiles', 'TxnFilesFacts'])
    lists = fw.parse_eval_lists(out) if rc == 0 else []
    if rc != 0 or len(lists) != len(observed):
        res.disagreements.append(fw.Violation('model-eval', 'evaluation of model/TxnFiles.v failed: ' + out[-300:], {}, 'correspondence'))
        return
    for (name, commit, events, files0, rows0, nf, no, nd), term in zip(observed, lists):
        model = fw.parse_z_list(term)
        res.count(['txnfiles', name], nontrivial=True)
        if model == [nf, no, nd]:
            res.traces_validated += 1
        else:
            res.disagreements.append(fw.Violation('txn_files_model', 'block %s (%s, %s): the directory holds %d value files, %d orphans, %d rows without file; the model '
                                                  'says %r' % (name, events, 'COMMIT' if commit else 'ROLLBACK', nf, no, nd, model),
                                                  {'check': 'txn_files_model', 'scenario': name}, 'correspondence'))


def correspondence(ctx, res, terms, recs):
    out, errors = seqdrv.model_first_mismatch('c08', terms, chunk=2)
    for e in errors:
        res.disagreements.append(fw.Violation('model-eval', 'model evaluation failed: ' + e[-400:], {}, 'correspondence'))
    for m, (g, hist, cfg) in zip(out, recs):
        if m is None:
            continue
        if m < 0:
            res.traces_validated += 1
        else:
            res.disagreements.append(fw.Violation('row_model', 'model and implementation differ at call %d (%s)' % (m, hist[m]['op']),
                                                  dict(gen_hist.history_json(g.objs, hist[:m + 1], cfg), check='history', failing_call=m), 'correspondence'))


def removal_races(ctx, res, stats, thorough):
    """Two clients on one directory: one removes a key that holds a file-backed value (delete, del, pop) while the other replaces
    that key's value by another file-backed one, or removes it and stores another key; every placement of the second client
    inside the first client's call (deterministic scheduler).  At quiescence the counters, the rows and the value files
    must agree whatever the interleaving."""
    import shutil
    import concdrv
    from props import c06
    settings = {'disk_min_file_size': 8}
    big1, big2 = 'OLD' + 'o' * 30, 'NEW' + 'n' * 30
    runs = 0
    seen = set()
    for remover in ('delete', 'delitem', 'pop'):
        for other in ([{'op': 'set', 'key': 'k', 'value': big2, 'retry': True}],
                      [{'op': 'delete', 'key': 'k', 'retry': True}, {'op': 'set', 'key': 'm', 'value': big2, 'retry': True}],
                      [{'op': 'pop', 'key': 'k', 'retry': True}, {'op': 'add', 'key': 'k', 'value': big2, 'retry': True}]):
            rem = {'op': 'delitem', 'key': 'k'} if remover == 'delitem' else {'op': remover, 'key': 'k', 'retry': True}
            programs = [[rem], other]
            setup = [{'op': 'set', 'key': 'anchor', 'value': big1}, {'op': 'set', 'key': 'k', 'value': big1}]
            seqs = concdrv.solo_events(ctx, programs, settings=settings, setup=setup)
            for i in range(0, len(seqs[0]) + 1, 1 if thorough or len(seqs[0]) < 14 else 2):
                r = concdrv.run_program(ctx, programs, [0] * i + [1] * 300 + [0] * 300, mode='own', settings=settings, setup=setup, max_steps=4000,
                                        sleep_advances=False)
                runs += 1
                res.count(['removal-race', remover, [c['op'] for c in other], i], nontrivial=True)
                problems = [('removal_race_error', 'client error %r' % e) for e in r['errors'] if e is not None]
                if r['overflow']:
                    problems.append(('removal_race_error', 'the run did not terminate'))
                problems += [('removal_race:' + sig, text) for sig, text in c06.consistency(r['dir'], 'cache', 1)]
                shutil.rmtree(r['dir'], ignore_errors=True)
                for sig, text in problems[:2]:
                    if sig not in seen:
                        seen.add(sig)
                        res.violations.append(fw.Violation(sig, '%s [client 0: %s k; client 1: %s placed after %d events of client 0]' % (
                            text, remover, ' + '.join(c['op'] for c in other), i), {'check': 'removal_race', 'programs': programs, 'setup': setup,
                                                                                   'schedule': r['schedule_used'], 'settings': settings}))
    stats['removal_race_runs'] = runs


def shared_block_cases():
    """(label, program of thread A, program of thread B, setup): A opens a transact block on the object both threads use, writes
    inside it and commits or aborts (by an exception the program catches); B removes or replaces file-backed values."""
    big1, big2, big3 = 'OLD' + 'o' * 30, 'NEW' + 'n' * 30, 'BLK' + 'b' * 30
    setup = [{'op': 'set', 'key': 'anchor', 'value': big1}, {'op': 'set', 'key': 'k', 'value': big1}, {'op': 'push', 'value': big1},
             {'op': 'push', 'value': big2}]
    bodies = {'inline': [{'op': 'set', 'key': 'other', 'value': 1}],
              'file': [{'op': 'set', 'key': 'other', 'value': big3}, {'op': 'pop', 'key': 'anchor'}]}
    others = {'pop': [{'op': 'pop', 'key': 'k', 'retry': True}],
              'pull': [{'op': 'pull', 'retry': True}],
              'pull-back': [{'op': 'pull', 'side': 'back', 'retry': True}],
              'delete': [{'op': 'delete', 'key': 'k', 'retry': True}],
              'set-replace': [{'op': 'set', 'key': 'k', 'value': big2, 'retry': True}],
              'pop+set': [{'op': 'pop', 'key': 'k', 'retry': True}, {'op': 'set', 'key': 'm', 'value': big2, 'retry': True}]}
    out = []
    for bname, body in sorted(bodies.items()):
        for end in ('commit', 'abort'):
            a = [{'op': 'begin_block'}] + body + ([{'op': 'raise_in_block'}] if end == 'abort' else []) + [{'op': 'end_block'}]
            for oname, b in sorted(others.items()):
                out.append(('%s-block:%s || %s' % (bname, end, oname), a, b, setup))
    return out


def shared_block_race_run(ctx, programs, setup, schedule, settings):
    """One schedule of two threads SHARING one Cache object.  Returns (problems, run_program result)."""
    import concdrv
    r = concdrv.run_program(ctx, programs, schedule, mode='shared', settings=settings, setup=setup, max_steps=6000, sleep_advances=False)
    problems = [('shared_object_race_error', 'client error %r' % e) for e in r['errors'] if e is not None]
    if r['overflow']:
        problems.append(('shared_object_race_error', 'the run did not terminate'))
    for recs in r['calls']:
        for rec in recs:
            if rec.get('exc') and rec['exc'] not in ('KeyError',):
                problems.append(('shared_object_race_error', 'thread %d: %s raised %s' % (rec['client'], rec['op'], rec['exc'])))
    if not problems:
        bad, _ = consistency(r['dir'])
        problems += [('shared_object_race:' + sig, text) for sig, text in bad]
        if not bad:
            with instr.Installed(r['clock']):
                c = diskcache.Cache(r['dir'])
                try:
                    libw = lib_check(c)
                finally:
                    c.close()
            if libw:
                problems.append(('shared_object_race:check_warns', 'check() reports %s' % [w.replace(r['dir'], '<dir>') for w in libw[:2]]))
    return problems, r


def shared_block_races(ctx, res, stats, thorough):
    """Two THREADS sharing ONE Cache object: thread A is inside a transact block (committing, or aborted by an exception) while
    thread B pops / pulls / deletes / replaces file-backed values through the same object.  Schedules: B runs its first j events,
    A its first i events, B runs to its end (or spins on the lock), A finishes, B finishes -- for every i, j -- and the mirror image
    (A first).  Once both threads have finished, counters, rows and value files must agree and check() must be silent."""
    import shutil
    import concdrv
    settings = {'disk_min_file_size': 8}
    runs = 0
    seen = set()
    quick_cases = ('file-block:abort || ', 'file-block:commit || ', 'inline-block:abort || pop', 'inline-block:abort || pull')
    for ci, (label, a, b, setup) in enumerate(shared_block_cases()):
        if not thorough and (not label.startswith(quick_cases) or label.endswith(('pull-back', 'pop+set'))):
            continue
        programs = [a, b]
        seqs = concdrv.solo_events(ctx, programs, settings=settings, setup=setup, mode='shared')
        na, nb = len(seqs[0]), len(seqs[1])
        # switch points of B: not inside a run of events that only touch a file nobody else can name yet (concdrv.units_of)
        cuts, pos = [0], 0
        for u in concdrv.units_of(seqs[1]):
            pos += u
            cuts.append(pos)
        # quick: every 4th position of A, the residue rotating with the case and the seed (thorough: every position)
        step_i = 1 if thorough else 4
        off = 0 if thorough else (ci + ctx.seed) % step_i
        scheds = []
        for j in cuts:
            for i in range(off if (j or off) else step_i, na + 1, step_i):
                scheds.append([1] * j + [0] * i + [1] * 400 + [0] * 400)
        for i in range(1 + off, na + 1, 1 if thorough else 6):
            for j in cuts[1::1 if thorough else 3]:
                scheds.append([0] * i + [1] * j + [0] * 400 + [1] * 400)
        for schedule in scheds:
            problems, r = shared_block_race_run(ctx, programs, setup, schedule, settings)
            runs += 1
            res.count(['shared-block-race', label, r['schedule_used']], nontrivial=True)
            shutil.rmtree(r['dir'], ignore_errors=True)
            for sig, text in problems[:2]:
                if sig not in seen:
                    seen.add(sig)
                    res.violations.append(fw.Violation(sig, '%s [two threads sharing one Cache object; thread 0: %s; thread 1: %s; schedule %s]' % (
                        text, ' '.join(c['op'] for c in a), ' + '.join(c['op'] for c in b), _rle(r['schedule_used'])),
                        {'check': 'shared_block_race', 'label': label, 'programs': programs, 'setup': setup, 'schedule': r['schedule_used'],
                         'settings': settings}))
            if len(seen) >= 3:
                break
        if len(seen) >= 3:
            break
    stats['shared_block_race_runs'] = runs


def _rle(schedule):
    out = []
    for c in schedule:
        if out and out[-1][0] == c:
            out[-1][1] += 1
        else:
            out.append([c, 1])
    return ' '.join('%dx%d' % (c, n) for c, n in out)


def run(ctx, big=False):
    res = fw.Result()
    res.rule = ('full-API histories (replace, add-on-present, incr, bulk removal, eviction at a reachable size limit, queue operations) with the '
                'bookkeeping recomputed after every call: count == rows, size == SUM(size) == total file size, every file row resolves to a file '
                'of the recorded size, no unreferenced value file, Cache.check() silent; one injected failure per fault history (n-th SQL statement / '
                'n-th file create/write/close); values and tags the binding rejects; lock contention: set / add / push / replacing set of '
                'file-backed values and read=True streams, removals, counters (retry=False, timeout=0: the call gives up) and Cache.__setitem__ / '
                'Deque / Index methods (the call waits; the lock is released before its k-th BEGIN attempt) while a second Cache handle inside '
                'transact() or a plain sqlite3 connection after BEGIN IMMEDIATE holds the write lock (any subset of FanoutCache shards), decided '
                'after the lock is released; text values of 1- to 4-byte code points kept in files (recorded size = encoded size); '
                'two THREADS sharing one Cache object, one inside a transact block that commits or aborts, the other popping / pulling / deleting / '
                'replacing file-backed values, every two-switch placement under the deterministic scheduler, decided when both have finished; '
                'row/file model compared after every call.  '
                'REJECTED calls: every storing entry point (Cache / FanoutCache set, add, []=, incr, decr, touch, Cache.push; DjangoCache set, add, set_many, '
                'get_or_set, touch, incr, decr; Deque append(left), extend(left), +=, []=; Index []=, setdefault, update, push) with ONE argument that makes it '
                'raise (expire: timedelta / str / list / complex / object / dict; tag: tuple / list / dict / object / lone surrogate / 2^70; key: unpicklable or '
                'unencodable; value: unpicklable, raising while pickled, text with a lone surrogate, stream that fails at once / after two chunks / yields '
                'text, read=True of a non-stream; incr delta / default of the wrong type or beyond 2^63; push side / prefix of the wrong kind) and otherwise '
                'good arguments with text / bytes / pickled / stream values kept in files (and an inline one) on a populated container: after every such call '
                'the clauses above hold and rows, counters and files are exactly as before; check() silent.  '
                'FAILING calls on one object (Cache, FanoutCache, Index, Deque), the clauses recomputed after every step: successful file-backed stores '
                '(set, add, []=, push, replacing set, streams) followed by a failing call (KeyError of incr without default / del / pop of a missing key, IndexError, a '
                'block that raises after an inline or a file-backed write, a tag the binding rejects, an injected database error in set / pop / touch), more stores, '
                'another failing call, more stores; and an injected database error at EVERY statement (lookup, INSERT / UPDATE, the lazy cull of expired rows) of '
                'every storing call with a file-backed value on a key that is absent / inline / file-backed / expired, alone, inside a block that then raises, '
                'and inside a block that catches the error and completes.  '
                'non-trivial = at least one value file exists in the observed state / the fault fired.')
    stats = {'states': 0, 'file_rows': 0, 'fault_runs': 0, 'faults_fired': 0, 'unencodable': 0}
    thorough = not ctx.quick or big
    terms, recs = plain_histories(ctx, res, 20 if not thorough else 120, 60 if not thorough else 150, stats)
    fault_histories(ctx, res, 30 if not thorough else 300, 40, stats)
    unencodable(ctx, res, stats)
    open_races(ctx, res, stats, 12 if not thorough else 150)
    lock_contention(ctx, res, stats, 48 if not thorough else 600)
    text_values(ctx, res, stats)
    removal_races(ctx, res, stats, thorough)
    shared_block_races(ctx, res, stats, not ctx.quick)       # (search mode keeps the quick family: it is systematic already)
    rejected_calls(ctx, res, stats, thorough)
    failing_calls(ctx, res, stats, thorough)
    if not ctx.search_mode:
        correspondence(ctx, res, terms, recs)
        txnfiles_correspondence(ctx, res)
    res.extra.update({'states_checked': stats['states'], 'file_backed_rows_seen': stats['file_rows'],
                      'fault_histories': stats['fault_runs'], 'faults_that_fired': stats['faults_fired'],
                      'open_race_schedules': stats.get('open_race_runs', 0), 'removal_race_schedules': stats.get('removal_race_runs', 0),
                      'shared_object_block_race_schedules': stats.get('shared_block_race_runs', 0),
                      'lock_contention_cases': stats.get('contention_cases', 0), 'calls_that_gave_up_on_the_lock': stats.get('contention_timeouts', 0),
                      'calls_that_waited_for_the_lock': stats.get('contention_waits', 0), 'rejected_calls': stats.get('rejected_calls'),
                      'failing_calls': stats.get('failing_calls')})
    witnesses(res)
    return res


def search(ctx, broken):
    return run(ctx, big=True)


def replay(payload):
    case = payload.get('case', {})
    if case.get('check') == 'contention':
        ctx = fw.Ctx('C08', 'quick', 1)
        try:
            problems, info = run_contention_case(case, ctx.scratch('c08l'))
            print('contention:', problems, info)
            return not problems
        finally:
            ctx.cleanup()
    if case.get('check') == 'shared_block_race':
        ctx = fw.Ctx('C08', 'quick', 1)
        try:
            problems, r = shared_block_race_run(ctx, case['programs'], case['setup'], case['schedule'], case['settings'])
            print('log:', ' '.join('%d:%s' % (c, w) for c, w, _ in r['log']))
            print('results:', [[rec['client'], rec['op'], rec.get('result', rec.get('exc'))] for recs in r['calls'] for rec in recs])
            print('monitor:', problems)
            return not problems
        finally:
            ctx.cleanup()
    if case.get('check') == 'rejected_call':
        ctx = fw.Ctx('C08', 'quick', 1)
        try:
            env = RejEnv(lambda: ctx.scratch('c08rj'), case['container'])
            try:
                problems, outcome = rejected_case(env, case)
            finally:
                env.close()
            print('%s.%s with a bad %s (%s): %s' % (case['container'], case['entry'], case['kind'], case['bad'], outcome))
            for sig, text in problems:
                print(sig, text)
            return not problems
        finally:
            ctx.cleanup()
    if case.get('check') == 'failing_calls':
        ctx = fw.Ctx('C08', 'quick', 1)
        try:
            problems, info = fc_run(lambda: ctx.scratch('c08fc'), case)
            for st, oc, n in zip(case['steps'], info['outcomes'], info['statements']):
                print(st, '->', oc, '(%d statements)' % n)
            print('monitor:', problems)
            return not problems
        finally:
            ctx.cleanup()
    if case.get('check') == 'text':
        ctx = fw.Ctx('C08', 'quick', 1)
        try:
            r = fw.Result()
            text_values(ctx, r, {})
            for v in r.violations:
                print('text values:', v.sig, v.desc)
            return not r.violations
        finally:
            ctx.cleanup()
    if case.get('check') not in ('history', 'fault'):
        print(payload)
        return True
    objs, hist, cfg = gen_hist.history_from_json(case)
    ctx = fw.Ctx('C08', 'quick', 1)
    try:
        r = Runner(ctx, cfg, observe_every=0)
        r.objs = objs
        try:
            r.run(hist)
        except callguard.CallDidNotReturn as e:
            print('call %d (%s) did not return within %d s' % (r.done, e, CALL_SECONDS))
            return False
        bad, _ = consistency(r.dir)
        print('consistency:', bad)
        return not bad
    finally:
        ctx.cleanup()
