"""C12 -- Index is a persistent insertion-ordered dictionary.

(a) sequential monitor: the real diskcache.Index against collections.OrderedDict on generated histories
    (result, exception class and list(items()) compared after EVERY call; reopen / unpickle events);
(b) correspondence with the Coq model (filled in by the Coq side);
(c) concurrency: deterministic schedules of 2-3 clients with their own Cache objects on one directory
    (continuous presence S1, popitem accounting S2) and, as a regression input, the schedule of the former finding C12-F1
    (lock-free lookup overlapping the replacement of a file-backed value: the lookup must return the new value); S3: two clients whose
    value files share one sub-directory (a Disk with its own filename() layout), the removal by one placed at every point inside the
    other's store of a file-backed value, judged by linearizability against OrderedDict.
Integers at the edges of the 32 / 53 / 63 / 64 / 128-bit representations are keys, values and components of tuple keys in every stream
(P_EDGE) and, each of them, in the directed histories of directed_ints.
"""
import os
import pickle
import shutil
import tempfile
from collections import OrderedDict

import fw
import instr  # noqa: F401  (puts fw.REPO on sys.path and checks where diskcache comes from)
import sched
from instr import core, diskcache

ID = 'C12'
TITLE = 'Index is a persistent insertion-ordered dictionary'
COQ_PROP = 'C12'
LEVEL = 'proof'
TRANSLATE = ['persistent', 'disk', 'sql', 'fanout', 'django']     # disk: Disk.store / Disk.fetch carry every Index value (text, bytes, pickle; inline and file);
                                              # sql: the loop of Cache.get's lock-free path (Gen_Sql.get_retries_after_missing_file = IndexConc.repaired)
TRUSTED = [
    'collections.OrderedDict is the oracle of the sequential monitor',
    'the abstract insertion-ordered cache of model/QCache.v stands for Cache get/set/del/pop/add/peekitem/iteration (C03)',
    'the micro-step machine of model/IndexConc.v (reader = SELECT, open, and after a failed open SELECT again; writer = store, BEGIN, UPDATE, '
    'COMMIT, remove) is validated by replaying the schedule that defeated the reader the code had before on the implementation and by comparing '
    'its predicted lookup outcome with the implementation on random schedules of one lookup against 1-2 replacements (inline and file-backed values)',
    'tools/emit_persistent.py templates: every Deque/Index method body is matched against a source template, the holes are '
    'compiled to Gen_Persistent.v and pinned by proofs/PersistentBridge.v',
    'the key/value encoding of the correspondence (Python objects -> integers, equal objects equal ids)',
    'props/c05.SharedDirDisk (a Disk subclass whose filename() puts every value file into the sub-directory "shared") stands for the custom file '
    'layouts under which two clients\' value files share a sub-directory; with the default layout two random names share one with probability 2**-16',
    'contention: a raw sqlite3 connection executing BEGIN IMMEDIATE on the index\'s cache.db stands for another client holding the write lock; it is '
    'released from a sched.Tracer hook on the BEGIN statements of the calling thread, the handle under test has SQLite timeout 0 (props/c11.Contention)',
]
ASSUMPTIONS = [
    'keys are ones on which cache key identity coincides with Python equality: no bool keys next to 0/1, no tuples '
    'differing only in int/float/bool typing of equal numbers (diskcache looks keys up by serialized form, documented)',
    'no other writer stores into the index directory',
    'iterators and views are consumed immediately',
    'values are compared with Python ==',
    'concurrent clause: atomicity of each single Index call (one transaction; popitem = peekitem + delete inside one transact '
    'block, pinned by the translator) is taken from C05/C06; proved here: the continuous-presence clause on the micro-step '
    'machine for one key, one lookup, any number of replacing writers, every schedule (safety: the lookup never reports the key absent; a schedule '
    'that keeps replacing the value between the reader\'s steps can keep the lookup going)',
    'mappings compared with == / != have distinct keys (they are dicts)',
    'a constructor whose source of pairs fails: the reference for the directory\'s contents is OrderedDict().update(source), i.e. the pairs delivered '
    'before the failure (Index(directory, source) updates the index stored in the directory)',
    'integer edges: no float key equal to an integer key beyond 2**63 is used (2**63 == 2.0**63 in Python, but the cache stores the one pickled '
    'and the other as REAL: the first assumption)',
    'shared-directory schedules (S3): each client makes two calls; the removal is a call on the other client\'s own key or a popitem (which may '
    'remove the key the other client has just stored: setdefault x popitem(last=True) included)',
    'update under concurrent use: `Index.update` is the MutableMapping loop of assignments and, like OrderedDict.update, keeps the pairs delivered '
    'before a failing source raises (sequential clause), so it cannot also be one all-or-nothing step; in the schedules an update carries ONE '
    'pair (an assignment), which is what the quantifier lists (lookups, replacements, setdefault, popitem).  A thorough run once paired a '
    'two-pair update with popitem(last=True) placed between its two assignments and reported it: judged a false alarm of the check, corrected',
    'setdefault race (S4): setdefault of a missing key is paired with the other client\'s setdefault, [] =, update, lookup, del, pop and '
    'popitem(last=True) of the same key',
    'contended histories contain no unpickle events (they build a handle with the default 60 s SQLite timeout) and handle events are not contended',
]

# signature under which the regression input of the former finding C12-F1 is reported if the defect returns (a raw monitor signature:
# nothing is attributed to a known finding any more)
REGRESSION_SIG = 'lookup_overlapping_replace'

# ---------------------------------------------------------------------------
# alphabets

KEYS = [0, 1, 2, 3, 2.5, 1.0, 'a', 'b', 'k', b'x', (1, 2), ('a', 1)]
KEYS_ALL = KEYS + [None]
VALUES = [1, 1.0, True, 0, 2, 'a', 'b', b'x', (1, 2), None]
LONG_VALUES = ['a' * 40, b'y' * 40, tuple(range(12)),
               # file-backed under disk_min_file_size=8: text with every kind of line ending, bytes that look like them, pickles holding them
               'dos line\r\nsecond line\r\n', 'mac line\rsecond line\r', 'unix line\nsecond line\n', 'mixed\r\n\r\r\n\n\rend\r',
               'nel\x85 ls\u2028 ps\u2029 ff\x0c vt\x0b nul\x00 end', '\r' * 9, '\r\n' * 5, '\n\r' * 5, '\U0001F600\r\n\xe9\r' * 3,
               b'bytes\r\nwith\rline\nendings\x00', ('pickled\r\n', b'\r', 'a\rb'), ('p', ('nested\r\n' * 3, 1.5, None))]
KINDS = ['plain', 'filebacked', 'fanout', 'django']

# Integers at the edges of the machine representations a store may use (32 / 53 / 63 / 64 / 128 bits, both signs, +-1 around each):
# an OrderedDict takes any int as key and as value.  Drawn with probability P_EDGE wherever a key or a value is drawn; every one of
# them goes through directed_ints on every kind.  Keys: the ints and tuples holding them.  (No float of equal magnitude among the
# KEYS: 2**63 == 2.0**63 in Python but not for the cache, see ASSUMPTIONS.)
INT_EDGES = sorted({s * (2 ** b) + d for b in (31, 53, 63, 64) for s in (1, -1) for d in (-1, 0, 1)} | {2 ** 32, 2 ** 127, -2 ** 127, 10 ** 30})
EDGE_KEYS = INT_EDGES + [(e, 'c') for e in INT_EDGES if abs(abs(e) - 2 ** 63) <= 1 or abs(e) in (2 ** 31, 2 ** 53, 2 ** 64)] \
    + [(2 ** 63, -2 ** 63), (2 ** 63 - 1, (2 ** 63,)), (-2 ** 63 - 1, 2 ** 64)]
EDGE_VALUES = INT_EDGES + [2.0 ** 63, -2.0 ** 63, 2.0 ** 53, (2 ** 63, -2 ** 63 - 1), (2 ** 63 - 1, 2.0 ** 63, 'v')]
P_EDGE = 0.04

# Values at and above the DEFAULT disk_min_file_size of an Index (32 KiB), so that the default kinds (Index(directory),
# FanoutCache.index, DjangoCache.index) hold file-backed text, bytes and pickles too.  They are written as source expressions:
# replay files and evidence carry the expression (crepr), not 40 000 characters.
BIG_SRC = [
    "'dos line\\r\\n' * 4000",                  # CRLF text, 40 000 chars
    "'mac line\\r' * 4000",                     # CR-only text
    "'unix line\\n' * 4000",                    # LF-only text
    "'mixed\\r\\n\\r\\n\\n\\r' * 3000 + '\\r'",    # mixed endings, CR last
    "'\\r' + 'x' * 32767",                      # exactly at the threshold, CR first
    "'x' * 32766 + '\\r\\n'",                   # exactly at the threshold, CRLF last
    "'x' * 32765 + '\\r\\n'",                   # one below the threshold (inline)
    "'\\xe9\\r\\n\\u2028\\x85' * 7000",          # non-ASCII text with CRLF and Unicode line separators
    "b'bytes\\r\\n\\x00\\xff\\r' * 4000",        # bytes above the threshold
    "b'\\r' * 32768",
]
BIG_COMPOSITE = [
    "('big pickle', 'dos line\\r\\n' * 4000, 7)",
    "(b'bytes\\r\\n\\x00\\xff\\r' * 4000, ('mac line\\r' * 4000, None), 2.5)",
    "tuple([(i, 'v\\r\\n') for i in (1, 2, 3)] * 1500)",
]
BIG_VALUES = [eval(_s, {'__builtins__': {'tuple': tuple}}) for _s in BIG_SRC + BIG_COMPOSITE]
BIG_EXPR = dict(zip(BIG_VALUES, BIG_SRC + BIG_COMPOSITE))
P_BIG = {'plain': 0.10, 'fanout': 0.10, 'django': 0.10, 'filebacked': 0.04}
HANDLE_EVENTS = ('reopen', 'pickle')
EQ_OPS = ('eq_ordered', 'ne_ordered', 'eq_unordered', 'ne_unordered')
MUTATORS = ('setitem', 'delitem', 'pop', 'pop_default', 'popitem', 'setdefault', 'update', 'clear')

W_VALID = [('setitem', 16), ('getitem', 9), ('delitem', 6), ('pop', 5), ('pop_default', 4), ('popitem', 5),
           ('peekitem', 6), ('setdefault', 8), ('update', 5), ('keys', 2), ('values', 2), ('items', 2),
           ('eq_ordered', 5), ('ne_ordered', 2), ('eq_unordered', 4), ('ne_unordered', 2), ('iter', 2),
           ('reversed', 3), ('len', 3), ('clear', 1), ('get', 4), ('contains', 3), ('reopen', 2), ('pickle', 1)]
W_MALFORMED = [('setitem', 8), ('getitem', 10), ('delitem', 10), ('pop', 10), ('pop_default', 5), ('popitem', 9),
               ('peekitem', 9), ('setdefault', 4), ('update', 2), ('keys', 1), ('values', 1), ('items', 1),
               ('eq_ordered', 2), ('ne_ordered', 1), ('eq_unordered', 2), ('ne_unordered', 1), ('iter', 1),
               ('reversed', 1), ('len', 3), ('clear', 6), ('get', 4), ('contains', 4), ('reopen', 2), ('pickle', 1)]


def teq(a, b):
    """Equality including the types of all components (1 vs 1.0 vs True differ)."""
    if type(a) is not type(b):
        return False
    if isinstance(a, (tuple, list)):
        return len(a) == len(b) and all(teq(x, y) for x, y in zip(a, b))
    return a == b


def leq(a, b):
    """Python == that never raises."""
    try:
        return bool(a == b)
    except Exception:
        return False


def crepr(x, exact=False):
    """repr that stays short: the big values of the pool are written as their source expression (still evaluable by ev);
    other long text/bytes (e.g. an altered value that came back) is abbreviated unless exact=True (replayable arguments)."""
    if isinstance(x, (str, bytes, tuple)):
        try:
            e = BIG_EXPR.get(x)
        except TypeError:
            e = None
        if e is not None:
            return e
    if isinstance(x, (str, bytes)) and len(x) > 400 and not exact:
        return '<%s of %d, %d CR, %d LF, starts %r, ends %r>' % (type(x).__name__, len(x), x.count('\r' if isinstance(x, str) else b'\r'),
                                                              x.count('\n' if isinstance(x, str) else b'\n'), x[:24], x[-8:])
    if type(x) is tuple:
        return '(' + ', '.join(crepr(y, exact) for y in x) + (',)' if len(x) == 1 else ')')
    if type(x) is list:
        return '[' + ', '.join(crepr(y, exact) for y in x) + ']'
    return repr(x)


def rl(xs):
    return [crepr(x, True) for x in xs]


SAFE_ENV = {'__builtins__': {'tuple': tuple}}


def ev(s):
    return eval(s, dict(SAFE_ENV))


# ---------------------------------------------------------------------------
# (a) sequential differential monitor


POLICIES = ['least-recently-stored', 'least-recently-used', 'least-frequently-used', 'none']
SMALL_PARENT_LIMIT = 2 * (32768 + 8192)     # two shards: one shard's share is a little above the volume of an empty cache


def evicting_options(kind):
    """kinds 'fanout+<policy>' / 'django+<policy>': settings the parent FanoutCache / DjangoCache (OPTIONS) is constructed with"""
    policy = kind.partition('+')[2]
    return {'eviction_policy': policy, 'size_limit': SMALL_PARENT_LIMIT} if policy else {}


class Handle:
    """The implementation side of a history: an Index of the given kind and how to reopen it."""

    def __init__(self, kind, directory, stats=None):
        self.kind = kind
        self.directory = directory
        self.stats = stats
        self.parent = None
        self.idx = None
        self.extra = []         # handles produced by unpickling (closed at the end)

    def _count_stores(self, idx):
        if self.stats is None:
            return
        disk = idx.cache.disk
        orig = disk.store
        st = self.stats

        def store(value, read, key=core.UNKNOWN):
            r = orig(value, read, key=key)
            if r[2] is not None:
                st['filebacked_values_stored'] = st.get('filebacked_values_stored', 0) + 1
            return r
        disk.store = store

    def _make(self, init, raw=False):
        kind, d = self.kind, self.directory
        src = (lambda: init) if raw else (lambda: list(init))       # raw: a source that may fail part-way, handed over as it is
        if kind == 'plain':
            idx = diskcache.Index(d) if init is None else diskcache.Index(d, src())
        elif kind in ('filebacked', 'contended'):
            # 'contended': the handle of a client that never waits inside SQLite (timeout 0): a busy write lock is seen at
            # once and the Index methods themselves have to wait (c11.Contention)
            kw = {'timeout': 0} if kind == 'contended' else {}
            cache = diskcache.Cache(d, disk_min_file_size=8, eviction_policy='none', **kw)
            self.half_open = cache
            idx = diskcache.Index.fromcache(cache) if init is None else diskcache.Index.fromcache(cache, src())
            self.half_open = None
        elif kind.partition('+')[0] == 'fanout':
            # 'fanout+<policy>': the parent is CONSTRUCTED with that eviction policy and a small size limit (EVICTING_OPTIONS)
            self.parent = diskcache.FanoutCache(d, shards=2, **evicting_options(kind))
            idx = self.parent.index('i/x')
            if init is not None:
                idx.update(src())
        elif kind.partition('+')[0] == 'django':
            from django.conf import settings
            if not settings.configured:
                settings.configure()
            from diskcache.djangocache import DjangoCache
            opts = evicting_options(kind)
            self.parent = DjangoCache(d, dict({'SHARDS': 2}, **({'OPTIONS': opts} if opts else {})))
            idx = self.parent.index('i')
            if init is not None:
                idx.update(src())
        else:
            raise ValueError(kind)
        return idx

    def open(self, init, raw=False):
        self.idx = self._make(init, raw)
        self._count_stores(self.idx)

    def _close_current(self):
        try:
            if self.idx is not None:
                self.idx.cache.close()
        except Exception:
            pass
        try:
            if getattr(self, 'half_open', None) is not None:
                self.half_open.close()
                self.half_open = None
        except Exception:
            pass
        try:
            if self.parent is not None:
                self.parent.close()
        except Exception:
            pass
        self.parent = None

    def reopen(self):
        self._close_current()
        self.idx = self._make(None)
        self._count_stores(self.idx)

    def unpickle(self):
        new = pickle.loads(pickle.dumps(self.idx))
        self.extra.append((self.idx, self.parent))
        self.parent = None
        self.idx = new
        self._count_stores(self.idx)

    def close(self):
        self._close_current()
        for idx, parent in self.extra:
            try:
                idx.cache.close()
            except Exception:
                pass
            try:
                if parent is not None:
                    parent.close()
            except Exception:
                pass
        self.extra = []


class Boom(Exception):
    """An exception of the caller's own, raised by a source of pairs part-way."""


FAIL_EXC = {'Boom': Boom, 'ZeroDivisionError': ZeroDivisionError, 'KeyError': KeyError}
BAD_PAIRS = [7, None, ('solo',), ('a', 'b', 'c'), 'abc']      # not pairs: TypeError / ValueError from update() in any mapping


class FailingKeys:
    """A mapping-like source (keys() + __getitem__) whose k-th lookup raises."""

    def __init__(self, pairs, k, exc):
        self.pairs, self.k, self.exc, self.n = list(pairs), k, exc, 0

    def keys(self):
        return [key for key, _ in self.pairs] + (['<beyond the last key>'] if self.k >= len(self.pairs) else [])

    def __getitem__(self, key):
        i = self.n
        self.n += 1
        if i >= self.k:
            raise FAIL_EXC[self.exc]('source mapping failed at lookup %d' % i)
        return self.pairs[i][1]


def failing_source(pairs, k, how, bad=None):
    """A source for update() / the constructor that delivers pairs[:k] and then fails.
    how = 'malformed': a list whose element k is `bad` (not a pair); 'keys:<Exc>': a mapping-like object whose k-th value lookup
    raises; '<Exc>': a generator of pairs that raises after k pairs (k == len(pairs): after the last one)."""
    pairs = list(pairs)
    if how == 'malformed':
        return pairs[:k] + [bad] + pairs[k:]
    if how.startswith('keys:'):
        return FailingKeys(pairs, k, how[5:])

    def gen():
        for i, p_ in enumerate(pairs):
            if i == k:
                raise FAIL_EXC[how]('source of pairs failed after %d pair(s)' % k)
            yield p_
        if k >= len(pairs):
            raise FAIL_EXC[how]('source of pairs failed after %d pair(s)' % len(pairs))
    return gen()


def perform(m, op, a, impl):
    """One mapping operation on the Index (impl=True) or on the OrderedDict; returns the encoded result."""
    if op == 'update_failing':
        m.update(failing_source(*a))
        return ('none',)
    if op == 'setitem':
        m[a[0]] = a[1]
        return ('none',)
    if op == 'getitem':
        return ('val', m[a[0]])
    if op == 'delitem':
        del m[a[0]]
        return ('none',)
    if op == 'pop':
        return ('val', m.pop(a[0]))
    if op == 'pop_default':
        return ('val', m.pop(a[0], a[1]))
    if op == 'popitem':
        k, v = m.popitem(last=a[0])
        return ('pair', k, v)
    if op == 'peekitem':
        if impl:
            k, v = m.peekitem(last=a[0])
        else:
            if not m:
                raise KeyError('dictionary is empty')
            k, v = next(reversed(m.items())) if a[0] else next(iter(m.items()))
        return ('pair', k, v)
    if op == 'setdefault':
        return ('val', m.setdefault(a[0]) if a[1] is None else m.setdefault(a[0], a[1]))
    if op == 'update':
        m.update(list(a[0]))
        return ('none',)
    if op == 'keys':
        return ('list', list(m.keys()))
    if op == 'values':
        return ('list', list(m.values()))
    if op == 'items':
        return ('pairs', list(m.items()))
    if op == 'eq_ordered':
        return ('bool', m == OrderedDict(a[0]))
    if op == 'ne_ordered':
        return ('bool', m != OrderedDict(a[0]))
    if op == 'eq_unordered':
        return ('bool', m == dict(a[0]))
    if op == 'ne_unordered':
        return ('bool', m != dict(a[0]))
    if op == 'iter':
        return ('list', list(m))
    if op == 'reversed':
        return ('list', list(reversed(m)))
    if op == 'len':
        return ('int', len(m))
    if op == 'clear':
        m.clear()
        return ('none',)
    if op == 'get':
        return ('val', m.get(a[0], a[1]))
    if op == 'contains':
        return ('bool', a[0] in m)
    raise ValueError('unknown op ' + op)


def guarded(f, *a):
    try:
        return f(*a)
    except Exception as e:  # noqa
        return ('raise', type(e).__name__)


def impl_apply(h, op, args):
    if op == 'reopen':
        h.reopen()
        return ('none',)
    if op == 'pickle':
        h.unpickle()
        return ('none',)
    return perform(h.idx, op, args, True)


def ref_apply(ref, op, args):
    if op in HANDLE_EVENTS:
        return ('none',)
    return perform(ref, op, args, False)


def impl_items(h):
    try:
        return [(k, v) for k, v in h.idx.items()]
    except Exception as e:  # noqa
        return ('raise', type(e).__name__)


def compare(op, ri, rr, items_i, items_r):
    """None, or dict(sig, what, expected, observed) describing the divergence Index vs OrderedDict."""
    tag = 'init' if op == 'init' else op
    persist = op in HANDLE_EVENTS
    if ri[0] != rr[0] or (ri[0] == 'raise' and ri[1] != rr[1]) or (ri[0] != 'raise' and not leq(list(ri[1:]), list(rr[1:]))):
        return {'sig': ('index_persist_' if persist else 'index_result_') + tag, 'what': 'result',
                'expected': crepr(rr), 'observed': crepr(ri)}
    if ri[0] != 'raise' and not teq(list(ri[1:]), list(rr[1:])):
        return {'sig': 'index_type_' + tag, 'what': 'type of result', 'expected': crepr(rr), 'observed': crepr(ri)}
    if isinstance(items_i, tuple) or not leq(items_i, items_r):
        return {'sig': ('index_persist_' if persist else 'index_contents_') + tag, 'what': 'contents',
                'expected': crepr(items_r), 'observed': crepr(items_i)}
    if not teq(items_i, items_r):
        return {'sig': ('index_persist_' if persist else 'index_type_') + tag, 'what': 'type in contents',
                'expected': crepr(items_r), 'observed': crepr(items_i)}
    return None


def run_history(kind, init, ops, mkdir, stats=None, gen=None, maxlen=0, extra_viol=None, init_fail=None, contend=None):
    """Executes `init` then the fixed list `ops`, or, when `gen` is given, up to `maxlen` operations drawn by
    gen(ref) from the current reference state.  Stops at the first divergence.
    init_fail = [k, how, bad]: the index is constructed from failing_source(init, k, how, bad); the constructor must raise
    what OrderedDict.update raises for that source, and the directory must hold what an OrderedDict holds after update() with
    it (the pairs delivered before the failure).  contend = [[k, again], ...]: every call (cyclically) starts while another
    client holds the write lock and lets it go after k failed BEGIN attempts (c11.Contention; kind 'contended').
    Returns (events, divergence or None, index of the diverging op or -1 for init)."""
    d = mkdir()
    h = Handle(kind, d, stats)
    ref = OrderedDict()
    events = []
    div, at = None, None
    cont = None
    try:
        if contend:
            from props import c11
            cont = c11.Contention()
            cont.__enter__()
        if init_fail is not None:
            r0 = guarded(lambda: (h.open(failing_source(init, *init_fail), raw=True), ('none',))[1])
            rr0 = guarded(lambda: (ref.update(failing_source(init, *init_fail)), ('none',))[1])
            h._close_current()
            if r0 != rr0:
                return events, {'sig': 'index_result_init_failing', 'what': 'result', 'expected': repr(rr0), 'observed': repr(r0)}, -1
            r0 = guarded(lambda: (h.open(None), ('none',))[1])
        else:
            r0 = guarded(lambda: (h.open(init), ('none',))[1])
            ref.update(list(init))
        if r0[0] == 'raise':
            return events, {'sig': 'index_result_init', 'what': 'result', 'expected': "('none',)", 'observed': repr(r0)}, -1
        if cont is not None:
            cont.attach(h.idx.directory)
        if kind == 'plain' and extra_viol is not None:
            pol = guarded(lambda: ('val', h.idx.cache.eviction_policy))
            if pol != ('val', 'none'):
                extra_viol.append(fw.Violation(
                    'index_policy', 'Index(directory) does not use eviction policy none: %r' % (pol,),
                    {'check': 'index_policy', 'kind': kind, 'observed': repr(pol)}))
        div = compare('init_failing' if init_fail is not None else 'init', ('none',), ('none',), impl_items(h), list(ref.items()))
        at = -1
        i = 0
        while div is None:
            if gen is not None:
                if i >= maxlen:
                    break
                op, args = gen(ref)
            else:
                if i >= len(ops):
                    break
                op, args = ops[i]
            if cont is not None and op not in HANDLE_EVENTS:
                k, again = contend[i % len(contend)]
                ri = cont.call(k, again, lambda: guarded(impl_apply, h, op, args))
            else:
                ri = guarded(impl_apply, h, op, args)
            rr = guarded(ref_apply, ref, op, args)
            items = impl_items(h)
            events.append({'op': op, 'args': list(args), 'res': ri, 'items': items if isinstance(items, list) else []})
            div = compare(op, ri, rr, items, list(ref.items()))
            if cont is not None and cont.gave_up and div is None:
                div = {'sig': 'index_never_returns_' + op, 'what': 'termination', 'expected': crepr(rr),
                       'observed': 'still retrying after %d failed BEGIN attempts' % cont.BUDGET}
            if div is not None and cont is not None:
                # the same comparison with OrderedDict, made while another client held the write lock
                div['sig'] = 'index_contended_' + div['sig'][len('index_'):]
                if op not in HANDLE_EVENTS:
                    div['what'] += ' (another client held the write lock when the call started and released it after %d failed attempt(s))' % k
            at = i
            i += 1
        return events, div, (at if div is not None else None)
    finally:
        if cont is not None:
            cont.__exit__(None, None, None)
            if stats is not None:
                for key, v in (('contended_calls', cont.calls), ('contended_calls_that_waited', cont.calls_that_waited),
                               ('contended_failed_begin_attempts', cont.total_failed)):
                    stats[key] = stats.get(key, 0) + v
        h.close()
        shutil.rmtree(d, ignore_errors=True)


# -- generators


def weighted(rng, table):
    total = sum(w for _, w in table)
    x = rng.random() * total
    for name, w in table:
        x -= w
        if x < 0:
            return name
    return table[-1][0]


def pick_value(rng, kind):
    if rng.random() < P_BIG.get(kind, 0.0):
        return rng.choice(BIG_VALUES)
    if rng.random() < P_EDGE:
        return rng.choice(EDGE_VALUES)
    if kind == 'filebacked' and rng.random() < 0.5:
        return rng.choice(LONG_VALUES)
    return rng.choice(VALUES)


def newline_variant(rng, v):
    """A value that differs from v only in its line endings (None if v has no text with CR / LF inside)."""
    if isinstance(v, (str, bytes)):
        b = 'b' if isinstance(v, bytes) else ''
        edits = [".replace(%s'\\r\\n', %s'\\n').replace(%s'\\r', %s'\\n')" % (b, b, b, b), ".replace(%s'\\r\\n', %s'\\n')" % (b, b),
                 ".replace(%s'\\n', %s'\\r\\n')" % (b, b), ".replace(%s'\\r', %s'')" % (b, b)]
        alts = []
        for e in edits:
            w = eval('v' + e, {'__builtins__': {}, 'v': v})
            if w != v:
                alts.append((w, e))
        if not alts:
            return None
        w, e = rng.choice(alts)
        if v in BIG_EXPR and w not in BIG_EXPR:
            BIG_EXPR[w] = '(%s)%s' % (BIG_EXPR[v], e)
        return w
    if isinstance(v, tuple):
        for i, x in enumerate(v):
            w = newline_variant(rng, x)
            if w is not None:
                return v[:i] + (w,) + v[i + 1:]
    return None


def any_key(rng):
    if rng.random() < P_EDGE:
        return rng.choice(EDGE_KEYS)
    return None if rng.random() < 0.04 else rng.choice(KEYS)


def absent_key(rng, ref):
    if rng.random() < P_EDGE:
        cand = [k for k in EDGE_KEYS if k not in ref]
        if cand:
            return rng.choice(cand)
    cand = [k for k in KEYS_ALL if k not in ref]
    if rng.random() < 0.85:
        c2 = [k for k in cand if k is not None]
        cand = c2 or cand
    return rng.choice(cand) if cand else None


def pick_key(rng, ref, p_present):
    present = list(ref.keys())
    if present and rng.random() < p_present:
        k = rng.choice(present)
        if type(k) in (int, float) and k == 1 and rng.random() < 0.3:
            k = 1.0 if type(k) is int else 1     # the alias of the stored key
        return k
    k = absent_key(rng, ref)
    if k is None and None in ref:
        return rng.choice(KEYS_ALL)
    return k


def gen_pairs(rng, cur, kind):
    """Argument of an ==/!= operation and the name of the variant actually produced."""
    variant = rng.choice(['same', 'same', 'reordered', 'reordered', 'reordered', 'changed', 'changed', 'key_replaced',
                          'dropped', 'added', 'empty', 'retyped', 'newlines'])
    pairs = list(cur)
    ref = OrderedDict(cur)
    if variant == 'newlines':
        # the other mapping holds the same text with different line endings: not equal
        cands = [(i, w) for i, w in ((i, newline_variant(rng, v)) for i, (k, v) in enumerate(pairs)) if w is not None]
        if cands:
            i, w = rng.choice(cands)
            pairs[i] = (pairs[i][0], w)
        else:
            variant = 'changed'
    if variant == 'reordered':
        if len(pairs) < 2:
            variant = 'same'
        elif rng.random() < 0.4:
            pairs.reverse()
        else:
            r = rng.randrange(1, len(pairs))
            pairs = pairs[r:] + pairs[:r]
    elif variant == 'changed':
        if not pairs:
            variant = 'added'
        else:
            i = rng.randrange(len(pairs))
            k, v = pairs[i]
            cand = [x for x in VALUES if not leq(x, v)]
            pairs[i] = (k, rng.choice(cand))
    elif variant == 'key_replaced':
        k2 = absent_key(rng, ref)
        if not pairs or (k2 is None and None in ref):
            variant = 'added' if not pairs else 'same'
        else:
            i = rng.randrange(len(pairs))
            pairs[i] = (k2, pairs[i][1])
    elif variant == 'dropped':
        if not pairs:
            variant = 'added'
        else:
            del pairs[rng.randrange(len(pairs))]
    elif variant == 'retyped':
        alt = {int: [1.0, True], float: [1, True], bool: [1, 1.0]}
        idxs = [i for i, (k, v) in enumerate(pairs) if type(v) in alt and v == 1]
        if idxs:
            i = rng.choice(idxs)
            pairs[i] = (pairs[i][0], rng.choice(alt[type(pairs[i][1])]))
        else:
            variant = 'same'
    elif variant == 'empty':
        pairs = []
        if not cur:
            variant = 'same'
    if variant == 'added':
        k2 = absent_key(rng, ref)
        if k2 is None and None in ref:
            variant = 'same'
        else:
            pairs.insert(rng.randrange(len(pairs) + 1), (k2, pick_value(rng, kind)))
    return pairs, variant


def make_gen(rng, kind, stream, stats):
    table = W_VALID if stream == 'valid' else W_MALFORMED
    p_present = 0.9 if stream == 'valid' else 0.35

    def gen(ref):
        op = weighted(rng, table)
        if stream == 'valid' and op in ('popitem', 'peekitem') and not ref and rng.random() < 0.8:
            op = 'setitem'
        if stream == 'valid' and op in ('getitem', 'delitem', 'pop') and not ref and rng.random() < 0.7:
            op = 'setitem'
        if op == 'setitem':
            k = pick_key(rng, ref, 0.4) if rng.random() < 0.6 else any_key(rng)
            return op, [k, pick_value(rng, kind)]
        if op in ('getitem', 'delitem', 'pop', 'contains'):
            return op, [pick_key(rng, ref, p_present)]
        if op in ('pop_default', 'get'):
            return op, [pick_key(rng, ref, 0.5), pick_value(rng, kind)]
        if op in ('popitem', 'peekitem'):
            return op, [rng.random() < 0.5]
        if op == 'setdefault':
            dflt = None if rng.random() < 0.15 else pick_value(rng, kind)
            return op, [pick_key(rng, ref, 0.5), dflt]
        if op == 'update':
            n = rng.choice([0, 1, 1, 2, 2, 3, 4])
            pairs = []
            for _ in range(n):
                k = pick_key(rng, ref, 0.4) if rng.random() < 0.5 else any_key(rng)
                pairs.append((k, pick_value(rng, kind)))
            return op, [pairs]
        if op in EQ_OPS:
            pairs, variant = gen_pairs(rng, list(ref.items()), kind)
            ec = stats.setdefault('eq_cases', {})
            ec[variant] = ec.get(variant, 0) + 1
            return op, [pairs]
        return op, []
    return gen


def gen_init(rng, kind, stream):
    n = rng.choice([0, 1, 2, 3, 4, 5, 6]) if stream == 'valid' else rng.choice([0, 0, 1, 2])
    return [(any_key(rng), pick_value(rng, kind)) for _ in range(n)]


# -- shrinking and reporting


def diverges_at_end(kind, init, ops, mkdir, sig, extra=None):
    _, div, at = run_history(kind, init, ops, mkdir, **(extra or {}))
    return div is not None and div['sig'] == sig and at == len(ops) - 1


def shrink(kind, init, ops, mkdir, sig, budget=160, extra=None):
    """Greedy: delete earlier ops / initial pairs while the same divergence at the LAST op persists."""
    init, ops = list(init), list(ops)
    changed = True
    while changed and budget > 0:
        changed = False
        i = len(ops) - 2
        while i >= 0 and budget > 0:
            cand = ops[:i] + ops[i + 1:]
            budget -= 1
            if diverges_at_end(kind, init, cand, mkdir, sig, extra):
                ops = cand
                changed = True
            i -= 1
        j = len(init) - 1
        while j >= 0 and budget > 0 and not (extra or {}).get('init_fail'):
            cand = init[:j] + init[j + 1:]
            budget -= 1
            if diverges_at_end(kind, cand, ops, mkdir, sig, extra):
                init = cand
                changed = True
            j -= 1
    return init, ops


def history_case(hid, kind, stream, init, ops, div, extra=None):
    case = {'check': 'index_history', 'history': hid, 'kind': kind, 'stream': stream,
            'init': [[crepr(k, True), crepr(v, True)] for k, v in init],
            'ops': [[op, rl(args)] for op, args in ops],
            'what': div['what'], 'expected': div['expected'], 'observed': div['observed']}
    if extra and extra.get('init_fail') is not None:
        f = extra['init_fail']
        case['init_fail'] = [f[0], f[1], crepr(f[2], True)]
    if extra and extra.get('contend'):
        case['contend'] = extra['contend']
    return case


def short_history(h, nmax=14):
    return {'kind': h['kind'], 'stream': h['stream'], 'init': crepr(h['init']),
            'events': ['%s(%s) -> %s' % (e['op'], ', '.join(rl(e['args'])), crepr(e['res'])) for e in h['events'][:nmax]],
            'length': len(h['events'])}


def sequential(ctx, res, nhist, stats):
    """Differential monitor.  Returns the list of histories (in-memory format consumed by correspondence)."""
    rng = ctx.rng
    histories = []
    hist = stats.setdefault('op_histogram', {})
    shrunk = {}
    nops = nerr = 0

    def mkdir():
        return ctx.scratch('c12')

    for hid in range(nhist):
        kind = KINDS[hid % len(KINDS)]
        stream = 'malformed' if (hid // len(KINDS)) % 3 == 2 else 'valid'
        init = gen_init(rng, kind, stream)
        length = rng.randint(10, 40)
        extra = []
        events, div, at = run_history(kind, init, None, mkdir, stats=stats, gen=make_gen(rng, kind, stream, stats),
                                      maxlen=length, extra_viol=extra)
        res.violations += extra
        h = {'id': hid, 'kind': kind, 'stream': stream, 'init': list(init), 'events': events}
        histories.append(h)
        before = list(OrderedDict(init).items())
        for e in events:
            nops += 1
            hist[e['op']] = hist.get(e['op'], 0) + 1
            if e['res'][0] == 'raise':
                nerr += 1
            res.count(['seq', kind, e['op'], crepr(e['args']), crepr(before)],
                      nontrivial=bool(before) or bool(e['items']) or e['res'][0] == 'raise')
            before = e['items']
        for key, names in (('histories_with_reopen', ('reopen',)), ('histories_with_pickle', ('pickle',))):
            if any(e['op'] in names for e in events):
                stats[key] = stats.get(key, 0) + 1
        for key, val in (('histories_by_kind', kind), ('histories_by_stream', stream)):
            dd = stats.setdefault(key, {})
            dd[val] = dd.get(val, 0) + 1
        if hid < 2 or (stream == 'malformed' and stats.get('sampled_malformed', 0) < 1):
            if stream == 'malformed':
                stats['sampled_malformed'] = 1
            res.sample(short_history(h), limit=3)
        if div is not None:
            ops = [(e['op'], e['args']) for e in events]
            sig = div['sig']
            n = shrunk.get(sig, 0)
            if n < 2:
                shrunk[sig] = n + 1
                sinit, sops = shrink(kind, init, ops, mkdir, sig)
                _, sdiv, sat = run_history(kind, sinit, sops, mkdir)
                if sdiv is None or sdiv['sig'] != sig:
                    sinit, sops, sdiv = init, ops, div
                desc = 'Index diverges from OrderedDict (%s) at %s: expected %s observed %s' % (
                    sdiv['what'], 'init' if not sops else '%s(%s)' % (sops[-1][0], ', '.join(rl(sops[-1][1]))),
                    sdiv['expected'][:200], sdiv['observed'][:200])
                res.violations.append(fw.Violation(sig, desc, history_case(hid, kind, stream, sinit, sops, sdiv)))
            elif n < 20:
                shrunk[sig] = n + 1
                res.violations.append(fw.Violation(sig, 'Index diverges from OrderedDict (%s)' % div['what'],
                                                   history_case(hid, kind, stream, init, ops, div)))
    stats['histories'] = stats.get('histories', 0) + nhist
    stats['ops'] = stats.get('ops', 0) + nops
    stats['errors'] = stats.get('errors', 0) + nerr
    return histories


def gen_failing_source(rng, ref, kind):
    """Arguments [pairs, k, how, bad] of a failing source: new and already present keys, values of the kind's pools."""
    n = rng.choice([0, 1, 2, 3, 3, 4, 5])
    pairs = []
    for _ in range(n):
        k = pick_key(rng, ref, 0.5) if rng.random() < 0.6 else any_key(rng)
        pairs.append((k, pick_value(rng, kind)))
    k = rng.randint(0, n)
    x = rng.random()
    if x < 0.45:
        return [pairs, k, rng.choice(sorted(FAIL_EXC)), None]
    if x < 0.8:
        return [pairs, k, 'malformed', rng.choice(BAD_PAIRS)]
    return [pairs, k, 'keys:' + rng.choice(sorted(FAIL_EXC)), None]


def gen_extra_history(rng, kind, what, stats):
    """(init, ops, extra): a history with failing sources (what == 'failing') or one whose calls all start under a held write
    lock (what == 'contended'); generated ahead against an OrderedDict."""
    ref = OrderedDict()
    init = gen_init(rng, kind, 'valid')
    extra = {}
    if what == 'failing' and rng.random() < 0.4:
        f = gen_failing_source(rng, OrderedDict(init), kind)
        init, extra['init_fail'] = f[0], f[1:]
        guarded(lambda: ref.update(failing_source(init, *extra['init_fail'])))
    else:
        ref.update(list(init))
    if what == 'contended':
        extra['contend'] = [[rng.choice([1, 1, 2, 3]), (None if rng.random() < 0.6 else [rng.choice([1, 2]), rng.choice([1, 2])])]
                            for _ in range(7)]
    g = make_gen(rng, kind, 'valid', stats)
    ops = []
    for _ in range(rng.randint(4, 12) if what == 'failing' else rng.randint(10, 30)):
        if what == 'failing' and rng.random() < 0.5:
            ops.append(('update_failing', gen_failing_source(rng, ref, kind)))
            if rng.random() < 0.5:
                ops.append((rng.choice(['reopen', 'reopen', 'pickle']), []))
        else:
            op, args = g(ref)
            if what == 'contended' and op == 'pickle':
                op = 'reopen'       # unpickling builds an Index with the default 60 s SQLite timeout: not a handle to contend with in one thread
            ops.append((op, args))
        guarded(ref_apply, ref, ops[-1][0], ops[-1][1])
    return init, ops, extra


def extra_histories(ctx, res, stats, nfailing, ncontended):
    """Monitor-only histories (not sent to the Coq model): sources of pairs that fail part-way (update / constructor /
    fromcache); every call made while another client holds the write lock."""
    rng = ctx.rng

    def mkdir():
        return ctx.scratch('c12x')
    plan = [('failing', KINDS[k % len(KINDS)]) for k in range(nfailing)] + [('contended', 'contended')] * ncontended
    shrunk = {}
    for hid, (what, kind) in enumerate(plan):
        init, ops, extra = gen_extra_history(rng, kind, what, stats)
        events, div, at = run_history(kind, init, ops, mkdir, stats=stats, **extra)
        stats['histories_' + what] = stats.get('histories_' + what, 0) + 1
        before = None
        for e in events:
            if e['op'] == 'update_failing':
                stats['failing_sources'] = stats.get('failing_sources', 0) + 1
            res.count([what, kind, e['op'], crepr(e['args']), crepr(before)], nontrivial=True)
            before = e['items']
        if div is None:
            continue
        sig = div['sig']
        upto = ops[:at + 1] if at is not None and at >= 0 else []
        if shrunk.get(sig, 0) >= 2:
            continue
        shrunk[sig] = shrunk.get(sig, 0) + 1
        sinit, sops = shrink(kind, init, upto, mkdir, sig, extra=extra) if upto else (init, upto)
        _, sdiv, sat = run_history(kind, sinit, sops, mkdir, **extra)
        if sdiv is None or sdiv['sig'] != sig:
            sinit, sops, sdiv = init, upto, div
        desc = 'Index diverges from OrderedDict (%s) at %s: expected %s observed %s' % (
            sdiv['what'], 'construction' if not sops else '%s(%s)' % (sops[-1][0], ', '.join(rl(sops[-1][1]))[:300]),
            sdiv['expected'][:200], sdiv['observed'][:200])
        res.violations.append(fw.Violation(sig, desc, history_case('%s-%d' % (what, hid), kind, what, sinit, sops, sdiv, extra)))


def gen_evicting_parent_history(rng):
    """ops for an Index obtained from a parent cache that evicts: filled far beyond one shard's share of the parent's size limit with
    inline values of 200-900 characters (update, [], setdefault), read, obtained again (reopen / unpickle), filled further, popped."""
    ops, n, keys = [], 0, []

    def pair():
        nonlocal n
        n += 1
        k = rng.choice([('key', n), 'key-%03d' % n, n, 1000.5 + n])
        keys.append(k)
        return (k, ('value-%04d-' % n) + chr(97 + n % 26) * rng.choice([200, 400, 900]))
    for rnd in range(rng.randint(3, 4)):
        ops.append(('update', [[pair() for _ in range(rng.randint(25, 40))]]))
        for _ in range(rng.randint(1, 3)):
            k, v = pair()
            ops.append(rng.choice([('setitem', [k, v]), ('setdefault', [k, v])]))
        ops.append(rng.choice([('len', []), ('getitem', [keys[0]]), ('contains', [keys[1]]), ('peekitem', [False]), ('get', [keys[2], None]),
                               ('setitem', [keys[3], 'replaced']), ('popitem', [False]), ('popitem', [True]), ('keys', [])]))
        if rnd == 1:
            ops.append((rng.choice(['reopen', 'reopen', 'pickle']), []))
    ops.append(('reopen', []))
    ops.append(('items', []))
    return ops


def evicting_parent_histories(ctx, res, stats, n):
    """"Never loses items to eviction", whatever the cache the Index was obtained from is configured to do: FanoutCache.index /
    DjangoCache.index of a parent constructed with every eviction policy and a small size limit (monitor only; own random stream)."""
    import random
    rng = random.Random('C12-evicting-parent-%d' % ctx.seed)

    def mkdir():
        return ctx.scratch('c12e')
    kinds = ['%s+%s' % (b, p) for p in POLICIES for b in ('fanout', 'django')]
    seen = set()
    for hid in range(n):
        kind = kinds[hid % len(kinds)]
        ops = gen_evicting_parent_history(rng)
        events, div, at = run_history(kind, [], ops, mkdir, stats=stats)
        stats['histories_evicting_parent'] = stats.get('histories_evicting_parent', 0) + 1
        stats['evicting_parent_items_stored'] = stats.get('evicting_parent_items_stored', 0) + (len(events[-1]['items']) if events else 0)
        for i, e in enumerate(events):
            res.count(['evicting-parent', kind, hid, i, e['op']], nontrivial=True)
        if div is None or div['sig'] in seen:
            continue
        sig = div['sig']
        seen.add(sig)
        upto = ops[:at + 1] if at is not None and at >= 0 else []
        sinit, sops = shrink(kind, [], upto, mkdir, sig, budget=30) if upto else ([], upto)
        _, sdiv, sat = run_history(kind, sinit, sops, mkdir)
        if sdiv is None or sdiv['sig'] != sig:
            sinit, sops, sdiv = [], upto, div
        nstored = sum(len(a[0]) if op == 'update' else 1 for op, a in sops if op in ('update', 'setitem', 'setdefault'))
        desc = ('Index obtained from %s.index() of a parent constructed with eviction_policy=%r, size_limit=%d, shards=2 diverges from OrderedDict (%s) at %s '
                'after %d pairs were stored: expected %s observed %s' % (
                    'FanoutCache' if kind.startswith('fanout') else 'DjangoCache', kind.partition('+')[2], SMALL_PARENT_LIMIT, sdiv['what'],
                    'construction' if not sops else '%s(%s)' % (sops[-1][0], ', '.join(rl(sops[-1][1]))[:120]), nstored,
                    sdiv['expected'][:160], sdiv['observed'][:160]))
        res.violations.append(fw.Violation(sig, desc, history_case('evicting-parent-%d' % hid, kind, 'evicting-parent', sinit, sops, sdiv)))


def directed_values(ctx, res, stats, histories, thorough):
    """Every value of the big / line-ending pools through every way an Index hands a value out, on every kind: lookup, get, views,
    peekitem, equality with the same mapping and with one differing only in line endings, reopen, unpickle, pop, popitem,
    setdefault.  Same oracle (OrderedDict after every call) and same replay format as the generated histories."""
    import random

    def mkdir():
        return ctx.scratch('c12d')

    crs = [v for v in LONG_VALUES if newline_variant(random.Random(0), v) is not None]
    n = 0
    for ki, kind in enumerate(KINDS):
        pool = list(BIG_VALUES) + (crs if kind == 'filebacked' or thorough else crs[(ctx.seed + ki) % 3::3])
        if not thorough and kind != 'plain':
            pool = [v for i, v in enumerate(pool) if (i + ki + ctx.seed) % 2 == 0 or v in crs]
        for vi, v in enumerate(pool):
            rng = random.Random(vi * 31 + ki)
            w = newline_variant(rng, v)
            other = BIG_VALUES[(vi + 3) % len(BIG_VALUES)] if vi % 2 else 'small'
            init = [('first', other), ('k', v), (7, b'x')]
            same = list(init)
            ops = [('getitem', ['k']), ('get', ['k', None]), ('values', []), ('items', []), ('peekitem', [False]), ('contains', ['k']),
                   ('eq_ordered', [same]), ('eq_unordered', [list(reversed(same))]), ('ne_ordered', [same])]
            if w is not None:
                diff = [('first', other), ('k', w), (7, b'x')]
                ops += [('eq_ordered', [diff]), ('eq_unordered', [diff]), ('ne_unordered', [diff])]
            ops += [('reopen', []), ('getitem', ['k']), ('eq_ordered', [same]), ('pickle', []), ('get', ['k', 0]), ('values', []),
                    ('pop', ['k']), ('setdefault', ['k', v]), ('setdefault', ['k', 'ignored']), ('popitem', [True]), ('setitem', [7, v]),
                    ('popitem', [True]), ('update', [[('u', v), ('first', v)]]), ('reopen', []), ('popitem', [False]), ('pop_default', ['u', 1])]
            events, div, at = run_history(kind, init, ops, mkdir, stats=stats)
            n += 1
            histories.append({'id': 'directed-%s-%d' % (kind, vi), 'kind': kind, 'stream': 'directed', 'init': list(init), 'events': events})
            before = list(OrderedDict(init).items())
            for e in events:
                res.count(['directed', kind, e['op'], crepr(e['args']), crepr(before)], nontrivial=True)
                before = e['items']
            if div is not None:
                upto = ops[:at + 1] if at is not None and at >= 0 else []
                desc = 'Index diverges from OrderedDict (%s) at %s: expected %s observed %s' % (
                    div['what'], 'init' if not upto else '%s(%s)' % (upto[-1][0], ', '.join(rl(upto[-1][1]))[:200]),
                    div['expected'][:200], div['observed'][:200])
                res.violations.append(fw.Violation(div['sig'], desc, history_case('directed-%s-%d' % (kind, vi), kind, 'directed', init, upto, div)))
    stats['directed_value_histories'] = n


def int_edge_history(edges, salt):
    """(init, ops): every integer of `edges` as key and as value -- stored by [], setdefault, update and the constructor, handed out by
    every lookup, kept over reopen / unpickle, removed by del, pop, popitem -- and as component of a tuple key."""
    init = [(edges[0], 'init'), ('holds', edges[-1])]
    ops = []
    for i, e in enumerate(edges):
        ops += [('setitem', [e, i]), ('setitem', ['v%d' % i, e]), ('getitem', [e]), ('contains', [e]), ('get', ['v%d' % i, None])]
        ops += [('setitem', [(e, 'c'), e]), ('setdefault', [(e,), e]), ('getitem', [(e, 'c')])]
    ops += [('keys', []), ('values', []), ('reopen', []), ('items', [])]
    for i, e in enumerate(edges):
        f = edges[(i + 1) % len(edges)]
        ops += [('setitem', [e, f]), ('get', [e, None]), ('update', [[(f, e), ((f, e), (e, f))]]), ('getitem', [(f, e)])]
        ops += [[('pop', [e]), ('delitem', [e]), ('pop_default', [e, f])][(i + salt) % 3], ('contains', [e]), ('get', [e, f])]
        ops += [('setdefault', [e, e]), ('delitem', [(e, 'c')])]
        if i % 3 == salt % 3:
            ops += [('pickle' if i % 2 else 'reopen', []), ('getitem', [e])]
    ops += [('peekitem', [True]), ('popitem', [True]), ('popitem', [False]), ('reversed', []), ('reopen', []), ('items', []), ('len', [])]
    return init, ops


def directed_ints(ctx, res, stats, histories, thorough):
    """Every integer of INT_EDGES through every kind of Index as key, as value and inside tuple keys (int_edge_history); same oracle
    (OrderedDict after every call) and the same replay format as the generated histories; a divergence is shrunk."""
    def mkdir():
        return ctx.scratch('c12i')

    per = 5
    chunks = [INT_EDGES[i:i + per] for i in range(0, len(INT_EDGES), per)]
    n = 0
    shrunk = {}
    for ki, kind in enumerate(KINDS):
        for ci, edges in enumerate(chunks):
            if not thorough and kind in ('fanout', 'django') and (ci + ki + ctx.seed) % 2:
                continue        # quick tier: the two derived kinds take every other chunk (plain and file-backed take all)
            hid = 'ints-%s-%d' % (kind, ci)
            init, ops = int_edge_history(edges, ci + ki + ctx.seed)
            events, div, at = run_history(kind, init, ops, mkdir, stats=stats)
            n += 1
            if thorough or (n + ctx.seed) % 3 == 0:
                # pool of the model correspondence: these histories are long (every call carries the whole contents), a third of them in the quick tier
                histories.append({'id': hid, 'kind': kind, 'stream': 'directed', 'init': list(init), 'events': events})
            before = list(OrderedDict(init).items())
            for e in events:
                res.count(['ints', kind, e['op'], crepr(e['args']), crepr(before)], nontrivial=True)
                before = e['items']
            if div is None:
                continue
            sig = div['sig']
            upto = ops[:at + 1] if at is not None and at >= 0 else []
            if shrunk.get(sig, 0) >= 3:
                continue
            shrunk[sig] = shrunk.get(sig, 0) + 1
            sinit, sops = shrink(kind, init, upto, mkdir, sig, budget=120) if upto else (init, upto)
            _, sdiv, sat = run_history(kind, sinit, sops, mkdir)
            if sdiv is None or sdiv['sig'] != sig:
                sinit, sops, sdiv = init, upto, div
            desc = 'Index diverges from OrderedDict (%s) at %s: expected %s observed %s' % (
                sdiv['what'], 'init' if not sops else '%s(%s)' % (sops[-1][0], ', '.join(rl(sops[-1][1]))[:200]),
                sdiv['expected'][:200], sdiv['observed'][:200])
            res.violations.append(fw.Violation(sig, desc, history_case(hid, kind, 'directed', sinit, sops, sdiv)))
    stats['directed_int_histories'] = n


# Composite keys (stored as their serialised form, raw = 0) and, for each, its TWIN: the bytes key (stored natively, raw = 1) equal to that
# serialised form.  The two share the key column of the table and are different dictionary keys.
TWIN_COMPOSITES = [('user', 42), (1, 2), None, True, 2 ** 70, -2 ** 63 - 1, (None,), ((1, 'a'), 2.5), ()]


def twin_of(kind, k, mkdir):
    """the bytes key equal to what an Index of this kind writes into the key column for the composite key k"""
    d = mkdir()
    h = Handle(kind, d)
    try:
        h.open(None)
        db_key, raw = h.idx.cache.disk.put(k)
        return None if raw else bytes(db_key)
    finally:
        h.close()
        shutil.rmtree(d, ignore_errors=True)


def twin_history(k, t, order, salt):
    """(init, ops): the composite key k and its twin bytes key t through every way an Index stores, finds, lists and removes a key."""
    first, second = (t, k) if order == 0 else (k, t)
    init = [('other', 0)] if order < 2 else [('other', 0), (first, 'made first'), (second, 'made second')]
    ops = []
    if order < 2:
        store = [('setitem', [first, 'first value']), ('setitem', [second, 'second value'])]
        if salt % 3 == 1:
            store = [('setdefault', [first, 'first value']), ('setdefault', [second, 'second value'])]
        elif salt % 3 == 2:
            store = [('update', [[(first, 'first value')]]), ('update', [[(second, 'second value'), ('more', 1)]])]
        ops += store
    ops += [('getitem', [first]), ('getitem', [second]), ('len', []), ('contains', [first]), ('contains', [second]), ('keys', []), ('values', []), ('items', []),
            ('reversed', []), ('reopen', []), ('items', []), ('len', []),
            ('setitem', [second, 'v2']), ('getitem', [first]), ('setitem', [first, 'x' * 40]), ('getitem', [second]), ('setdefault', [first, 'ignored']),
            ('pop', [second]), ('contains', [first]), ('getitem', [first]), ('get', [second, 'gone']), ('setdefault', [second, 'again']), ('items', []),
            ('update', [[(first, 1), (second, 2)]]), ('items', []), ('delitem', [first]), ('getitem', [second]), ('contains', [first]), ('len', []),
            ('pop_default', [first, 'absent']), ('setitem', [first, 'back']), ('pickle', []), ('items', []), ('peekitem', [True]), ('popitem', [True]),
            ('popitem', [True]), ('items', []), ('update', [[(second, 's'), (first, 'f')]]), ('popitem', [False]), ('popitem', [False]), ('keys', []),
            ('delitem', [first]), ('delitem', [second]), ('reopen', []), ('len', []), ('items', [])]
    return init, ops


def directed_twins(ctx, res, stats, thorough):
    """Twin keys on every kind of Index: a composite key and the bytes key equal to its serialised form are two keys of a dictionary; stored by [],
    setdefault, update and the constructor in both orders, looked up, listed by the views, replaced, popped, deleted, taken by popitem, over reopen
    and unpickle.  Same oracle (OrderedDict after every call) and replay format as the generated histories; a divergence is shrunk."""
    def mkdir():
        return ctx.scratch('c12t')

    n = 0
    shrunk = {}
    for ki, kind in enumerate(KINDS):
        for ci, k in enumerate(TWIN_COMPOSITES):
            t = twin_of(kind, k, mkdir)
            if t is None:
                continue        # stored natively by this disk: it has no twin
            for order in (0, 1, 2):
                if not thorough and (ci + ki + order + ctx.seed) % 2 and not (ci == 0 and order == 0):
                    continue
                hid = 'twins-%s-%d-%d' % (kind, ci, order)
                init, ops = twin_history(k, t, order, ci + ki + ctx.seed)
                events, div, at = run_history(kind, init, ops, mkdir, stats=stats)
                n += 1
                before = list(OrderedDict(init).items())
                for e in events:
                    res.count(['twins', kind, e['op'], crepr(e['args']), crepr(before)], nontrivial=True)
                    before = e['items']
                if div is None:
                    continue
                sig = div['sig']
                upto = ops[:at + 1] if at is not None and at >= 0 else []
                if shrunk.get(sig, 0) >= 2:
                    continue
                shrunk[sig] = shrunk.get(sig, 0) + 1
                sinit, sops = shrink(kind, init, upto, mkdir, sig, budget=80) if upto else (init, upto)
                _, sdiv, sat = run_history(kind, sinit, sops, mkdir)
                if sdiv is None or sdiv['sig'] != sig:
                    sinit, sops, sdiv = init, upto, div
                desc = 'twin keys (a composite key and the bytes key equal to its stored form): Index diverges from OrderedDict (%s) at %s: expected %s observed %s' % (
                    sdiv['what'], 'init' if not sops else '%s(%s)' % (sops[-1][0], ', '.join(rl(sops[-1][1]))[:200]),
                    sdiv['expected'][:200], sdiv['observed'][:200])
                res.violations.append(fw.Violation(sig, desc, history_case(hid, kind, 'directed', sinit, sops, sdiv)))
    stats['directed_twin_histories'] = n


# ---------------------------------------------------------------------------
# (b) correspondence


class Unencodable(Exception):
    pass


class Encoder:
    """Python keys/values -> integer ids for the Coq model: objects that are equal (==) get equal ids."""

    def __init__(self):
        self.table = []
        self.numbers = []       # numbers outside the directly encoded range (the integer edges): numbered by ==, whatever their type

    def id(self, v):
        if isinstance(v, (bool, int, float)):
            if v != v or v in (float('inf'), float('-inf')):
                raise Unencodable(repr(v))
            if abs(v) <= 500000 and 2 * v == int(2 * v):
                return int(2 * v)
            if isinstance(v, float) and v != int(v):
                raise Unencodable(repr(v))
            for i, t in enumerate(self.numbers):
                if t == v:
                    return 30000000 + i
            self.numbers.append(v)
            return 30000000 + len(self.numbers) - 1
        if v is None:
            return 10000000
        if isinstance(v, (str, bytes, tuple)):
            for i, t in enumerate(self.table):
                if type(t) is type(v) and t == v:
                    return 20000000 + i
            self.table.append(v)
            return 20000000 + len(self.table) - 1
        raise Unencodable(repr(v))

    def ids(self, vs):
        return fw.czlist([self.id(v) for v in vs])

    def pairs(self, ps):
        return fw.clist(['(%d, %d)' % (self.id(k), self.id(v)) for k, v in ps])


def coq_ix_event(enc, e):
    op, a = e['op'], e['args']
    z = lambda v: fw.cz(enc.id(v))      # noqa: E731
    if op == 'setitem':
        return 'XOp (ISet %s %s)' % (z(a[0]), z(a[1]))
    if op == 'getitem':
        return 'XOp (IGet %s)' % z(a[0])
    if op == 'delitem':
        return 'XOp (IDel %s)' % z(a[0])
    if op == 'pop':
        return 'XOp (IPop %s)' % z(a[0])
    if op == 'pop_default':
        return 'XOp (IPopDefault %s %s)' % (z(a[0]), z(a[1]))
    if op == 'popitem':
        return 'XOp (IPopItem %s)' % fw.cbool(bool(a[0]))
    if op == 'peekitem':
        return 'XOp (IPeekItem %s)' % fw.cbool(bool(a[0]))
    if op == 'setdefault':
        return 'XOp (ISetDefault %s %s)' % (z(a[0]), z(a[1]))
    if op == 'update':
        return 'XOp (IUpdate %s)' % enc.pairs(list(a[0]))
    if op in ('keys', 'values', 'items', 'iter', 'reversed', 'len', 'clear'):
        return 'XOp %s' % {'keys': 'IKeys', 'values': 'IValues', 'items': 'IItems', 'iter': 'IIter', 'reversed': 'IReversed',
                          'len': 'ILen', 'clear': 'IClear'}[op]
    if op in EQ_OPS:
        ordered = op.endswith('_ordered') and not op.endswith('unordered')
        eff = list(OrderedDict(list(a[0])).items()) if ordered else list(dict(list(a[0])).items())
        return 'XOp (%s %s %s)' % ('IEq' if op.startswith('eq') else 'INe', 'MK_OrderedDict' if ordered else 'MK_dict',
                                   enc.pairs(eff))
    if op == 'get':
        return 'XOp (IGetDefault %s %s)' % (z(a[0]), z(a[1]))
    if op == 'contains':
        return 'XOp (IContains %s)' % z(a[0])
    if op == 'reopen':
        return 'XReopen'
    if op == 'pickle':
        return 'XPickle'
    raise Unencodable(op)


def coq_ix_res(enc, r):
    k = r[0]
    if k == 'none':
        return 'RNone'
    if k == 'val':
        return '(RVal %s)' % fw.cz(enc.id(r[1]))
    if k == 'pair':
        return '(RPair %s %s)' % (fw.cz(enc.id(r[1])), fw.cz(enc.id(r[2])))
    if k == 'int':
        return '(RInt %s)' % fw.cz(r[1])
    if k == 'bool':
        return '(RBool %s)' % fw.cbool(r[1])
    if k == 'list':
        return '(RList %s)' % enc.ids(r[1])
    if k == 'pairs':
        return '(RPairs %s)' % enc.pairs(r[1])
    if k == 'raise' and r[1] in ('KeyError', 'IndexError', 'ValueError', 'TypeError'):
        return '(RRaise %s)' % r[1]
    raise Unencodable(repr(r))


def coq_ix_history(h, upto=None):
    """(check term, number of calls) or None if the history cannot be expressed in the model."""
    try:
        enc = Encoder()
        init = enc.pairs(h['init'])
        evs = h['events'] if upto is None else h['events'][:upto]
        events, expected = [], []
        for e in evs:
            events.append(coq_ix_event(enc, e))
            expected.append('(%s, %s)' % (coq_ix_res(enc, e['res']), enc.pairs(e['items'])))
        return 'ix_check %s %s %s' % (init, fw.clist(events), fw.clist(expected)), len(events)
    except Unencodable:
        return None


def model_case(h, upto=None):
    evs = h['events'] if upto is None else h['events'][:upto]
    return {'check': 'index_model', 'kind': h['kind'], 'init': [[crepr(k, True), crepr(v, True)] for k, v in h['init']],
            'ops': [[e['op'], rl(e['args'])] for e in evs],
            'impl_results': [crepr(e['res']) for e in evs], 'impl_items': [crepr(e['items']) for e in evs][-2:]}


COQ_IMPORTS = ['DCPrelude', 'PersistentBase', 'Gen_Persistent', 'QCache', 'Index', 'IndexConc']


def correspondence(ctx, res, histories, limit):
    """Model vs implementation: every history is run through the Coq model of Index (model/Index.v, which calls the
    definitions generated from persistent.py) AND through the OrderedDict specification od_step; result and
    list(index.items()) after every call must equal what the implementation produced."""
    chosen, total, skipped = [], 0, 0
    order = list(range(len(histories)))
    ctx.rng.shuffle(order)
    for i in order:
        h = histories[i]
        if not h['events']:
            continue
        t = coq_ix_history(h)
        if t is None:
            skipped += 1
            continue
        if total + t[1] > limit and chosen:
            break
        chosen.append((h, t[0]))
        total += t[1]
    res.extra['model_histories'] = len(chosen)
    res.extra['model_calls'] = total
    res.extra['model_histories_not_expressible'] = skipped
    if not chosen:
        return
    # the model must run even when a proof is broken (model/ holds no proofs): make sure its .vo files exist
    fw.coq_make(['model/Index.vo', 'model/IndexConc.vo'], jobs=4, timeout=900)
    checks = [t for _, t in chosen]
    bad, errors = fw.coq_mismatches('c12', COQ_IMPORTS, '', checks, chunk=60)
    res.traces_validated += len(checks) - len(bad)
    for e in errors:
        res.disagreements.append(fw.Violation('model-eval', 'model evaluation failed: ' + e[-400:], {}, 'correspondence'))
    for i in bad[:3]:
        h, term = chosen[i]
        n = len(h['events'])
        prefixes = [coq_ix_history(h, k)[0] for k in range(1, n + 1)]
        bad2, _ = fw.coq_mismatches('c12p', COQ_IMPORTS, '', prefixes, chunk=60)
        upto, where = None, ''
        if bad2:
            upto = min(bad2) + 1
            e = h['events'][upto - 1]
            where = ': first disagreement at call %d, %s(%s) -> implementation %s, items %s' % (
                upto, e['op'], ', '.join(crepr(x) for x in e['args']), crepr(e['res']), crepr(e['items']))
        res.disagreements.append(fw.Violation(
            'index_model', 'the Coq model of Index (or the OrderedDict specification) disagrees with diskcache.Index' + where,
            model_case(h, upto), 'correspondence'))
    res.sample({'model_check_example': checks[0][:300]})


# -- the micro-step machine of model/IndexConc.v against the implementation under the scheduler


def machine_schedule(log, nwriters, file_backed):
    """Scheduler log [(cid, 'kind:what')] -> schedule of the Coq machine (0 = reader, i+1 = writer i).
    reader: SELECT, open-read (and again SELECT, open-read after an open that found the file gone).  writer: create (= store), BEGIN (every attempt), UPDATE, COMMIT, remove.  The machine gives
    every writer a store step and a remove step; for inline values the implementation has no such event, so the store step is
    inserted before the writer's first BEGIN (it changes nothing) and the remove steps are appended at the end."""
    out = []
    stored = [False] * nwriters
    for c, ev in log:
        if c == 0:
            if ev in ('sql:SELECT', 'file:open-read'):
                out.append(0)
            continue
        w = c - 1
        if ev == 'file:create':
            stored[w] = True
            out.append(c)
        elif ev == 'sql:BEGIN':
            if not stored[w]:
                stored[w] = True
                out.append(c)
            out.append(c)
        elif ev in ('sql:UPDATE', 'sql:COMMIT', 'file:remove'):
            out.append(c)
    for w in range(nwriters):
        out.append(w + 1)           # remove step of writers whose old value was inline (no-op) -- harmless if already done
    return out


def machine_correspondence(ctx, res, nruns):
    """Random schedules of one lookup against 1-2 replacements of the same key (inline and file-backed values): the outcome
    of the lookup (value found / KeyError) must be what the Coq machine computes for the translated schedule."""
    rng = ctx.rng
    cases = []
    hits = 0
    for r in range(nruns):
        file0 = rng.random() < 0.6
        nw = rng.choice([1, 1, 2])
        wfile = [rng.random() < 0.6 for _ in range(nw)]
        val = lambda i, f: ('v%d' % i) * 10 if f else i      # noqa: E731
        v0 = val(7, file0)
        news = [val(8 + i, wfile[i]) for i in range(nw)]
        sched_ = [rng.randrange(nw + 1) for _ in range(rng.randint(0, 6))]
        if rng.random() < 0.5:
            sched_ = [0] + [rng.randrange(1, nw + 1) for _ in range(rng.randint(5, 25))] + [0]
        d = tempfile.mkdtemp(prefix='c12m-')
        try:
            result, outcomes, final = run_conc(d, [('k', v0)], [[('get', 'k')]] + [[('set', 'k', n)] for n in news], sched_)
        finally:
            shutil.rmtree(d, ignore_errors=True)
        if result['overflow'] or not outcomes[0]:
            continue
        res.count(['machine', file0, wfile, result['schedule_used']], nontrivial=True)
        log = [(c, e) for c, e, _ in result['log']]
        ms = machine_schedule(log, nw, wfile)
        o = outcomes[0][0][1]
        ids = {repr(v0): 7}
        for i, n in enumerate(news):
            ids[repr(n)] = 8 + i
        if o[0] == 'KeyError':
            want = 'Some None => true | _ => false'
            hits += 1
            if hits <= 2:
                # the key is only ever replaced: the property itself is violated (monitor verdict, independent of the machine)
                res.violations.append(fw.Violation(
                    'lookup_keyerror_inline' if not (file0 or any(wfile)) else 'lookup_keyerror_other',
                    'lookup of a key that is present in every committed state raised KeyError while %d client(s) replaced its value' % nw,
                    {'check': 'index_machine', 'file0': file0, 'writers_file_backed': wfile, 'schedule': sched_}))
        elif o[0] == 'ok' and repr(o[1]) in ids:
            want = 'Some (Some v) => v =? %d | _ => false' % ids[repr(o[1])]
        else:
            res.disagreements.append(fw.Violation('index_machine', 'unexpected lookup outcome %r' % (o,), {}, 'correspondence'))
            continue
        term = 'match lookup_result (run repaired (init %s 7 %s) %s) with %s end' % (
            fw.cbool(file0), fw.clist(['(%d, %s)' % (8 + i, fw.cbool(wfile[i])) for i in range(nw)]),
            '[' + '; '.join('%d%%nat' % c for c in ms) + ']', want)
        cases.append((term, {'check': 'index_machine', 'file0': file0, 'writers_file_backed': wfile, 'schedule': sched_,
                             'log': [list(x) for x in log], 'machine_schedule': ms, 'lookup_outcome': [o[0], repr(o[1])[:40]]}))
    res.extra['machine_runs'] = len(cases)
    res.extra['machine_runs_lookup_keyerror'] = hits
    if not cases:
        return
    bad, errors = fw.coq_mismatches('c12m', COQ_IMPORTS, '', [t for t, _ in cases], chunk=200)
    res.traces_validated += len(cases) - len(bad)
    for e in errors:
        res.disagreements.append(fw.Violation('model-eval', 'model evaluation failed: ' + e[-400:], {}, 'correspondence'))
    for i in bad[:3]:
        res.disagreements.append(fw.Violation(
            'index_machine', 'the micro-step machine of model/IndexConc.v predicts another lookup outcome than the implementation showed',
            cases[i][1], 'correspondence'))


# ---------------------------------------------------------------------------
# (c) concurrency


def vid(v):
    return (type(v).__name__, repr(v))


def conc_perform(idx, op):
    name = op[0]
    if name == 'get':
        return idx[op[1]]
    if name == 'set':
        idx[op[1]] = op[2]
        return None
    if name == 'setdefault':
        return idx.setdefault(op[1], op[2])
    if name == 'popitem':
        return idx.popitem(last=op[1])
    if name == 'len':
        return len(idx)
    if name == 'del':
        del idx[op[1]]
        return None
    if name == 'pop':
        return idx.pop(op[1])
    if name == 'update':
        idx.update(list(op[1]))
        return None
    if name == 'contains':
        return op[1] in idx
    raise ValueError(name)


def shared_dir_disk():
    """The Disk subclass of props/c05 whose filename() puts every value file into ONE sub-directory (a documented customisation)."""
    from props import c05
    return c05.SharedDirDisk


def run_conc(directory, init, programs, schedule, disk=None):
    """Pre-populates `directory` with `init` (list of pairs), runs programs (list of op lists) under the
    deterministic scheduler.  Returns (scheduler result, per-client outcome lists, final items or None).
    disk: the Disk class every client (and the pre-population) opens the directory with (default diskcache.Disk)."""
    kw = {'disk': disk} if disk is not None else {}

    def Cache(directory, **settings):
        settings.update(kw)
        return diskcache.Cache(directory, **settings)
    cache = Cache(directory, disk_min_file_size=8, eviction_policy='none')
    idx0 = diskcache.Index.fromcache(cache)
    for k, v in init:
        idx0[k] = v
    cache.close()
    n = len(programs)
    sch = sched.Scheduler()
    state = [None] * n
    sch.nevents = [0] * n

    def make(cid):
        def warm():
            c = Cache(directory, timeout=0, disk_min_file_size=8, eviction_policy='none')
            state[cid] = diskcache.Index.fromcache(c)
            len(state[cid])

        def prog():
            idx = state[cid]
            out = []
            try:
                for op in programs[cid]:
                    n0 = sch.nevents[cid]
                    try:
                        o = ('ok', conc_perform(idx, op))
                    except KeyError as e:
                        o = ('KeyError', repr(e.args))
                    except Exception as e:  # noqa
                        o = ('error', '%s: %s' % (type(e).__name__, e))
                    out.append((op, o, n0, sch.nevents[cid]))
            finally:
                idx.cache.close()
            return out
        return warm, prog
    pairs = [make(c) for c in range(n)]
    result = sch.run([p for _, p in pairs], list(schedule), warmups=[w for w, _ in pairs])
    final = None
    if not result['overflow']:
        c = Cache(directory, disk_min_file_size=8, eviction_policy='none')
        try:
            final = list(diskcache.Index.fromcache(c).items())
        finally:
            c.close()
    return result, result['results'], final


def positions(log, n):
    pos = [[] for _ in range(n)]
    for i, entry in enumerate(log):
        pos[entry[0]].append(i)
    return pos


def short_log(log, lo=0, hi=None):
    return [[c, e] for c, e, _ in log[lo:hi]]


def conc_case(scenario, inline, init, programs, result, extra):
    case = {'check': 'index_conc', 'scenario': scenario, 'inline': inline,
            'init': [[repr(k), repr(v)] for k, v in init],
            'programs': [[[op[0]] + rl(op[1:]) for op in p] for p in programs],
            'schedule': list(result['schedule_used'])}
    case.update(extra)
    return case


def monitor_s1(init, programs, result, outcomes, inline):
    """Continuous presence: the shared keys are never deleted, so every lookup must succeed with a stored value.
    Returns a list of (sig, desc, extra-case-fields)."""
    out = []
    n = len(programs)
    log = result['log']
    stored = {}
    for k, v in init:
        stored.setdefault(k, set()).add(vid(v))
    for p in programs:
        for op in p:
            if op[0] == 'set':
                stored.setdefault(op[1], set()).add(vid(op[2]))
    pos = positions(log, n)
    for cid in range(n):
        if result['errors'][cid] is not None or outcomes[cid] is None:
            out.append(('index_conc_error', 'client %d died: %r' % (cid, result['errors'][cid]), {'client': cid}))
            continue
        for i, (op, o, n0, n1) in enumerate(outcomes[cid]):
            where = {'client': cid, 'op_index': i, 'op': [op[0]] + rl(op[1:]), 'outcome': [o[0], repr(o[1])]}
            if o[0] == 'error':
                out.append(('index_conc_error', 'client %d op %r raised %s' % (cid, op, o[1]), where))
            elif o[0] == 'KeyError':
                mine = pos[cid][n0:n1]
                evs = [log[g] for g in mine]
                sig = 'lookup_keyerror_inline' if inline else 'lookup_keyerror_other'
                where['reader_events'] = [[c, e] for c, e, _ in evs]
                if mine:
                    where['log_window'] = short_log(log, mine[0], mine[-1] + 1)
                out.append((sig, 'lookup of the continuously present key %r raised KeyError (client %d, %s)'
                            % (op[1], cid, sig), where))
            elif op[0] in ('get', 'setdefault'):
                if vid(o[1]) not in stored.get(op[1], ()):
                    out.append(('lookup_phantom_value', '%s(%r) returned %r which nobody stored under that key'
                                % (op[0], op[1], o[1]), where))
    return out


def monitor_s2(init, programs, result, outcomes, final):
    """Accounting that holds under every interleaving when every key is inserted once:
    popped at most once, popped/final values are the stored ones, popped + final = inserted."""
    out = []
    n = len(programs)
    inserted = {}
    for k, v in init:
        inserted[k] = v
    for p in programs:
        for op in p:
            if op[0] == 'set':
                inserted[op[1]] = op[2]
    popped = {}
    for cid in range(n):
        if result['errors'][cid] is not None or outcomes[cid] is None:
            out.append(('index_conc_error', 'client %d died: %r' % (cid, result['errors'][cid]), {'client': cid}))
            continue
        for i, (op, o, n0, n1) in enumerate(outcomes[cid]):
            where = {'client': cid, 'op_index': i, 'op': [op[0]] + rl(op[1:]), 'outcome': [o[0], repr(o[1])]}
            if o[0] == 'error':
                out.append(('index_conc_error', 'client %d op %r raised %s' % (cid, op, o[1]), where))
            elif op[0] == 'popitem':
                if o[0] == 'KeyError':
                    if 'dictionary is empty' not in o[1]:
                        out.append(('index_conc_error', 'popitem raised KeyError%s' % o[1], where))
                    continue
                pair = o[1]
                if not (isinstance(pair, tuple) and len(pair) == 2):
                    out.append(('index_conc_error', 'popitem returned %r' % (pair,), where))
                    continue
                k, v = pair
                if k in popped:
                    out.append(('index_conc_duplicate_pop', 'key %r popped twice (clients %d and %d)' % (k, popped[k][0], cid), where))
                elif k not in inserted or not teq(inserted[k], v):
                    out.append(('index_conc_phantom_pop', 'popitem returned (%r, %r) which was never stored' % (k, v), where))
                popped.setdefault(k, (cid, v))
            elif op[0] == 'set' and o[0] != 'ok':
                out.append(('index_conc_error', 'setitem raised KeyError%s' % o[1], where))
    # lookups of own keys: found with the stored value, or popped by somebody
    for cid in range(n):
        for i, (op, o, n0, n1) in enumerate(outcomes[cid] or []):
            if op[0] != 'get':
                continue
            where = {'client': cid, 'op_index': i, 'op': [op[0]] + rl(op[1:]), 'outcome': [o[0], repr(o[1])]}
            if o[0] == 'ok' and not teq(o[1], inserted.get(op[1], core.ENOVAL)):
                out.append(('lookup_phantom_value', 'lookup of %r returned %r, stored %r' % (op[1], o[1], inserted.get(op[1])), where))
            if o[0] == 'KeyError' and op[1] not in popped:
                out.append(('index_conc_lost', 'lookup of %r raised KeyError but nobody popped it' % (op[1],), where))
    if final is not None and not [s for s, _, _ in out if s == 'index_conc_error']:
        fin = {}
        for k, v in final:
            if k in fin or k in popped:
                out.append(('index_conc_duplicate_pop', 'key %r is both popped and still present / listed twice' % (k,), {'key': repr(k)}))
            fin[k] = v
        for k, v in inserted.items():
            if k not in popped and k not in fin:
                out.append(('index_conc_lost', 'inserted key %r neither popped nor present at the end' % (k,), {'key': repr(k)}))
            elif k in fin and not teq(fin[k], v):
                out.append(('index_conc_lost', 'key %r ends with value %r, stored %r' % (k, fin[k], v), {'key': repr(k)}))
        for k in fin:
            if k not in inserted:
                out.append(('index_conc_lost', 'final contents hold key %r that nobody inserted' % (k,), {'key': repr(k)}))
    return out


def ref_conc(ref, op):
    """The call `op` of a client on the OrderedDict: ('ok', result) or ('KeyError',)."""
    name = op[0]
    try:
        if name == 'get':
            return ('ok', ref[op[1]])
        if name == 'set':
            ref[op[1]] = op[2]
            return ('ok', None)
        if name == 'setdefault':
            return ('ok', ref.setdefault(op[1], op[2]))
        if name == 'popitem':
            if not ref:
                return ('KeyError',)
            return ('ok', ref.popitem(last=op[1]))
        if name == 'len':
            return ('ok', len(ref))
        if name == 'del':
            del ref[op[1]]
            return ('ok', None)
        if name == 'pop':
            return ('ok', ref.pop(op[1]))
        if name == 'update':
            ref.update(list(op[1]))
            return ('ok', None)
        if name == 'contains':
            return ('ok', op[1] in ref)
    except KeyError:
        return ('KeyError',)
    raise ValueError(name)


def linearizable(init, calls, final):
    """calls[c] = [(op, outcome, first, last)] per client in program order (first / last: positions of the call's first and last
    event in the global log, None if it made none).  True iff some order of all calls that keeps each client's order and puts a
    call that ended before another one started first gives, on an OrderedDict holding `init`, every observed outcome and `final`."""
    n = len(calls)

    def ok(o, r):
        if o[0] == 'KeyError':
            return r[0] == 'KeyError'
        return o[0] == 'ok' and r[0] == 'ok' and teq(o[1], r[1])

    def go(ix, ref):
        if all(ix[c] == len(calls[c]) for c in range(n)):
            return final is None or teq(list(ref.items()), list(final))
        for c in range(n):
            if ix[c] == len(calls[c]):
                continue
            op, o, first, last = calls[c][ix[c]]
            if first is not None and any(ix[d] < len(calls[d]) and calls[d][ix[d]][3] is not None and calls[d][ix[d]][3] < first
                                         for d in range(n) if d != c):
                continue        # a pending call of another client ended before this one started
            r2 = OrderedDict(ref)
            if ok(o, ref_conc(r2, op)) and go(ix[:c] + (ix[c] + 1,) + ix[c + 1:], r2):
                return True
        return False
    return go((0,) * n, OrderedDict(init))


def monitor_s3(init, programs, result, outcomes, final, prefix='index_shared_dir'):
    """Clients on distinct keys: every call returns (no exception but the KeyError of a mapping) and results plus final contents are
    those of the calls made one after the other, in an order compatible with real time, on an OrderedDict."""
    out = []
    n = len(programs)
    log = result['log']
    pos = positions(log, n)
    calls = []
    for cid in range(n):
        if result['errors'][cid] is not None or outcomes[cid] is None:
            out.append((prefix + '_error', 'client %d died: %r' % (cid, result['errors'][cid]), {'client': cid}))
            continue
        mine = []
        for i, (op, o, n0, n1) in enumerate(outcomes[cid]):
            if o[0] == 'error':
                evs = pos[cid][n0:n1]
                where = {'client': cid, 'op_index': i, 'op': [op[0]] + rl(op[1:]), 'outcome': [o[0], repr(o[1])]}
                if evs:
                    where['log_window'] = short_log(log, evs[0], evs[-1] + 1)
                out.append((prefix + '_error', 'client %d: %s(%s) raised %s where an OrderedDict returns'
                            % (cid, op[0], ', '.join(rl(op[1:]))[:120], o[1][:200]), where))
            evs = pos[cid][n0:n1]
            mine.append((op, o, evs[0] if evs else None, evs[-1] if evs else None))
        calls.append(mine)
    if not out and not linearizable(init, calls, final):
        out.append((prefix + '_not_linearizable',
                    "no order of the clients' calls gives these results and final contents on an OrderedDict: %s; final %s"
                    % ([[('%s(%s)' % (op[0], ', '.join(rl(op[1:]))[:60]), o[0], crepr(o[1])[:60]) for op, o, _, _ in cs] for cs in calls],
                       crepr(final)[:300]),
                    {'results': [[[o[0], crepr(o[1])[:80]] for _, o, _, _ in cs] for cs in calls], 'final': crepr(final)[:600]}))
    return out


S3_STORES = ('set', 'set_over_inline', 'setdefault', 'update')
S3_REMOVALS = ('replace_small', 'del', 'pop', 'popitem_first', 'popitem_last')


def s3_programs(store, removal, va, vb):
    """Client 0 stores the file-backed value va under 'ka' (by [], setdefault or update; new key or over an inline value) and reads
    it; client 1 removes its own file-backed value vb of 'kb' (replaced by a small value, del, pop, popitem) and looks 'ka' up."""
    init = [('kb', vb)] + ([('ka', 0)] if store == 'set_over_inline' else [])
    a = {'set': ('set', 'ka', va), 'set_over_inline': ('set', 'ka', va), 'setdefault': ('setdefault', 'ka', va),
         'update': ('update', [('ka', va)])}[store]      # ONE pair: see ASSUMPTIONS (update of several pairs is a sequence of assignments)
    b = {'replace_small': ('set', 'kb', 'small'), 'del': ('del', 'kb'), 'pop': ('pop', 'kb'),
         'popitem_first': ('popitem', False), 'popitem_last': ('popitem', True)}[removal]
    return init, [[a, ('get', 'ka')], [b, ('contains', 'ka')]]


def shared_dir_race(ctx, res, stats, thorough):
    """S3: two clients on one Index directory whose Disk keeps every value file in one sub-directory.  The removal made by client 1
    (its file is the only one there, so the directory is pruned) is placed at every point inside client 0's store of a file-backed
    value: after i = 0 .. all of client 0's events client 1 runs to its end, then client 0 goes on."""
    disk = shared_dir_disk()
    # setdefault x popitem(last=True): the popitem may remove the key between setdefault's add and the lookup that follows it (the
    # defect repaired by running the loop inside one transaction: known_findings.txt, fixed: property=C12); always run
    combos = [(s, r) for s in S3_STORES for r in S3_REMOVALS]
    if not thorough:
        combos = [(s, r) for j, (s, r) in enumerate(combos)
                  if s == 'set' and r in ('replace_small', 'popitem_last') or (s, r) == ('setdefault', 'popitem_last') or (j + ctx.seed) % 3 == 0]
    per_sig = {}
    nruns = 0
    for ci, (store, removal) in enumerate(combos):
        va, vb = 'A%d-' % ci * 12, ('b%d-' % ci * 12 if ci % 2 else ('pickled', 'b%d' % ci * 9, ci))
        init, programs = s3_programs(store, removal, va, vb)
        d = ctx.scratch('c12s')
        try:
            result, outcomes, final = run_conc(d, init, programs, [0] * 400, disk=disk)
        finally:
            shutil.rmtree(d, ignore_errors=True)
        nstore = outcomes[0][0][3] if outcomes[0] else 0         # events of client 0's store when nobody interferes
        for i in range(0, nstore + 1):
            schedule = [0] * i + [1] * 40 + [0] * 80
            d = ctx.scratch('c12s')
            try:
                result, outcomes, final = run_conc(d, init, programs, schedule, disk=disk)
            finally:
                shutil.rmtree(d, ignore_errors=True)
            if result['overflow']:
                stats['schedules_overflowed'] = stats.get('schedules_overflowed', 0) + 1
                continue
            nruns += 1
            used = result['schedule_used']
            res.count(['sched', 'S3', store, removal, used], nontrivial=switches(used) >= 1)
            if nruns == 1 or (i == 2 and ci == 0):
                res.sample({'scenario': 'S3', 'init': crepr(init), 'programs': [[crepr(list(op)) for op in p] for p in programs],
                            'log': short_log(result['log'])[:60],
                            'outcomes': [[[o[0], crepr(o[1])[:40]] for _, o, _, _ in (oc or [])] for oc in outcomes]}, limit=8)
            seen = set()
            for sig, desc, extra in monitor_s3(init, programs, result, outcomes, final):
                if sig in seen or per_sig.get(sig, 0) >= 4:
                    continue
                seen.add(sig)
                per_sig[sig] = per_sig.get(sig, 0) + 1
                extra = dict(extra, shared_dir=True, store=store, removal=removal, placed_after_events=i)
                res.violations.append(fw.Violation(sig, desc + ' [store %s, removal %s placed after %d event(s) of the store]' % (store, removal, i),
                                                   conc_case('S3', False, init, programs, result, extra)))
    stats['shared_dir_runs'] = stats.get('shared_dir_runs', 0) + nruns
    stats['shared_dir_programs'] = stats.get('shared_dir_programs', 0) + len(combos)


S4_OTHERS = ('setdefault', 'set', 'update', 'get', 'del', 'pop', 'popitem')


def s4_programs(other, va, vb):
    """Client 0: setdefault of the MISSING key 'ka' with default va, then a lookup.  Client 1: a call on the same key (setdefault with
    another default, [] =, update, lookup, del, pop, popitem from the end where 'ka' is added), then a lookup."""
    b = {'setdefault': ('setdefault', 'ka', vb), 'set': ('set', 'ka', vb), 'update': ('update', [('ka', vb)]), 'get': ('get', 'ka'),
         'del': ('del', 'ka'), 'pop': ('pop', 'ka'), 'popitem': ('popitem', True)}[other]
    return [('k0', 0)], [[('setdefault', 'ka', va), ('get', 'ka')], [b, ('get', 'ka')]]


def setdefault_race(ctx, res, stats, thorough):
    """S4: setdefault of a missing key against another client's setdefault (other default) / assignment / update / lookup of the SAME key,
    the other client's calls placed at every point inside the setdefault (after i = 0 .. all of its events), inline and file-backed
    defaults: both clients' results and the final contents are those of some order of the calls on an OrderedDict -- in particular two
    setdefault calls return the SAME value, the one that is stored, and one setdefault with one successful removal leaves the key absent."""
    per_sig = {}
    nruns = 0
    combos = [(o, fb) for o in S4_OTHERS for fb in (False, True)]
    for ci, (other, file_backed) in enumerate(combos):
        if not thorough and other in ('update', 'get') and (ci + ctx.seed) % 2:
            continue
        va, vb = ('default-of-A-' * 3, 'default-of-B-' * 3) if file_backed else (11, 22)
        init, programs = s4_programs(other, va, vb)
        d = ctx.scratch('c12d')
        try:
            result, outcomes, final = run_conc(d, init, programs, [0] * 400)
        finally:
            shutil.rmtree(d, ignore_errors=True)
        nstore = outcomes[0][0][3] if outcomes[0] else 0         # events of client 0's setdefault when nobody interferes
        for i in range(0, nstore + 1):
            schedule = [0] * i + [1] * 60 + [0] * 80
            d = ctx.scratch('c12d')
            try:
                result, outcomes, final = run_conc(d, init, programs, schedule)
            finally:
                shutil.rmtree(d, ignore_errors=True)
            if result['overflow']:
                stats['schedules_overflowed'] = stats.get('schedules_overflowed', 0) + 1
                continue
            nruns += 1
            used = result['schedule_used']
            res.count(['sched', 'S4', other, file_backed, used], nontrivial=switches(used) >= 1)
            seen = set()
            for sig, desc, extra in monitor_s3(init, programs, result, outcomes, final, prefix='index_setdefault_race'):
                if sig in seen or per_sig.get(sig, 0) >= 4:
                    continue
                seen.add(sig)
                per_sig[sig] = per_sig.get(sig, 0) + 1
                extra = dict(extra, other=other, file_backed=file_backed, placed_after_events=i)
                res.violations.append(fw.Violation(sig, desc + ' [setdefault of a missing key against %s of the same key placed after %d event(s) of it]'
                                                   % (other, i), conc_case('S4', not file_backed, init, programs, result, extra)))
    stats['setdefault_race_runs'] = stats.get('setdefault_race_runs', 0) + nruns


S5_READER_EVENTS = 3        # SELECT, open, read: what one lookup of a file-backed value makes when nobody interferes


def s5_value(i, file_backed):
    return ('s5v%d-' % i) * 9 if file_backed else 500 + i


def s5_grid(m, twice):
    """Placements of m replacements inside one lookup: the reader makes a_0 events, the first replacement runs to its end, the reader
    makes a_1 more events, the second replacement runs, ...; a_0 in 0..3 (before / after each event of an undisturbed lookup), every
    later a_i in 0..4 (a lookup that looks again makes open, SELECT, open, read)."""
    out = [[a] for a in range(S5_READER_EVENTS + 1)]
    for _ in range(m - 1):
        out = [p + [a] for p in out for a in range(S5_READER_EVENTS + 2)]
    return out


def s5_run(files, placement, twice, mkdir):
    """files: [initial value is file-backed, first replacement is, second is, ...]; placement: see s5_grid; twice: ONE writer makes all
    the replacements one after the other (else every replacement is a client of its own).  Returns (init, programs, schedule, result,
    outcomes, final)."""
    m = len(files) - 1
    init = [('k', s5_value(0, files[0]))]
    sets = [('set', 'k', s5_value(i + 1, files[i + 1])) for i in range(m)]
    if twice:
        programs = [[('get', 'k')], sets]
        # the events of each assignment when nobody interferes (file-backed: create, BEGIN, UPDATE, COMMIT, remove old file)
        d = mkdir()
        try:
            result, outcomes, final = run_conc(d, init, programs, [1] * 400)
        finally:
            shutil.rmtree(d, ignore_errors=True)
        ends = [o[3] for o in (outcomes[1] or [])]
        lens = [e - (ends[i - 1] if i else 0) for i, e in enumerate(ends)]
        schedule = []
        for i, a in enumerate(placement):
            schedule += [0] * a + [1] * (lens[i] if i < len(lens) else 40)
        schedule += [0] * 80 + [1] * 80
    else:
        programs = [[('get', 'k')]] + [[s] for s in sets]
        schedule = []
        for i, a in enumerate(placement):
            schedule += [0] * a + [i + 1] * 40
        schedule += [0] * 80
    d = mkdir()
    try:
        result, outcomes, final = run_conc(d, init, programs, schedule)
    finally:
        shutil.rmtree(d, ignore_errors=True)
    return init, programs, schedule, result, outcomes, final


def lookup_among_replacements(ctx, res, stats, thorough):
    """S5 (continuous presence, directed): ONE lookup of a key against TWO and THREE replacements of its value (never a removal), each
    replacement placed at every point inside the lookup -- also after the points the lookup reaches only because an earlier replacement
    made it look again -- for every combination of the placements; replacements by separate clients and by one client that assigns
    several times; file-backed and inline values mixed.  The key is present in every committed state, so the lookup must return a value
    that was stored under it (monitor_s1) and the final value is the last assignment's."""
    per_sig = {}
    nruns = 0
    looked_again = 0
    plans = []
    for m in (2, 3):
        pats = [[bool(b >> i & 1) for i in range(m + 1)] for b in range(2 ** (m + 1))]
        allfile = [True] * (m + 1)
        if not thorough:
            others = [p for p in pats if p != allfile]
            pats = [allfile] + ([others[(ctx.seed * 3 + m) % len(others)]] if m == 2 else [])
        elif m == 3:        # three replacements: at most one inline value among the four, and all inline
            pats = [p for p in pats if sum(p) >= m or not any(p)]
        for files in pats:
            for twice in ((False, True) if (m == 2 or (thorough and files == allfile)) else (False,)):
                plans.append((m, files, twice))
    for m, files, twice in plans:
        for placement in s5_grid(m, twice):
            init, programs, schedule, result, outcomes, final = s5_run(files, placement, twice, lambda: ctx.scratch('c12v'))
            if result['overflow']:
                stats['schedules_overflowed'] = stats.get('schedules_overflowed', 0) + 1
                continue
            nruns += 1
            used = result['schedule_used']
            res.count(['sched', 'S5', files, twice, placement, used], nontrivial=switches(used) >= 2)
            looked_again += int(sum(1 for c, e, _ in result['log'] if c == 0 and e == 'sql:SELECT') >= 2)
            if nruns == 1:
                res.sample({'scenario': 'S5', 'init': crepr(init), 'programs': [[crepr(list(op)) for op in p] for p in programs],
                            'placement': placement, 'log': short_log(result['log'])[:40]}, limit=8)
            found = monitor_s1(init, programs, result, outcomes, not any(files))
            last = programs[-1][-1][2]
            if not found and (final is None or not teq(list(final), [('k', last)])) and all(o is not None and all(x[1][0] == 'ok' for x in o) for o in outcomes):
                found.append(('index_replacements_final', 'after %d replacements of one key (the last one stores %s) the index holds %s'
                              % (m, crepr(last)[:40], crepr(final)[:80]), {'final': crepr(final)[:200]}))
            seen = set()
            for sig, desc, extra in found:
                if sig in seen or per_sig.get(sig, 0) >= 3:
                    continue
                seen.add(sig)
                per_sig[sig] = per_sig.get(sig, 0) + 1
                extra = dict(extra, replacements=m, file_backed=files, one_writer=twice, reader_events_before_each_replacement=placement)
                res.violations.append(fw.Violation(
                    sig, desc + ' [one lookup against %d replacements of the key%s; the lookup had made %s event(s) before the successive replacements ran; '
                    'values file-backed: %r]' % (m, ' by one writer' if twice else '', '+'.join(map(str, placement)), files),
                    conc_case('S1', not any(files), init, programs, result, extra)))
    stats['lookup_among_replacements_runs'] = stats.get('lookup_among_replacements_runs', 0) + nruns
    stats['lookup_among_replacements_that_looked_again'] = stats.get('lookup_among_replacements_that_looked_again', 0) + looked_again


def gen_schedule(rng, n):
    length = rng.randint(50, 300)
    if rng.random() < 0.5:
        return [rng.randrange(n) for _ in range(length)]
    out = []
    while len(out) < length:
        out += [rng.randrange(n)] * rng.randint(1, 14)
    return out[:length]


def gen_s1(rng, inline):
    n = rng.choice([2, 2, 3])
    counter = [0]

    def val():
        counter[0] += 1
        if inline:
            return counter[0]
        return ('v%d' % counter[0]) * 10 if rng.random() < 0.7 else counter[0]
    init = [('k1', val()), ('k2', val())]
    programs = []
    for c in range(n):
        p = []
        for _ in range(rng.randint(5, 12)):
            k = rng.choice(['k1', 'k1', 'k2'])
            x = rng.random()
            if x < 0.5:
                p.append(('get', k))
            elif x < 0.85:
                p.append(('set', k, val()))
            else:
                counter[0] += 1
                p.append(('setdefault', k, 'default-%d' % counter[0] if not inline else -counter[0]))
        programs.append(p)
    return init, programs


def gen_s2(rng):
    n = rng.choice([2, 3, 3])
    counter = [0]

    def val():
        counter[0] += 1
        return ('w%d' % counter[0]) * 10 if rng.random() < 0.5 else counter[0]
    init = [('k1', val()), ('k2', val())]
    programs = []
    for c in range(n):
        p = []
        mine = []
        for j in range(rng.randint(5, 11)):
            x = rng.random()
            if x < 0.4:
                key = (c, j)
                mine.append(key)
                p.append(('set', key, val()))
            elif x < 0.85 or not mine:
                p.append(('popitem', rng.random() < 0.5))
            else:
                p.append(('get', rng.choice(mine)))
        programs.append(p)
    return init, programs


def evaluate_conc(scenario, inline, init, programs, result, outcomes, final):
    if scenario == 'S1':
        return monitor_s1(init, programs, result, outcomes, inline)
    if scenario == 'S3':
        return monitor_s3(init, programs, result, outcomes, final)
    if scenario == 'S4':
        return monitor_s3(init, programs, result, outcomes, final, prefix='index_setdefault_race')
    return monitor_s2(init, programs, result, outcomes, final)


def switches(used):
    return sum(1 for a, b in zip(used, used[1:]) if a != b)


def concurrent(ctx, res, nsched, stats):
    rng = ctx.rng
    by = stats.setdefault('schedules_by_scenario', {})
    per_sig = {}
    for s in range(nsched):
        m = s % 6
        scenario, inline = ('S2', False) if m in (2, 5) else ('S1', m == 4)
        init, programs = gen_s1(rng, inline) if scenario == 'S1' else gen_s2(rng)
        schedule = gen_schedule(rng, len(programs))
        d = ctx.scratch('c12c')
        try:
            result, outcomes, final = run_conc(d, init, programs, schedule)
        finally:
            shutil.rmtree(d, ignore_errors=True)
        if result['overflow']:
            stats['schedules_overflowed'] = stats.get('schedules_overflowed', 0) + 1
            continue
        name = scenario + ('-inline' if inline else '')
        by[name] = by.get(name, 0) + 1
        stats['schedule_steps'] = stats.get('schedule_steps', 0) + result['steps']
        used = result['schedule_used']
        res.count(['sched', scenario, inline, repr(programs), used], nontrivial=switches(used) >= 2)
        if by[name] == 1:
            res.sample({'scenario': name, 'init': repr(init), 'programs': [[repr(op) for op in p] for p in programs],
                        'schedule_used': used[:80], 'steps': result['steps'],
                        'outcomes': [[[o[0], repr(o[1])[:40]] for _, o, _, _ in (oc or [])] for oc in outcomes]}, limit=6)
        found = evaluate_conc(scenario, inline, init, programs, result, outcomes, final)
        seen = set()
        for sig, desc, extra in found:
            if sig in seen or per_sig.get(sig, 0) >= 5:
                continue
            seen.add(sig)
            per_sig[sig] = per_sig.get(sig, 0) + 1
            res.violations.append(fw.Violation(sig, desc, conc_case(scenario, inline, init, programs, result, extra)))
    stats['schedules'] = stats.get('schedules', 0) + nsched


# -- the schedule of the former finding C12-F1, kept as a regression input


def witness_run(old, new, schedule):
    """reader (client 0: idx['k']) against writer (client 1: idx['k'] = new) on a fresh directory holding k -> old."""
    d = tempfile.mkdtemp(prefix='c12wit-')
    try:
        result, outcomes, final = run_conc(d, [('k', old)], [[('get', 'k')], [('set', 'k', new)]], schedule)
    finally:
        shutil.rmtree(d, ignore_errors=True)
    log = [[c, e] for c, e, _ in result['log']]
    reader = outcomes[0][0][1] if outcomes[0] else ('error', repr(result['errors'][0]))
    writer = outcomes[1][0][1] if outcomes[1] else ('error', repr(result['errors'][1]))
    return {'schedule': list(schedule), 'log': log, 'overflow': result['overflow'],
            'reader': [reader[0], repr(reader[1])[:60]], 'writer': [writer[0], repr(writer[1])[:60]],
            'final': repr(final)[:80], 'reader_value': reader[1] if reader[0] == 'ok' else None}


WITNESS_SCHEDULE = [0] + [1] * 40 + [0] * 10


def witness_shape(log):
    """reader SELECT first, then the whole writer including its remove, then the reader's open-read."""
    if not log or log[0] != [0, 'sql:SELECT']:
        return False
    rem = [i for i, (c, e) in enumerate(log) if c == 1 and e == 'file:remove']
    opn = [i for i, (c, e) in enumerate(log) if c == 0 and e == 'file:open-read']
    com = [i for i, (c, e) in enumerate(log) if c == 1 and e == 'sql:COMMIT']
    return bool(rem and opn and com) and com[0] < rem[0] < opn[0]


def regression_lookup_overlapping_replace(res, runs=None):
    """Former finding C12-F1 (D12): reader SELECT; writer store+BEGIN+UPDATE+COMMIT+remove; reader open.  The code used to raise
    KeyError although the key was present throughout; the lookup must now look the row up again and return the NEW value.
    Appends a violation (raw signature, no re-attribution) if it does not."""
    w = witness_run('x' * 100, 'y' * 100, WITNESS_SCHEDULE)
    shape = witness_shape(w['log'])
    ok = w['reader'][0] == 'ok' and w['reader_value'] == 'y' * 100 and w['writer'][0] == 'ok'
    selects = sum(1 for c, e in w['log'] if c == 0 and e == 'sql:SELECT')
    if runs is not None:
        w2 = dict(w)
        w2.pop('reader_value')
        w2.update({'variant': 'overlap (file-backed)', 'shape_ok': shape, 'reader_found_new_value': bool(ok), 'reader_selects': selects})
        runs.append(w2)
    case = {'check': 'index_conc', 'scenario': 'S1', 'inline': False, 'init': [["'k'", repr('x' * 100)]],
            'programs': [[['get', "'k'"]], [['set', "'k'", repr('y' * 100)]]], 'schedule': list(WITNESS_SCHEDULE)}
    if not shape:
        res.disagreements.append(fw.Violation(
            'regression_schedule_shape', 'the schedule of the former finding C12-F1 no longer places the writer\'s removal between the reader\'s '
            'SELECT and its open (the event sequence of a call changed?): %r' % (w['log'],), case, 'correspondence'))
    elif not ok:
        res.violations.append(fw.Violation(
            REGRESSION_SIG, 'a lookup of a key that is present in every committed state, overlapping the replacement of its file-backed value '
            '(reader SELECT; writer store, BEGIN, UPDATE, COMMIT, remove old file; reader open), gave %r instead of the new value' % (w['reader'],), case))
    return bool(ok)


def witness_variants(res, runs):
    """Benign order and inline values: the lookup must succeed."""
    b = witness_run('x' * 100, 'y' * 100, [1] * 40 + [0] * 10)
    ok = b['reader'][0] == 'ok' and b['reader_value'] == 'y' * 100
    b2 = dict(b)
    b2.pop('reader_value')
    b2.update({'variant': 'benign (writer first)', 'reader_found_new_value': ok})
    runs.append(b2)
    if not ok:
        res.violations.append(fw.Violation(
            'lookup_keyerror_other', 'lookup after a completed replacement did not return the new value: %r' % (b['reader'],),
            {'check': 'index_conc', 'scenario': 'witness-benign', 'inline': False, 'init': [["'k'", repr('x' * 100)]],
             'programs': [[['get', "'k'"]], [['set', "'k'", repr('y' * 100)]]], 'schedule': [1] * 40 + [0] * 10}))
    i = witness_run(1, 2, WITNESS_SCHEDULE)
    ok = i['reader'][0] == 'ok' and i['reader_value'] in (1, 2)
    i2 = dict(i)
    i2.pop('reader_value')
    i2.update({'variant': 'inline (1 -> 2)', 'reader_found_value': ok})
    runs.append(i2)
    if not ok:
        res.violations.append(fw.Violation(
            'lookup_keyerror_inline', 'lookup overlapping the replacement of an inline value failed: %r' % (i['reader'],),
            {'check': 'index_conc', 'scenario': 'S1', 'inline': True, 'init': [["'k'", '1']],
             'programs': [[['get', "'k'"]], [['set', "'k'", '2']]], 'schedule': list(WITNESS_SCHEDULE)}))


# ---------------------------------------------------------------------------
# entry points


def finish_extra(res, stats):
    ops = stats.get('ops', 0)
    res.extra.update({
        'op_histogram': stats.get('op_histogram', {}),
        'error_fraction': round(stats.get('errors', 0) / float(ops), 4) if ops else 0.0,
        'histories': stats.get('histories', 0),
        'history_ops': ops,
        'histories_with_reopen': stats.get('histories_with_reopen', 0),
        'histories_with_pickle': stats.get('histories_with_pickle', 0),
        'histories_by_kind': stats.get('histories_by_kind', {}),
        'histories_by_stream': stats.get('histories_by_stream', {}),
        'filebacked_values_stored': stats.get('filebacked_values_stored', 0),
        'directed_value_histories': stats.get('directed_value_histories', 0),
        'eq_cases': stats.get('eq_cases', {}),
        'schedules': stats.get('schedules', 0),
        'schedules_by_scenario': stats.get('schedules_by_scenario', {}),
        'schedules_overflowed': stats.get('schedules_overflowed', 0),
        'schedule_steps': stats.get('schedule_steps', 0),
    })
    for k in ('histories_failing', 'histories_contended', 'failing_sources', 'contended_calls', 'contended_calls_that_waited',
              'contended_failed_begin_attempts', 'directed_int_histories', 'directed_twin_histories', 'shared_dir_runs', 'shared_dir_programs', 'setdefault_race_runs',
              'histories_evicting_parent', 'evicting_parent_items_stored', 'lookup_among_replacements_runs',
              'lookup_among_replacements_that_looked_again'):
        res.extra[k] = stats.get(k, 0)


RULE = ('sequential: generated histories of 10-40 mapping operations (two streams: valid = mostly present keys, malformed = absent '
        'keys / empty index) on Index kinds plain, file-backed (disk_min_file_size=8), FanoutCache.index, DjangoCache.index, with '
        'reopen and unpickle events; after every call result (value and type), exception class and list(items()) are compared with '
        'collections.OrderedDict.  Values: small natives and tuples; under disk_min_file_size=8 text with CRLF / CR / LF / NEL / LS / PS, '
        'bytes and pickles holding them; on every kind (P about 0.1 per stored value) text, bytes and pickled tuples at and above the default '
        '32 KiB file threshold with CRLF, CR, LF and mixed endings, threshold +-1 lengths; == / != also against a mapping that differs only in '
        'line endings.  Directed histories: every value of those pools x every kind through [], get, values, items, peekitem, in, == / != '
        '(same, reversed, line-ending variant), reopen, unpickle, pop, setdefault, popitem from both ends, update.  '
        'distinct = distinct (kind, op, arguments, contents before); non-trivial = contents before or '
        'after non-empty, or the call raises.  concurrent: 2-3 clients with their own Cache on one directory under random '
        'deterministic schedules of 50-300 steps (S1 continuous presence, S1 inline only, S2 popitem accounting); non-trivial = '
        'at least two context switches; plus, as a regression input, the schedule of the former finding C12-F1 (lookup overlapping the replacement of a '
        'file-backed value: the new value must be found).  Failing sources (monitor only): histories '
        'of 4-12 calls on every kind in which update() -- and for Index(directory, source) / Index.fromcache(cache, source) the constructor -- gets a '
        'source of n = 0..5 pairs (new and present keys, inline and file-backed values) that fails after k = 0..n pairs: a generator that raises, a '
        'list whose element k is not a pair (7, None, 1-tuple, 3-tuple, \'abc\'), a keys()/[] object whose k-th lookup raises; followed by reads and '
        'reopen/unpickle events; OrderedDict keeps the pairs delivered before the failure.  Contention (monitor only): valid-stream histories on '
        'Index.fromcache(Cache(dir, timeout=0)); every call starts while a second connection holds the write lock, released just before the '
        'call\'s (k+1)-th BEGIN attempt (k = 1..3): every method must wait and return what OrderedDict returns, never Timeout.  '
        'Integer edges: +-2**b and +-2**b +-1 for b = 31, 53, 63, 64, and 2**32, +-2**127, 10**30, as keys, as values and inside tuple keys '
        '(also 2.0**63, -2.0**63, 2.0**53 and tuples of them as values): drawn with probability 0.04 wherever a history draws a key or a value, '
        'and directed histories (every kind; the quick tier gives FanoutCache.index and DjangoCache.index every other group of five) that store '
        'each of them by [], setdefault, update and the constructor, look it up by [], get, in, the views, replace, pop / del / pop with default, '
        'popitem, reopen and unpickle.  Shared sub-directory (S3, monitor only): two clients with a Disk whose filename() keeps all value '
        'files in one sub-directory; client 0 stores a file-backed value ([] on a new key, [] over an inline value, setdefault, update) and looks '
        'it up, client 1 removes its own file-backed value (text or pickle; replaced by a small value, del, pop, popitem from either end; its file '
        'is the only one in the directory, which is pruned) and tests `in`; client 1 runs to its end after i = 0..n events of client 0\'s '
        'store (n = number of events of that store alone); no call may raise anything but a mapping\'s KeyError and results + final items() '
        'must be those of some real-time-compatible order of the four calls on an OrderedDict (quick tier: a third of the 19 store x removal '
        'pairs by seed plus [] x replacement and [] x popitem(last)).  Setdefault race (S4, monitor only): setdefault of a MISSING key (inline and '
        'file-backed default) against another client\'s setdefault with another default / [] = / update / lookup of the same key, the other client '
        'placed after i = 0..n events of the setdefault; same requirement (two setdefault calls return the same, stored value).  '
        'Several replacements inside one lookup (S5, monitor only): ONE lookup of a key against two and three replacements of its value (separate '
        'clients, or one client assigning several times), the i-th replacement run to its end after the lookup has made a_i further events, for '
        'EVERY combination a_0 in 0..3, a_i in 0..4 (so also at the points the lookup reaches only because an earlier replacement made it look '
        'again), all values file-backed (quick tier: plus one mixed inline / file-backed pattern by seed for two replacements; thorough: every '
        'pattern for two replacements, for three those with at most one inline value): the lookup returns a value stored under the key, never '
        'KeyError, and the last assignment is what remains.  '
        'Evicting parents (monitor only, own random stream): an Index from FanoutCache.index / DjangoCache.index (OPTIONS) of a parent CONSTRUCTED '
        'with each eviction policy and size_limit %d over two shards, filled with 80-170 pairs of inline values of 200-900 characters (several '
        'times one shard\'s share of that limit) by update, [] and setdefault, read, obtained again by reopen / unpickle, filled further, popped '
        'from both ends: after every call items() is what OrderedDict holds.  Twin keys (monitor only): for every kind and each composite key of '
        '{("user", 42), (1, 2), None, True, 2**70, -2**63-1, (None,), ((1, "a"), 2.5), ()} the bytes key equal to the form this Index writes into the key column '
        '(bytes(index.cache.disk.put(k)[0])): both stored in either order by [], setdefault, update and the constructor, then looked up, listed by '
        'the views, replaced, popped, deleted, taken by popitem from both ends, over reopen and unpickle (quick tier: half of the (key, order) '
        'combinations by seed).' % SMALL_PARENT_LIMIT)


def run(ctx):
    res = fw.Result()
    res.rule = RULE
    stats = {}
    nhist, nsched = (250, 60) if ctx.quick else (2500, 600)
    histories = sequential(ctx, res, nhist, stats)
    directed_values(ctx, res, stats, histories, not ctx.quick)
    directed_ints(ctx, res, stats, histories, not ctx.quick)
    directed_twins(ctx, res, stats, not ctx.quick)
    extra_histories(ctx, res, stats, 80 if ctx.quick else 800, 40 if ctx.quick else 400)
    evicting_parent_histories(ctx, res, stats, 8 if ctx.quick else 64)
    correspondence(ctx, res, histories, 7000 if ctx.quick else 100000)
    concurrent(ctx, res, nsched, stats)
    shared_dir_race(ctx, res, stats, not ctx.quick)
    setdefault_race(ctx, res, stats, not ctx.quick)
    lookup_among_replacements(ctx, res, stats, not ctx.quick)
    machine_correspondence(ctx, res, 40 if ctx.quick else 400)
    runs = []
    regression_lookup_overlapping_replace(res, runs)
    witness_variants(res, runs)
    res.extra['witness_runs'] = runs
    finish_extra(res, stats)
    return res


def search(ctx, broken):
    res = fw.Result()
    stats = {}
    nhist, nsched = (700, 150) if ctx.quick else (3000, 600)
    sequential(ctx, res, nhist, stats)
    directed_values(ctx, res, stats, [], True)
    directed_ints(ctx, res, stats, [], True)
    directed_twins(ctx, res, stats, True)
    extra_histories(ctx, res, stats, 240, 120)
    evicting_parent_histories(ctx, res, stats, 16)
    concurrent(ctx, res, nsched, stats)
    shared_dir_race(ctx, res, stats, True)
    setdefault_race(ctx, res, stats, True)
    lookup_among_replacements(ctx, res, stats, True)
    regression_lookup_overlapping_replace(res)
    return res


def replay(payload):
    if payload.get('kind') == 'broken-obligation':
        # no failing input was found by the monitors; re-run the histories attached to broken correspondences (if any)
        ok = True
        for ob in payload.get('obligations', []):
            print('broken obligation: %s -- %s' % (ob.get('name'), str(ob.get('detail'))[:300]))
            if isinstance(ob.get('case'), dict) and ob['case'].get('check'):
                ok = replay({'case': ob['case']}) and ok
        return ok
    case = payload.get('case', {})
    check = case.get('check')
    if check == 'index_machine':
        # one lookup against replacements under the recorded schedule; the property says the lookup must find the key
        news = [('v%d' % (8 + i)) * 10 if f else 8 + i for i, f in enumerate(case['writers_file_backed'])]
        v0 = 'v7' * 10 if case['file0'] else 7
        d = tempfile.mkdtemp(prefix='c12r-')
        try:
            result, outcomes, final = run_conc(d, [('k', v0)], [[('get', 'k')]] + [[('set', 'k', n)] for n in news],
                                               case['schedule'])
        finally:
            shutil.rmtree(d, ignore_errors=True)
        for c, e, _ in result['log']:
            print('  client %d  %s' % (c, e))
        o = outcomes[0][0][1] if outcomes[0] else ('error', None)
        print('lookup outcome:', o[0], repr(o[1])[:60])
        return o[0] == 'ok'
    if check in ('index_history', 'index_model'):
        kind = case['kind']
        init = [(ev(k), ev(v)) for k, v in case['init']]
        ops = [(op, [ev(a) for a in args]) for op, args in case['ops']]
        print('kind:', kind)
        print('init:', crepr(init))
        extra = {}
        if case.get('init_fail'):
            f = case['init_fail']
            extra['init_fail'] = [f[0], f[1], ev(f[2])]
            print('the index is constructed from a source that delivers %d of these pairs and then fails (%s%s)'
                  % (f[0], f[1], '' if f[1] != 'malformed' else ': element %s' % f[2]))
        if case.get('contend'):
            extra['contend'] = case['contend']
            print('every call runs while another connection holds the write lock (released after k failed BEGIN attempts; [k, again]): %r' % (case['contend'],))
        events, div, at = run_history(kind, init, ops, lambda: tempfile.mkdtemp(prefix='c12r-'), **extra)
        for i, e in enumerate(events):
            print('  %2d %s(%s) -> %s   items=%s' % (i, e['op'], ', '.join(crepr(x) for x in e['args']), crepr(e['res']), crepr(e['items'])))
        if div is None:
            print('Index and OrderedDict agree on every call of this history')
            return True
        print('DIVERGENCE (%s, sig %s) at %s' % (div['what'], div['sig'], 'init' if at < 0 else 'op %d' % at))
        print('  expected (OrderedDict):', div['expected'])
        print('  observed (Index):      ', div['observed'])
        return False
    if check == 'index_policy':
        d = tempfile.mkdtemp(prefix='c12r-')
        try:
            idx = diskcache.Index(d)
            pol = idx.cache.eviction_policy
            idx.cache.close()
        finally:
            shutil.rmtree(d, ignore_errors=True)
        print('Index(directory).cache.eviction_policy =', repr(pol))
        return pol == 'none'
    if check == 'index_conc':
        scenario = case['scenario'] if case['scenario'] in ('S2', 'S3', 'S4') else 'S1'
        inline = bool(case.get('inline'))
        init = [(ev(k), ev(v)) for k, v in case['init']]
        programs = [[tuple([op[0]] + [ev(a) for a in op[1:]]) for op in p] for p in case['programs']]
        disk = shared_dir_disk() if case.get('shared_dir') else None
        d = tempfile.mkdtemp(prefix='c12r-')
        try:
            result, outcomes, final = run_conc(d, init, programs, case['schedule'], disk=disk)
        finally:
            shutil.rmtree(d, ignore_errors=True)
        print('scenario %s%s, %d clients, %d steps' % (scenario, ' (inline)' if inline else '', len(programs), result['steps']))
        if disk is not None:
            print('every client opens the directory with a Disk whose filename() keeps all value files in ONE sub-directory (%s)' % disk.__name__)
        for c, e, det in result['log']:
            print('  client %d  %s%s' % (c, e, '  ' + os.path.basename(str(det[0])) if e.startswith('file:') and det else ''))
        for cid, oc in enumerate(outcomes):
            for op, o, _, _ in (oc or []):
                print('  client %d: %r -> %s %r' % (cid, op, o[0], o[1]))
        if result['overflow']:
            print('schedule overflowed; nothing to judge')
            return True
        found = evaluate_conc(scenario, inline, init, programs, result, outcomes, final)
        for sig, desc, _ in found:
            print('MONITOR %s: %s' % (sig, desc))
        if not found:
            print('expected: every lookup of a continuously present key succeeds / popitem accounting balances / every call returns what some '
                  'order of the calls gives on an OrderedDict; observed: it does')
        return not found
    print('replay payload:', payload)
    return True
